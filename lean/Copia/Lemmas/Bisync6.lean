import Copia.Lemmas.Bisync5
import Copia.Lemmas.PathSafe
namespace Copia.Bisync
open Copia.Reconcile Copia.PathSafe

variable {P C : Type} [DecidableEq P] [DecidableEq C]

theorem both_present_not_dvm {D} [DecidableEq D] (a b : Fp D) (z : Option (Fp D)) :
    reconcilePath (some a) (some b) z ≠ .conflict .deleteVsModify := by
  rw [Copia.C18.path_eq_table]
  simp only [Option.isSome_some]
  generalize Copia.C18.eqo (some a) (some b) = e1
  generalize Copia.C18.eqo (some a) z = e2
  generalize Copia.C18.eqo (some b) z = e3
  cases z.isSome <;> cases e1 <;> cases e2 <;> cases e3 <;> simp [Copia.C18.table]

theorem winner_or_loser (ge : C → C → Bool) (xa yb : C) :
    (winner ge xa yb = xa ∧ loser ge xa yb = yb) ∨ (winner ge xa yb = yb ∧ loser ge xa yb = xa) := by
  unfold winner loser
  cases ge xa yb <;> simp

/-- C02 at run level, side A: a version on A before the run is on both sides afterwards (at its path
or at the conflict-copy name), unless it was the base version and B had changed or deleted the path. -/
theorem runInv_no_loss_A (ge : C → C → Bool) (cname : P → C → P) (A0 B0 : Tree P C) (z : P → Option (Fp C))
    (plan : List (P × Action)) (l : Live P C)
    (hact : ∀ p act, (p, act) ∈ plan → act = reconcilePath ((get A0 p).map mkFp) ((get B0 p).map mkFp) (z p))
    (hrest : ∀ q, (∀ act, (q, act) ∉ plan) → reconcilePath ((get A0 q).map mkFp) ((get B0 q).map mkFp) (z q) = .noop)
    (nnc : NoNameClash ge cname A0 B0 plan) (inv : RunInv ge cname A0 B0 plan l)
    (p : P) (c : C) (h : get A0 p = some c) :
    (∃ q, get l.A q = some c ∧ get l.B q = some c) ∨ (z p = some (mkFp c) ∧ get B0 p ≠ some c) := by
  by_cases h1 : ∃ act, (p, act) ∈ plan
  · obtain ⟨act, hm⟩ := h1
    obtain ⟨hA, hB⟩ := inv.atPath p act hm
    have heq := resolve_eq ge (get A0 p) (get B0 p) (z p) act (hact p act hm)
    have hsafe := (path_safe ((get A0 p).map mkFp) ((get B0 p).map mkFp) (z p)).1
    rw [← hact p act hm] at hsafe
    rw [h] at hA hB heq hsafe
    by_cases hk : (resolve ge act (some c) (get B0 p)).1 = some c
    · left; exact ⟨p, by rw [hA, hk], by rw [hB, ← heq, hk]⟩
    · -- the version at the path was replaced: which action can do that?
      cases act with
      | noop => simp [resolve] at hk
      | convergeIdentical => simp [resolve] at hk
      | propagateAtoB => simp [resolve] at hk
      | deleteB => simp [resolve] at hk
      | propagateBtoA =>
        right
        obtain ⟨hz, hb⟩ := hsafe (mkFp c) (by simp [discardsA])
        refine ⟨hz, ?_⟩
        intro e; apply hb; rw [e]; rfl
      | deleteA =>
        right
        obtain ⟨hz, hb⟩ := hsafe (mkFp c) (by simp [discardsA])
        refine ⟨hz, ?_⟩
        intro e; apply hb; rw [e]; rfl
      | conflict k =>
        cases k with
        | deleteVsModify => simp [resolve] at hk
        | bothChanged =>
          cases hy : get B0 p with
          | none => simp [resolve, hy] at hk
          | some yb =>
            rw [hy] at hk
            simp only [resolve] at hk
            rcases winner_or_loser ge c yb with ⟨hw, _⟩ | ⟨_, hl⟩
            · exact absurd (by rw [hw]) hk
            · left
              have hc : ccName ge cname p (.conflict .bothChanged) (get A0 p) (get B0 p) = some (cname p (loser ge c yb)) := by
                simp [ccName, h, hy]
              obtain ⟨xa', yb', e1, e2, h3, h4⟩ := inv.atCopy p _ _ hm hc
              rw [h] at e1; rw [hy] at e2
              cases e1; cases e2
              rw [hl] at h3 h4
              exact ⟨_, h3, h4⟩
  · have hno := hrest p (fun act hm => h1 ⟨act, hm⟩)
    have hxy := noop_eq _ _ (z p) hno
    have hnt : ¬ touched ge cname A0 B0 plan p := by
      rintro (hh | ⟨p', act', hm, hc⟩)
      · exact h1 hh
      · have := (nnc.notLive p' act' p hm hc).1
        rw [h] at this; cases this
    obtain ⟨hA, hB⟩ := inv.untouched p hnt
    left
    exact ⟨p, by rw [hA, h], by rw [hB, ← hxy, h]⟩

/-- side B, symmetric -/
theorem runInv_no_loss_B (ge : C → C → Bool) (cname : P → C → P) (A0 B0 : Tree P C) (z : P → Option (Fp C))
    (plan : List (P × Action)) (l : Live P C)
    (hact : ∀ p act, (p, act) ∈ plan → act = reconcilePath ((get A0 p).map mkFp) ((get B0 p).map mkFp) (z p))
    (hrest : ∀ q, (∀ act, (q, act) ∉ plan) → reconcilePath ((get A0 q).map mkFp) ((get B0 q).map mkFp) (z q) = .noop)
    (nnc : NoNameClash ge cname A0 B0 plan) (inv : RunInv ge cname A0 B0 plan l)
    (p : P) (c : C) (h : get B0 p = some c) :
    (∃ q, get l.A q = some c ∧ get l.B q = some c) ∨ (z p = some (mkFp c) ∧ get A0 p ≠ some c) := by
  by_cases h1 : ∃ act, (p, act) ∈ plan
  · obtain ⟨act, hm⟩ := h1
    obtain ⟨hA, hB⟩ := inv.atPath p act hm
    have heq := resolve_eq ge (get A0 p) (get B0 p) (z p) act (hact p act hm)
    have hsafe := (path_safe ((get A0 p).map mkFp) ((get B0 p).map mkFp) (z p)).2
    rw [← hact p act hm] at hsafe
    rw [h] at hA hB heq hsafe
    by_cases hk : (resolve ge act (get A0 p) (some c)).2 = some c
    · left; exact ⟨p, by rw [hA, heq, hk], by rw [hB, hk]⟩
    · cases act with
      | noop => simp [resolve] at hk
      | convergeIdentical => simp [resolve] at hk
      | propagateBtoA => simp [resolve] at hk
      | deleteA => simp [resolve] at hk
      | propagateAtoB =>
        right
        obtain ⟨hz, ha⟩ := hsafe (mkFp c) (by simp [discardsB])
        refine ⟨hz, ?_⟩
        intro e; apply ha; rw [e]; rfl
      | deleteB =>
        right
        obtain ⟨hz, ha⟩ := hsafe (mkFp c) (by simp [discardsB])
        refine ⟨hz, ?_⟩
        intro e; apply ha; rw [e]; rfl
      | conflict k =>
        cases k with
        | deleteVsModify =>
          cases hx : get A0 p with
          | none => simp [resolve, hx] at hk
          | some xa =>
            -- A modified, B "deleted"? impossible here since B holds c: reconcile_path never yields delete-vs-modify with both present
            exfalso
            have := hact p _ hm
            rw [hx, h] at this
            exact both_present_not_dvm _ _ _ this.symm
        | bothChanged =>
          cases hx : get A0 p with
          | none => simp [resolve, hx] at hk
          | some xa =>
            rw [hx] at hk
            simp only [resolve] at hk
            rcases winner_or_loser ge xa c with ⟨_, hl⟩ | ⟨hw, _⟩
            · left
              have hc : ccName ge cname p (.conflict .bothChanged) (get A0 p) (get B0 p) = some (cname p (loser ge xa c)) := by
                simp [ccName, h, hx]
              obtain ⟨xa', yb', e1, e2, h3, h4⟩ := inv.atCopy p _ _ hm hc
              rw [hx] at e1; rw [h] at e2
              cases e1; cases e2
              rw [hl] at h3 h4
              exact ⟨_, h3, h4⟩
            · exact absurd (by rw [hw]) hk
  · have hno := hrest p (fun act hm => h1 ⟨act, hm⟩)
    have hxy := noop_eq _ _ (z p) hno
    have hnt : ¬ touched ge cname A0 B0 plan p := by
      rintro (hh | ⟨p', act', hm, hc⟩)
      · exact h1 hh
      · have := (nnc.notLive p' act' p hm hc).2
        rw [h] at this; cases this
    obtain ⟨hA, hB⟩ := inv.untouched p hnt
    left
    exact ⟨p, by rw [hA, hxy, h], by rw [hB, h]⟩

end Copia.Bisync
