import Copia.Gen.LoopsReconcile
import Copia.Lemmas.GenEq
/-!
# `reconcile` (reconcile.rs) as translated from the source on this run = the model's `reconcile`
-/
namespace Copia.GenEqLoops
section R
open Copia.Reconcile Copia.Gen.Loops Copia.LoopSupport

/-- a `for` loop that appends under a condition is a `filterMap` -/
theorem forIn_push {α β : Type} (c : α → Bool) (g : α → β) (l : List α) (acc : List β) :
    (forIn (m := Id) l acc fun p s => if c p then pure (ForInStep.yield (s ++ [g p])) else pure (ForInStep.yield s)) =
      pure (acc ++ l.filterMap fun p => if c p then some (g p) else none) := by
  induction l generalizing acc with
  | nil => simp
  | cons x t ih =>
    rw [List.forIn_cons]
    cases h : c x
    · simp only [h, Bool.false_eq_true, if_false, List.filterMap_cons]
      exact ih acc
    · simp only [h, if_true, List.filterMap_cons]
      have := ih (acc ++ [g x])
      simp only [List.append_assoc, List.singleton_append] at this
      exact this

theorem reconcile_eq {K D : Type} [DecidableEq K] [DecidableEq D] (le : K → K → Bool)
    (a b base : List (K × Fp D)) (trust : Bool) :
    Copia.Gen.Loops.reconcile le a b base trust = Copia.Reconcile.reconcile le a b base trust := by
  unfold Copia.Gen.Loops.reconcile Copia.Reconcile.reconcile unionKeys keys
  simp only [Copia.GenEq.reconcilePath_eq]
  have := forIn_push (fun p => reconcilePath (lookup a p) (lookup b p) (if trust = true then lookup base p else none) != .noop)
    (fun p => (p, reconcilePath (lookup a p) (lookup b p) (if trust = true then lookup base p else none)))
    (dedupAdj ((List.map (fun x => x.fst) a ++ List.map (fun x => x.fst) b).mergeSort le)) []
  simp only [Id.run, bind, pure, List.nil_append] at this ⊢
  rw [this]
  congr 1
  funext p
  simp

end R
end Copia.GenEqLoops
