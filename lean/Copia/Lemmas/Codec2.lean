import Copia.Lemmas.Codec1
namespace Copia.Codec

/-! well-formed values = values the Rust types can hold (`u32` = `< 256^4`, `u64`/`usize` = `< 256^8`,
`[u8; 32]`, strings valid UTF-8) -/
def WFBlock (b : BlockSigW) : Prop := b.index < 256 ^ 4 ∧ b.weak < 256 ^ 4 ∧ b.strong.length = 32
def WFSig (s : SignatureW) : Prop :=
  s.blockSize < 256 ^ 8 ∧ s.fileSize < 256 ^ 8 ∧ s.blocks.length < 256 ^ 8 ∧ ∀ b ∈ s.blocks, WFBlock b
def WFOp : OpW → Prop
  | .copy off len => off < 256 ^ 8 ∧ len < 256 ^ 4
  | .literal d => d.length < 256 ^ 8
def WFDelta (d : DeltaW) : Prop :=
  d.blockSize < 256 ^ 4 ∧ d.sourceSize < 256 ^ 8 ∧ d.basisSize < 256 ^ 8 ∧ d.ops.length < 256 ^ 8 ∧
  (∀ op ∈ d.ops, WFOp op) ∧ d.checksum.length = 32
def WFStr (utf8 : Bytes → Bool) (s : Bytes) : Prop := s.length < 256 ^ 8 ∧ utf8 s = true
def WFMsg (utf8 : Bytes → Bool) : Message → Prop
  | .sigReq f bs => f < 256 ^ 8 ∧ bs < 256 ^ 4
  | .sigResp f s => f < 256 ^ 8 ∧ WFSig s
  | .deltaData f d => f < 256 ^ 8 ∧ WFDelta d
  | .ack f _ m => f < 256 ^ 8 ∧ (∀ s, m = some s → WFStr utf8 s)
  | .error c m => c < 256 ^ 4 ∧ WFStr utf8 m
  | .ping s => s < 256 ^ 8
  | .pong s => s < 256 ^ 8

theorem rdBlock_enc (b : BlockSigW) (r : Bytes) (h : WFBlock b) : rdBlock (encBlock b ++ r) = some (b, r) := by
  obtain ⟨h1, h2, h3⟩ := h
  unfold rdBlock encBlock
  simp only [List.append_assoc]
  rw [rdInt_le 4 _ _ h1]; simp only []
  rw [rdInt_le 4 _ _ h2]; simp only []
  rw [rdN_append' 32 _ r h3]

theorem rdSig_enc (s : SignatureW) (r : Bytes) (h : WFSig s) : rdSig (encSig s ++ r) = some (s, r) := by
  obtain ⟨h1, h2, h3, h4⟩ := h
  unfold rdSig encSig
  simp only [List.append_assoc]
  rw [rdInt_le 8 _ _ h1]; simp only []
  rw [rdInt_le 8 _ _ h2]; simp only []
  rw [rdInt_le 8 _ _ h3]; simp only []
  rw [rdMany_enc rdBlock encBlock s.blocks r (fun b hb r' => rdBlock_enc b r' (h4 b hb))]

theorem rdOp_enc (op : OpW) (r : Bytes) (h : WFOp op) : rdOp (encOp op ++ r) = some (op, r) := by
  cases op with
  | copy off len =>
    obtain ⟨h1, h2⟩ := h
    unfold rdOp encOp
    simp only [List.append_assoc]
    rw [rdInt_le 4 0 _ (by decide)]; simp only [if_true]
    rw [rdInt_le 8 _ _ h1]; simp only []
    rw [rdInt_le 4 _ _ h2]
  | literal d =>
    unfold rdOp encOp
    simp only [List.append_assoc]
    rw [rdInt_le 4 1 _ (by decide)]
    simp only [Nat.one_ne_zero, if_false, if_true]
    rw [rdBytes_wr d r h]

theorem rdDelta_enc (d : DeltaW) (r : Bytes) (h : WFDelta d) : rdDelta (encDelta d ++ r) = some (d, r) := by
  obtain ⟨h1, h2, h3, h4, h5, h6⟩ := h
  unfold rdDelta encDelta
  simp only [List.append_assoc]
  rw [rdInt_le 4 _ _ h1]; simp only []
  rw [rdInt_le 8 _ _ h2]; simp only []
  rw [rdInt_le 8 _ _ h3]; simp only []
  rw [rdInt_le 8 _ _ h4]; simp only []
  rw [rdMany_enc rdOp encOp d.ops (d.checksum ++ r) (fun op hop r' => rdOp_enc op r' (h5 op hop))]
  simp only []
  rw [rdN_append' 32 _ r h6]

theorem rdStr_wr (utf8 : Bytes → Bool) (s r : Bytes) (h : WFStr utf8 s) :
    rdStr utf8 (wrBytes s ++ r) = some (s, r) := by
  unfold rdStr
  rw [rdBytes_wr s r h.1]
  simp [h.2]

theorem rdMsg_enc (utf8 : Bytes → Bool) (m : Message) (r : Bytes) (h : WFMsg utf8 m) :
    rdMsg utf8 (encMsg m ++ r) = some (m, r) := by
  cases m with
  | sigReq f bs =>
    obtain ⟨h1, h2⟩ := h
    unfold rdMsg encMsg
    simp only [List.append_assoc]
    rw [rdInt_le 4 0 _ (by decide)]; simp only []
    rw [rdInt_le 8 _ _ h1]; simp only []
    rw [rdInt_le 4 _ _ h2]; rfl
  | sigResp f s =>
    obtain ⟨h1, h2⟩ := h
    unfold rdMsg encMsg
    simp only [List.append_assoc]
    rw [rdInt_le 4 1 _ (by decide)]; simp only []
    rw [rdInt_le 8 _ _ h1]; simp only []
    rw [rdSig_enc s r h2]; rfl
  | deltaData f d =>
    obtain ⟨h1, h2⟩ := h
    unfold rdMsg encMsg
    simp only [List.append_assoc]
    rw [rdInt_le 4 2 _ (by decide)]; simp only []
    rw [rdInt_le 8 _ _ h1]; simp only []
    rw [rdDelta_enc d r h2]; rfl
  | ack f ok msg =>
    obtain ⟨h1, h2⟩ := h
    unfold rdMsg encMsg
    simp only [List.append_assoc]
    rw [rdInt_le 4 3 _ (by decide)]; simp only []
    rw [rdInt_le 8 _ _ h1]; simp only []
    cases ok <;> cases msg with
    | none => simp [rdBool]
    | some s => simp [rdBool, rdStr_wr utf8 s r (h2 s rfl)]
  | error c msg =>
    obtain ⟨h1, h2⟩ := h
    unfold rdMsg encMsg
    simp only [List.append_assoc]
    rw [rdInt_le 4 4 _ (by decide)]; simp only []
    rw [rdInt_le 4 _ _ h1]; simp only []
    rw [rdStr_wr utf8 msg r h2]; rfl
  | ping s =>
    unfold rdMsg encMsg
    simp only [List.append_assoc]
    rw [rdInt_le 4 5 _ (by decide)]; simp only []
    rw [rdInt_le 8 _ _ h]; rfl
  | pong s =>
    unfold rdMsg encMsg
    simp only [List.append_assoc]
    rw [rdInt_le 4 6 _ (by decide)]; simp only []
    rw [rdInt_le 8 _ _ h]; rfl

end Copia.Codec
