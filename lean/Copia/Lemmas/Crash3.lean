import Copia.Lemmas.Crash2
namespace Copia.Crash
open Copia.Reconcile Copia.Bisync

variable {P C : Type} [DecidableEq P] [DecidableEq C]

/-- a content some path of either side held when the run started -/
def Pre (s : State P C) (c : C) : Prop := ∃ q, get s.A q = some c ∨ get s.B q = some c

/-- the delivery groups of a whole run -/
def runGroups (le : P → P → Bool) (ge : C → C → Bool) (cname : P → C → P) (s : State P C) : List (Group P C) :=
  (reconcile le (scan s.A) (scan s.B) (s.arch.getD []) s.arch.isSome).flatMap
    fun pa => actionGroups ge cname (scan s.A) (scan s.B) pa.1 pa.2

theorem steps_eq (le : P → P → Bool) (ge : C → C → Bool) (cname : P → C → P) (s : State P C) (had : Bool) :
    steps le ge cname s had = (runGroups le ge cname s).flatMap Group.steps ++ archSteps had := by
  unfold steps runGroups
  simp only [List.flatMap_assoc, actionSteps_eq]

theorem runGroups_ok (le : P → P → Bool) (ge : C → C → Bool) (cname : P → C → P) (s : State P C) :
    ∀ g ∈ runGroups le ge cname s, g.ok (Pre s) := by
  intro g hg
  cases g with
  | unlink sd p => trivial
  | copy sd q c =>
    unfold runGroups at hg
    rw [List.mem_flatMap] at hg
    obtain ⟨⟨p, act⟩, _, hm⟩ := hg
    show Pre s c
    rcases actionGroups_content ge cname _ _ p act sd q c hm with ⟨f, hf, rfl⟩ | ⟨f, hf, rfl⟩
    · rw [lookup_scan] at hf
      cases h : get s.A p with
      | none => rw [h] at hf; cases hf
      | some v => rw [h] at hf; cases hf; exact ⟨p, Or.inl h⟩
    · rw [lookup_scan] at hf
      cases h : get s.B p with
      | none => rw [h] at hf; cases hf
      | some v => rw [h] at hf; cases hf; exact ⟨p, Or.inr h⟩

theorem initC_inv (s : State P C) : DInv (Pre s) (initC s) :=
  ⟨rfl, rfl, rfl, fun p c h => ⟨p, Or.inl h⟩, fun p c h => ⟨p, Or.inr h⟩⟩

end Copia.Crash
