import Copia.Lemmas.GenEqLoopsK
/-!
# `transfer.rs::collect_dirs`, as translated = the set of proper, non-empty ancestors of the listed files
-/
namespace Copia.GenEqLoops
open Copia.ScanSupport

/-- the `while let Some(parent) = cur.parent()` loop of one file: none = fuel exhausted -/
def climb : Nat → List String → List (List String) → Option (List (List String))
  | 0, _, _ => none
  | n + 1, cur, dirs =>
    match parentOf cur with
    | none => some dirs
    | some parent => if parent.isEmpty then some dirs else climb n parent (setIns dirs parent)

def collect (fuel : Nat) : List (List String) → List (List String) → Option (List (List String))
  | [], dirs => some dirs
  | f :: fs, dirs =>
    match climb fuel f dirs with
    | none => none
    | some d' => collect fuel fs d'

/-- inner loop state: (cur, dirs, fin) -/
def climbStep (s : List (List String) × List String × Bool) : ForInStep (List (List String) × List String × Bool) :=
  match parentOf s.2.1 with
  | none => .done (s.1, s.2.1, true)
  | some parent => if parent.isEmpty then .done (s.1, s.2.1, true) else .yield (setIns s.1 parent, parent, s.2.2)

theorem climbStep_def (s : List (List String) × List String × Bool) : climbStep s =
  (match parentOf s.2.1 with
  | none => .done (s.1, s.2.1, true)
  | some parent => if parent.isEmpty then .done (s.1, s.2.1, true) else .yield (setIns s.1 parent, parent, s.2.2)) := rfl

theorem iter_climb : ∀ (n : Nat) (cur : List String) (dirs : List (List String)),
    (match climb n cur dirs with
     | some d' => (iter climbStep n (dirs, cur, false)).1 = d' ∧ (iter climbStep n (dirs, cur, false)).2.2 = true
     | none => (iter climbStep n (dirs, cur, false)).2.2 = false) := by
  intro n
  induction n with
  | zero => intro cur dirs; rfl
  | succ n ih =>
    intro cur dirs
    simp only [climb, iter, climbStep_def]
    cases hp : parentOf cur with
    | none => first | exact ⟨rfl, rfl⟩ | exact ⟨trivial, trivial⟩ | exact ⟨rfl, trivial⟩ | exact ⟨trivial, rfl⟩
    | some parent =>
      dsimp only
      by_cases he : parent.isEmpty = true
      · simp only [he, if_true]; first | exact ⟨rfl, rfl⟩ | exact ⟨trivial, trivial⟩ | exact ⟨rfl, trivial⟩ | exact ⟨trivial, rfl⟩
      · simp only [he, if_false, Bool.false_eq_true]
        exact ih parent (setIns dirs parent)

/-- the outer loop's body over its state (early-return slot, dirs) -/
def fileStep (fuel : Nat) (file : List String) (s : Option (Option (List (List String))) × List (List String)) :
    ForInStep (Option (Option (List (List String))) × List (List String)) :=
  let r := iter climbStep fuel (s.2, file, false)
  if !r.2.2 then .done (some none, r.1) else .yield (none, r.1)

theorem listIter_collect (fuel : Nat) : ∀ (files : List (List String)) (dirs : List (List String)),
    (match collect fuel files dirs with
     | some d' => listIter (fileStep fuel) files (none, dirs) = (none, d')
     | none => (listIter (fileStep fuel) files (none, dirs)).1 = some none) := by
  intro files
  induction files with
  | nil => intro dirs; rfl
  | cons f fs ih =>
    intro dirs
    simp only [collect, listIter, fileStep]
    have hc := iter_climb fuel f dirs
    cases hcl : climb fuel f dirs with
    | none =>
      rw [hcl] at hc
      dsimp only at hc
      simp only [hc, Bool.not_false, if_true]
    | some d' =>
      rw [hcl] at hc
      dsimp only at hc
      simp only [hc.2, Bool.not_true, Bool.false_eq_true, if_false, hc.1]
      exact ih d'

theorem collectDirs_eq (fuel : Nat) (files : List (List String)) :
    Copia.Gen.Loops.collectDirsGen fuel files = collect fuel files [] := by
  unfold Copia.Gen.Loops.collectDirsGen
  simp only [Id.run]
  rw [forIn_list_iter _ (fileStep fuel) (by
    intro file s
    have e := forIn_replicate climbStep
    rw [e]
    · simp only [pure_bind, fileStep]
      cases (iter climbStep fuel (s.2, file, false)).2.2 <;> rfl
    · intro u st
      rw [climbStep_def]
      cases parentOf st.2.1 with
      | none => rfl
      | some parent => dsimp only; split <;> rfl)]
  simp only [pure_bind]
  have h := listIter_collect fuel files []
  cases hc : collect fuel files [] with
  | none =>
    rw [hc] at h
    dsimp only at h
    generalize listIter (fileStep fuel) files (none, []) = X at h
    obtain ⟨a, b⟩ := X
    dsimp only at h
    subst h
    rfl
  | some d' =>
    rw [hc] at h
    dsimp only at h
    rw [h]
    rfl

theorem mem_setIns {α : Type} [DecidableEq α] (s : List α) (x d : α) : d ∈ setIns s x ↔ d ∈ s ∨ d = x := by
  unfold setIns
  by_cases h : x ∈ s
  · simp only [h, if_true]
    constructor
    · exact Or.inl
    · rintro (h1 | h1)
      · exact h1
      · rw [h1]; exact h
  · simp [h]

theorem prefix_dropLast_iff (cur d : List String) (hc : cur ≠ []) : d <+: cur.dropLast ↔ (d <+: cur ∧ d ≠ cur) := by
  have e := List.dropLast_concat_getLast hc
  constructor
  · intro h
    refine ⟨?_, ?_⟩
    · rw [← e]; exact List.prefix_concat_iff.mpr (Or.inr h)
    · intro heq
      have hl := h.length_le
      rw [heq, List.length_dropLast] at hl
      have : 0 < cur.length := List.length_pos_iff.mpr hc
      omega
  · rintro ⟨h, hne⟩
    rw [← e] at h
    rcases List.prefix_concat_iff.mp h with h1 | h1
    · exact absurd (h1.trans e) hne
    · exact h1

/-- one file's climb, with fuel above its depth: the set gains exactly the file's proper, non-empty ancestors -/
theorem climb_mem : ∀ (n : Nat) (cur : List String) (dirs : List (List String)), cur.length < n →
    ∃ ds, climb n cur dirs = some ds ∧ ∀ d, d ∈ ds ↔ d ∈ dirs ∨ (d ≠ [] ∧ d <+: cur ∧ d ≠ cur) := by
  intro n
  induction n with
  | zero => intro cur dirs h; omega
  | succ n ih =>
    intro cur dirs hlen
    by_cases hc : cur = []
    · subst hc
      refine ⟨dirs, by simp [climb, parentOf], fun d => ?_⟩
      constructor
      · exact Or.inl
      · rintro (h | ⟨hne, hp, _⟩)
        · exact h
        · exact absurd (List.prefix_nil.mp hp) hne
    · have hpar : parentOf cur = some cur.dropLast := by
        unfold parentOf
        have : cur.isEmpty = false := by cases cur <;> simp_all
        simp [this]
      by_cases hpe : cur.dropLast.isEmpty = true
      · refine ⟨dirs, by simp [climb, hpar, hpe], fun d => ?_⟩
        have hd0 : cur.dropLast = [] := by simpa using hpe
        constructor
        · exact Or.inl
        · rintro (h | ⟨hne, hp, hneq⟩)
          · exact h
          · have := (prefix_dropLast_iff cur d hc).mpr ⟨hp, hneq⟩
            rw [hd0] at this
            exact absurd (List.prefix_nil.mp this) hne
      · have hpos : 0 < cur.length := List.length_pos_iff.mpr hc
        have hlen' : cur.dropLast.length < n := by rw [List.length_dropLast]; omega
        obtain ⟨ds, hds, hmem⟩ := ih cur.dropLast (setIns dirs cur.dropLast) hlen'
        refine ⟨ds, by simp [climb, hpar, hpe, hds], fun d => ?_⟩
        have hpne : cur.dropLast ≠ [] := by intro h0; apply hpe; simp [h0]
        rw [hmem, mem_setIns]
        constructor
        · rintro ((h | h) | ⟨hne, hp, hneq⟩)
          · exact Or.inl h
          · refine Or.inr ⟨by rw [h]; exact hpne, ?_⟩
            have := (prefix_dropLast_iff cur d hc).mp (by rw [h]; exact List.prefix_refl _)
            exact this
          · have := (prefix_dropLast_iff cur d hc).mp hp
            exact Or.inr ⟨hne, this⟩
        · rintro (h | ⟨hne, hp, hneq⟩)
          · exact Or.inl (Or.inl h)
          · have hp' := (prefix_dropLast_iff cur d hc).mpr ⟨hp, hneq⟩
            by_cases hdp : d = cur.dropLast
            · exact Or.inl (Or.inr hdp)
            · exact Or.inr ⟨hne, hp', hdp⟩

/-- all files: the result is exactly the set of proper, non-empty ancestors of the listed files (plus what was there) -/
theorem collect_mem (fuel : Nat) : ∀ (files : List (List String)) (dirs : List (List String)), (∀ f ∈ files, f.length < fuel) →
    ∃ ds, collect fuel files dirs = some ds ∧ ∀ d, d ∈ ds ↔ d ∈ dirs ∨ ∃ f ∈ files, d ≠ [] ∧ d <+: f ∧ d ≠ f := by
  intro files
  induction files with
  | nil => intro dirs _; exact ⟨dirs, rfl, fun d => by simp⟩
  | cons f fs ih =>
    intro dirs hf
    obtain ⟨d1, h1, m1⟩ := climb_mem fuel f dirs (hf f (by simp))
    obtain ⟨ds, h2, m2⟩ := ih d1 (fun g hg => hf g (by simp [hg]))
    refine ⟨ds, by simp [collect, h1, h2], fun d => ?_⟩
    rw [m2, m1]
    constructor
    · rintro ((h | h) | ⟨g, hg, h⟩)
      · exact Or.inl h
      · exact Or.inr ⟨f, by simp, h⟩
      · exact Or.inr ⟨g, by simp [hg], h⟩
    · rintro (h | ⟨g, hg, h⟩)
      · exact Or.inl (Or.inl h)
      · rcases List.mem_cons.mp hg with rfl | hg'
        · exact Or.inl (Or.inr h)
        · exact Or.inr ⟨g, hg', h⟩

end Copia.GenEqLoops
