import Copia.Gen.LoopsOneWay
import Copia.Lemmas.GenEqLoops
/-!
# `incremental.rs::run_local`, as translated from the source = the model's one-way run (`Model/OneWay`)
-/
namespace Copia.GenEqLoops
open Copia.OneWay Copia.Plan

variable {K C : Type} [DecidableEq K]

theorem forIn_fold {α σ : Type} (f : σ → α → σ) (l : List α) (s : σ) :
    forIn (m := Id) l s (fun a r => pure (ForInStep.yield (f r a))) = pure (l.foldl f s) := by
  induction l generalizing s with
  | nil => rfl
  | cons a l ih => simp only [List.forIn_cons, pure_bind, List.foldl_cons]; exact ih _

theorem metaOf_isEmpty (S : Tree K C) : (metaOf S).isEmpty = S.isEmpty := by
  cases S <;> rfl

theorem runLocal_eq (le : K → K → Bool) (excl : K → Bool) (del dry : Bool) (S D : Tree K C) :
    Copia.Gen.Loops.runLocalGen le excl del dry S D =
      if dry then oneWayDry le excl del S D else oneWay le excl del S D := by
  unfold Copia.Gen.Loops.runLocalGen oneWayDry oneWay
  simp only [Id.run, metaOf_isEmpty, Copia.GenEqLoops.buildPlan_eq]
  by_cases h0 : (S.isEmpty && !del) = true
  · simp only [h0, if_true]
    cases dry <;> rfl
  · simp only [h0, if_false, Bool.false_eq_true]
    cases dry with
    | true => simp; rfl
    | false =>
      simp only [Bool.false_eq_true, if_false]
      generalize buildPlan le excl (metaOf S) (metaOf D) del = plan
      by_cases h1 : (plan.transfer.isEmpty && plan.delete.isEmpty) = true
      · simp only [h1, if_true]
        have ht : plan.transfer = [] := by
          have := (Bool.and_eq_true _ _ ▸ h1 : _ ∧ _).1
          simpa using this
        have hd : plan.delete = [] := by
          have := (Bool.and_eq_true _ _ ▸ h1 : _ ∧ _).2
          simpa using this
        simp [ht, hd]; rfl
      · simp only [h1, if_false, Bool.false_eq_true]
        have e1 := forIn_fold (fun (r : Tree K C) (a : K) => deliver S r a) plan.transfer D
        have e2 := fun d0 => forIn_fold (fun (r : Tree K C) (a : K) => tdel r a) plan.delete d0
        simp only [pure, bind] at e1 e2 ⊢
        rw [e1]
        by_cases h2 : plan.delete.isEmpty = true
        · have hd : plan.delete = [] := by simpa using h2
          simp [hd]
        · simp only [h2, Bool.not_false, if_true]
          rw [e2]

theorem runRemote_eq (le : K → K → Bool) (excl : K → Bool) (del dry : Bool) (S D : Tree K C) :
    Copia.Gen.Loops.runRemoteGen le excl del dry S D =
      if dry then oneWayDry le excl del S D else oneWay le excl del S D := by
  unfold Copia.Gen.Loops.runRemoteGen oneWayDry oneWay
  simp only [Id.run, metaOf_isEmpty, Copia.GenEqLoops.buildPlan_eq]
  by_cases h0 : (S.isEmpty && !del) = true
  · simp only [h0, if_true]
    cases dry <;> rfl
  · simp only [h0, if_false, Bool.false_eq_true]
    cases dry with
    | true => simp; rfl
    | false =>
      simp only [Bool.false_eq_true, if_false]
      generalize buildPlan le excl (metaOf S) (metaOf D) del = plan
      by_cases h1 : (plan.transfer.isEmpty && plan.delete.isEmpty) = true
      · simp only [h1, if_true]
        have ht : plan.transfer = [] := by
          have := (Bool.and_eq_true _ _ ▸ h1 : _ ∧ _).1
          simpa using this
        have hd : plan.delete = [] := by
          have := (Bool.and_eq_true _ _ ▸ h1 : _ ∧ _).2
          simpa using this
        simp [ht, hd]; rfl
      · simp only [h1, if_false, Bool.false_eq_true]
        have e1 := forIn_fold (fun (r : Tree K C) (a : K) => deliver S r a) plan.transfer D
        simp only [pure, bind] at e1 ⊢
        rw [e1]
        by_cases h2 : plan.delete.isEmpty = true
        · have hd : plan.delete = [] := by simpa using h2
          simp [hd]
        · simp only [h2, Bool.not_false, if_true]


end Copia.GenEqLoops
