import Copia.Lemmas.Bisync6
namespace Copia.Bisync
open Copia.Reconcile

variable {P C : Type} [DecidableEq P] [DecidableEq C]

/-- the base lookup `reconcile` uses -/
def baseOf (s : State P C) (p : P) : Option (Fp C) :=
  if s.arch.isSome then lookup (s.arch.getD []) p else none

/-- everything `run_plan` needs, for the plan `bisync` actually computes -/
theorem plan_facts (le : P → P → Bool)
    (trans : ∀ a b c, le a b → le b c → le a c) (total : ∀ a b, le a b || le b a)
    (antisymm : ∀ a b, le a b → le b a → a = b) (s : State P C) :
    (∀ p act, (p, act) ∈ bisyncPlan le s → act = reconcilePath ((get s.A p).map mkFp) ((get s.B p).map mkFp) (baseOf s p)) ∧
    (∀ p act, (p, act) ∈ bisyncPlan le s → get s.A p ≠ none ∨ get s.B p ≠ none) ∧
    ((bisyncPlan le s).map (·.1)).Nodup ∧
    (∀ q, (∀ act, (q, act) ∉ bisyncPlan le s) → reconcilePath ((get s.A q).map mkFp) ((get s.B q).map mkFp) (baseOf s q) = .noop) := by
  unfold bisyncPlan baseOf
  refine ⟨?_, ?_, ?_, ?_⟩
  · intro p act hm
    obtain ⟨_, he, _⟩ := (Copia.C18.mem_reconcile le _ _ _ _ p act).mp hm
    rw [he, lookup_scan, lookup_scan]
  · intro p act hm
    obtain ⟨hk, _, _⟩ := (Copia.C18.mem_reconcile le _ _ _ _ p act).mp hm
    rcases hk with hk | hk
    · left
      have := (lookup_isSome_iff (scan s.A) p).mpr hk
      rw [lookup_scan] at this
      intro e; rw [e] at this; simp at this
    · right
      have := (lookup_isSome_iff (scan s.B) p).mpr hk
      rw [lookup_scan] at this
      intro e; rw [e] at this; simp at this
  · have := Copia.C18.reconcile_sorted le trans total antisymm (scan s.A) (scan s.B) (s.arch.getD []) s.arch.isSome
    rw [List.Nodup, List.pairwise_map]
    exact this.imp (fun h => h.2)
  · intro q hq
    apply Classical.byContradiction
    intro hne
    by_cases hk : q ∈ (scan s.A).map (·.1) ∨ q ∈ (scan s.B).map (·.1)
    · refine hq (reconcilePath ((get s.A q).map mkFp) ((get s.B q).map mkFp)
        (if s.arch.isSome then lookup (s.arch.getD []) q else none))
        ((Copia.C18.mem_reconcile le _ _ _ _ q _).mpr ⟨hk, ?_, hne⟩)
      rw [lookup_scan, lookup_scan]
    · have h1 : lookup (scan s.A) q = none := by
        cases h : lookup (scan s.A) q with
        | none => rfl
        | some v => exact absurd (Or.inl ((lookup_isSome_iff _ q).mp (by rw [h]; rfl))) hk
      have h2 : lookup (scan s.B) q = none := by
        cases h : lookup (scan s.B) q with
        | none => rfl
        | some v => exact absurd (Or.inr ((lookup_isSome_iff _ q).mp (by rw [h]; rfl))) hk
      rw [lookup_scan] at h1 h2
      rw [h1, h2] at hne
      simp [reconcilePath] at hne

/-- a whole run, under NoNameClash: it completes (no I/O stop) and its live trees satisfy the run invariant -/
theorem bisync_runInv (le : P → P → Bool)
    (trans : ∀ a b c, le a b → le b c → le a c) (total : ∀ a b, le a b || le b a)
    (antisymm : ∀ a b, le a b → le b a → a = b) (ge : C → C → Bool) (cname : P → C → P) (s : State P C)
    (nnc : NoNameClash ge cname s.A s.B (bisyncPlan le s)) :
    (bisync le ge cname s).status ≠ .ioError ∧
    ∃ l, RunInv ge cname s.A s.B (bisyncPlan le s) l ∧
      (bisync le ge cname s).state.A = l.A ∧ (bisync le ge cname s).state.B = l.B := by
  obtain ⟨hact, hlive, hnd, _⟩ := plan_facts le trans total antisymm s
  have init : RunInv ge cname s.A s.B []
      { A := s.A, B := s.B, common := (s.arch.getD []).filter fun e => (lookup (scan s.A) e.1).isSome || (lookup (scan s.B) e.1).isSome } :=
    ⟨fun _ _ => ⟨rfl, rfl⟩, fun _ _ h => by simp at h, fun _ _ _ h => by simp at h⟩
  obtain ⟨l', n', hrun, inv⟩ := run_plan ge cname s.A s.B (baseOf s) (bisyncPlan le s) hact hlive hnd nnc
    (bisyncPlan le s) [] _ 0 (by simp) init
  unfold bisyncPlan at hrun
  unfold bisync
  simp only [hrun, if_true]
  refine ⟨?_, l', inv, rfl, rfl⟩
  split <;> simp

end Copia.Bisync
