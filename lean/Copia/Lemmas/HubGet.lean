import Copia.Model.HubGet
import Copia.Lemmas.HubRefine2
/-! Invariant of a Get running beside the writers: everything it has read so far is a prefix of ONE
sealed, verified content that the path held at some instant after the request started. -/
namespace Copia.HubGet
open Copia.HubConc

/-- inode `n` is sealed in `t` with content `c`, `c` is initial or one verified write, and `p` pointed
at `n` holding `c` at some instant `s` between `s0` and `t` -/
def Good (S : Sys) (init : List Chunk → Prop) (s0 : State) (p : Path) (t : State) (n : Ino) (c : List Chunk) : Prop :=
  Sealed S t n c ∧ Valid S init c ∧ ∃ s, Reach S s0 s ∧ Reach S s t ∧ s.dir p = some n ∧ s.ino n = c

def GInv (S : Sys) (init : List Chunk → Prop) (s0 : State) (p : Path) : GPc → State → Prop
  | .start, _ => True
  | .notFound, t => ∃ s, Reach S s0 s ∧ Reach S s t ∧ s.dir p = none
  | .opened n, t => ∃ c, Good S init s0 p t n c
  | .sized n len, t => ∃ c, Good S init s0 p t n c ∧ len = c.length
  | .hashing n len acc, t => ∃ c, Good S init s0 p t n c ∧ len = c.length ∧ acc = c.take acc.length
  | .announced n len h sent, t => ∃ c, Good S init s0 p t n c ∧ len = c.length ∧ h = S.H c ∧ sent = c.take sent.length
  | .replied n len h bytes, t => ∃ c, Good S init s0 p t n c ∧ len = c.length ∧ h = S.H c ∧ bytes = c

theorem good_step {S init s0 p t t' n c} (wf : WF S) (h0 : Inv S init s0) (l0 : LInv S s0)
    (r : Reach S s0 t) (g : Good S init s0 p t n c) (st : Step S t t') : Good S init s0 p t' n c := by
  obtain ⟨sl, v, s, r1, r2, e1, e2⟩ := g
  exact ⟨sealed_step wf (reach_inv wf h0 l0 r).1 sl st, v, s, r1, Reach.step r2 st, e1, e2⟩

theorem take_snoc {α} (c : List α) (acc : List α) (x : α) (ha : acc = c.take acc.length)
    (hx : c[acc.length]? = some x) : acc ++ [x] = c.take (acc ++ [x]).length := by
  rw [List.length_append, List.length_singleton, List.take_succ, hx, ← ha]
  rfl

theorem take_all {α} (c : List α) (acc : List α) (ha : acc = c.take acc.length)
    (hx : c[acc.length]? = none) : acc = c := by
  rw [List.getElem?_eq_none_iff] at hx
  rw [ha, List.take_of_length_le hx]

theorem ginv_reach {S init s0 p gs} (wf : WF S) (h0 : Inv S init s0) (l0 : LInv S s0) (hp : S.staging p = false)
    (r : GReach S p ⟨s0, .start⟩ gs) : Reach S s0 gs.fs ∧ GInv S init s0 p gs.g gs.fs := by
  induction r with
  | refl => exact ⟨Reach.refl _, trivial⟩
  | step _ st ih =>
    obtain ⟨rr, gi⟩ := ih
    cases st with
    | fs s s' g h =>
      refine ⟨Reach.step rr h, ?_⟩
      cases g with
      | start => trivial
      | notFound => obtain ⟨s1, r1, r2, e⟩ := gi; exact ⟨s1, r1, Reach.step r2 h, e⟩
      | opened n => obtain ⟨c, g⟩ := gi; exact ⟨c, good_step wf h0 l0 rr g h⟩
      | sized n len => obtain ⟨c, g, e⟩ := gi; exact ⟨c, good_step wf h0 l0 rr g h, e⟩
      | hashing n len acc => obtain ⟨c, g, e⟩ := gi; exact ⟨c, good_step wf h0 l0 rr g h, e⟩
      | announced n len hh sent => obtain ⟨c, g, e⟩ := gi; exact ⟨c, good_step wf h0 l0 rr g h, e⟩
      | replied n len hh bytes => obtain ⟨c, g, e⟩ := gi; exact ⟨c, good_step wf h0 l0 rr g h, e⟩
    | openOk s n h =>
      have inv := (reach_inv wf h0 l0 rr).1
      exact ⟨rr, s.ino n, published_sealed wf inv p n hp h, inv.pub p n hp h, s, rr, Reach.refl _, h, rfl⟩
    | openFail s h => exact ⟨rr, s, rr, Reach.refl _, h⟩
    | stat s n =>
      obtain ⟨c, g⟩ := gi
      exact ⟨rr, c, g, by rw [g.1.content]⟩
    | hashStart s n len =>
      obtain ⟨c, g, e⟩ := gi
      exact ⟨rr, c, g, e, by simp⟩
    | hashRead s n len acc x h =>
      obtain ⟨c, g, e, ha⟩ := gi
      rw [g.1.content] at h
      exact ⟨rr, c, g, e, take_snoc c acc x ha h⟩
    | hashEof s n len acc h =>
      obtain ⟨c, g, e, ha⟩ := gi
      rw [g.1.content] at h
      exact ⟨rr, c, g, e, by rw [take_all c acc ha h], by simp⟩
    | sendRead s n len hh sent x hl h =>
      obtain ⟨c, g, e, eh, ha⟩ := gi
      rw [g.1.content] at h
      exact ⟨rr, c, g, e, eh, take_snoc c sent x ha h⟩
    | sendDone s n len hh sent h =>
      obtain ⟨c, g, e, eh, ha⟩ := gi
      rw [g.1.content] at h
      refine ⟨rr, c, g, e, eh, ?_⟩
      rcases h with h | h
      · rw [ha, h, e, List.take_length]
      · exact take_all c sent ha h

end Copia.HubGet
