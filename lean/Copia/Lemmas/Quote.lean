import Copia.Model.Quote
namespace Copia.Quote

/-- what the chain does to one character -/
def escChar (c : Char) : List Char :=
  if c = '\\' then ['\\', '\\'] else if c = '\'' then ['\\', '\''] else [c]

theorem escape_eq (s : List Char) : escape s = s.flatMap escChar := by
  simp only [escape, Copia.Gen.escapePairs, List.foldl, replaceChar, List.flatMap_assoc, List.map]
  congr 1
  funext c
  unfold escChar
  by_cases h1 : c = '\\'
  · subst h1; decide
  · by_cases h2 : c = '\''
    · subst h2; decide
    · have e1 : ¬ c = Char.ofNat 92 := h1
      have e2 : ¬ c = Char.ofNat 39 := h2
      simp [h1, h2, e1, e2]

theorem ansiC_plain (c : Char) (r : List Char) (h1 : c ≠ '\\') (h2 : c ≠ '\'') :
    ansiC (c :: r) = (ansiC r).map fun (d, k) => (c :: d, k) := by
  conv => lhs; unfold ansiC
  simp only [h1, h2, if_false]

theorem ansiC_bs (e : Char) (r : List Char) (x : Char) (h : namedEscape e = some (some x)) :
    ansiC ('\\' :: e :: r) = (ansiC r).map fun (d, k) => (x :: d, k) := by
  conv => lhs; unfold ansiC
  have : ¬ ('\\' = '\'') := by decide
  simp only [this, if_false, if_true, h]

theorem escChar_bs : escChar '\\' = ['\\', '\\'] := by decide
theorem escChar_q : escChar '\'' = ['\\', '\''] := by decide
theorem escChar_plain (c : Char) (h1 : c ≠ '\\') (h2 : c ≠ '\'') : escChar c = [c] := by
  simp [escChar, h1, h2]

/-- decoding an escaped string followed by anything: the decoder reproduces the string and
continues with what follows, for EVERY string (backslashes, quotes, newlines, `$`, `;`, anything) -/
theorem ansiC_escape_append (s k : List Char) :
    ansiC (escape s ++ k) = (ansiC k).map fun (d, r) => (s ++ d, r) := by
  rw [escape_eq]
  induction s with
  | nil => simp
  | cons c cs ih =>
    simp only [List.flatMap_cons, List.append_assoc]
    by_cases h1 : c = '\\'
    · subst h1
      rw [escChar_bs]
      simp only [List.cons_append, List.nil_append]
      rw [ansiC_bs '\\' _ '\\' (by decide), ih]
      cases ansiC k <;> simp
    · by_cases h2 : c = '\''
      · subst h2
        rw [escChar_q]
        simp only [List.cons_append, List.nil_append]
        rw [ansiC_bs '\'' _ '\'' (by decide), ih]
        cases ansiC k <;> simp
      · rw [escChar_plain c h1 h2]
        simp only [List.cons_append, List.nil_append]
        rw [ansiC_plain c _ h1 h2, ih]
        cases ansiC k <;> simp

theorem ansiC_close (rest : List Char) : ansiC ('\'' :: rest) = some ([], rest) := by
  conv => lhs; unfold ansiC
  simp

theorem ansiC_plain_append (t k : List Char) (h : ∀ c ∈ t, c ≠ '\\' ∧ c ≠ '\'') :
    ansiC (t ++ k) = (ansiC k).map fun (d, r) => (t ++ d, r) := by
  induction t with
  | nil => simp
  | cons c cs ih =>
    have hc := h c (by simp)
    simp only [List.cons_append]
    rw [ansiC_plain c _ hc.1 hc.2, ih (fun x hx => h x (by simp [hx]))]
    cases ansiC k <;> simp

end Copia.Quote
