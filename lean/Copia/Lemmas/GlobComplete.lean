import Copia.Lemmas.GlobSound
/-! Completeness of the `glob_match` loop: invariant + measure show the supplied fuel suffices. -/
namespace Copia.Plan

theorem seg_consume : ∀ (seg q u : List Char), (∀ c ∈ seg, c ≠ '*') → Matches (seg ++ q) u →
    seg.length ≤ u.length ∧ Matches q (u.drop seg.length)
  | [], q, u, _, h => ⟨by simp, by simpa using h⟩
  | x :: seg, q, u, hs, h => by
    have hx : x ≠ '*' := hs x (by simp)
    have hs' : ∀ c ∈ seg, c ≠ '*' := fun c hc => hs c (by simp [hc])
    cases h with
    | star0 _ => exact absurd rfl hx
    | starS _ => exact absurd rfl hx
    | any h' =>
      have := seg_consume seg q _ hs' h'
      exact ⟨by simpa using this.1, by simpa using this.2⟩
    | lit _ _ h' =>
      have := seg_consume seg q _ hs' h'
      exact ⟨by simpa using this.1, by simpa using this.2⟩

theorem no_match_nil {c : Char} {ts : List Char} : ¬ Matches [] (c :: ts) := by
  intro h; cases h

theorem match_cons_inv {x c : Char} {ps ts : List Char} (hx : x ≠ '*')
    (h : Matches (x :: ps) (c :: ts)) : (x = '?' ∨ x = c) ∧ Matches ps ts := by
  cases h with
  | star0 _ => exact absurd rfl hx
  | starS _ => exact absurd rfl hx
  | any h' => exact ⟨Or.inl rfl, h'⟩
  | lit _ _ h' => exact ⟨Or.inr rfl, h'⟩

def Inv (P T : Nat) (ps ts : List Char) : Back → Prop
  | none => ps.length ≤ P ∧ ts.length ≤ T
  | some (bp, bt) => ps.length ≤ P ∧ ts.length ≤ T ∧ bp.length ≤ P ∧ bt.length ≤ T ∧
      ∃ seg, bp = seg ++ ps ∧ (∀ c ∈ seg, c ≠ '*') ∧ ts = bt.drop seg.length ∧ seg.length ≤ bt.length

def A (T : Nat) : Back → Nat
  | none => T + 1
  | some (_, bt) => bt.length

def meas (P T : Nat) (ps ts : List Char) (back : Back) : Nat :=
  A T back * (P + T + 1) + (ps.length + ts.length) + 1

theorem meas_lt {a' a b' b W : Nat} (ha : a' < a) (hb : b' < W) : a' * W + b' + 1 < a * W + b + 1 := by
  have h1 : (a' + 1) * W ≤ a * W := Nat.mul_le_mul_right W ha
  rw [Nat.add_mul] at h1
  generalize a' * W = X at *
  generalize a * W = Y at *
  omega

theorem meas_le {a' a b' b W : Nat} (ha : a' ≤ a) (hb : b' < b) : a' * W + b' + 1 < a * W + b + 1 := by
  have h1 : a' * W ≤ a * W := Nat.mul_le_mul_right W ha
  generalize a' * W = X at *
  generalize a * W = Y at *
  omega

/-- Restart from the backtrack point: shared by the `[]`-pattern and mismatch branches. -/
theorem restart {P T fuel : Nat} {ps : List Char} {c : Char} {ts : List Char} {back : Back}
    (ih : ∀ ps ts back, Inv P T ps ts back → meas P T ps ts back ≤ fuel →
        (Matches ps ts ∨ Alt back) → loop fuel ps ts back = true)
    (hinv : Inv P T ps (c :: ts) back) (hm : meas P T ps (c :: ts) back ≤ fuel + 1)
    (ha : Alt back) :
    (match btk back with
      | some (bp, bt') => loop fuel bp bt' (some (bp, bt'))
      | none => false) = true := by
  match back, ha, hinv, hm with
  | some (bp, []), ⟨k, hk1, hk2, _⟩, _, _ => simp at hk2; omega
  | some (bp, d :: bt'), ⟨k, hk1, hk2, hmk⟩, ⟨hps, hts, hbp, hbt, _⟩, hm =>
    simp only [btk]
    apply ih
    · exact ⟨hbp, by simp at hbt; omega, hbp, by simp at hbt; omega, [], by simp, by simp, by simp, by simp⟩
    · have : meas P T bp bt' (some (bp, bt')) < meas P T ps (c :: ts) (some (bp, d :: bt')) := by
        unfold meas A
        apply meas_lt
        · simp
        · simp at hbt; omega
      omega
    · by_cases h1 : k = 1
      · subst h1; left; simpa using hmk
      · right
        refine ⟨k - 1, by omega, by simp at hk2; omega, ?_⟩
        have : k = (k - 1) + 1 := by omega
        rw [this] at hmk
        simpa using hmk

theorem complete (P T : Nat) : ∀ (fuel : Nat) (ps ts : List Char) (back : Back),
    Inv P T ps ts back → meas P T ps ts back ≤ fuel →
    (Matches ps ts ∨ Alt back) → loop fuel ps ts back = true
  | 0, ps, ts, back, _, hm, _ => by unfold meas at hm; omega
  | fuel+1, ps, [], back, hinv, _, h => by
    unfold loop
    rcases h with h | ha
    · exact text_nil h
    · exfalso
      match back, ha, hinv with
      | some (bp, bt), ⟨k, hk1, hk2, hmk⟩, ⟨_, _, _, _, seg, hseg, hstar, hts, hlen⟩ =>
        subst hseg
        have := (seg_consume seg ps _ hstar hmk).1
        have hl : (bt.drop seg.length).length = 0 := by rw [← hts]; rfl
        simp at this hl
        omega
  | fuel+1, [], c :: ts, back, hinv, hm, h => by
    unfold loop
    rcases h with h | ha
    · exact absurd h no_match_nil
    · exact restart (complete P T fuel) hinv hm ha
  | fuel+1, x :: ps', c :: ts, back, hinv, hm, h => by
    unfold loop
    split
    · next hx =>
      subst hx
      -- star branch
      have hps : ps'.length + 1 ≤ P ∧ ts.length + 1 ≤ T := by
        match back, hinv with
        | none, ⟨a, b⟩ => exact ⟨by simpa using a, by simpa using b⟩
        | some _, ⟨a, b, _⟩ => exact ⟨by simpa using a, by simpa using b⟩
      -- first: the old alternative implies a direct match
      have hdir : Matches ('*' :: ps') (c :: ts) := by
        rcases h with h | ha
        · exact h
        · match back, ha, hinv with
          | some (bp, bt), ⟨k, hk1, hk2, hmk⟩, ⟨_, _, _, _, seg, hseg, hstar, hts, hlen⟩ =>
            subst hseg
            obtain ⟨hl, hm2⟩ := seg_consume seg _ _ hstar hmk
            have e : (bt.drop k).drop seg.length = (c :: ts).drop k := by
              rw [hts, List.drop_drop, List.drop_drop, Nat.add_comm]
            rw [e] at hm2
            obtain ⟨j, hj, hmj⟩ := star_inv hm2
            have hkl : k ≤ (c :: ts).length := by
              rw [hts]; simp at hl ⊢; omega
            apply star_drop (k + j) _ _ (by rw [← List.drop_drop]; exact hmj)
            simp at hj ⊢; simp at hkl; omega
      obtain ⟨k, hk, hmk⟩ := star_inv hdir
      apply complete P T fuel
      · exact ⟨by omega, by simpa using hps.2, by omega, by simpa using hps.2, [], by simp, by simp, by simp, by simp⟩
      · have : meas P T ps' (c :: ts) (some (ps', c :: ts)) < meas P T ('*' :: ps') (c :: ts) back := by
          unfold meas
          apply meas_le
          · match back, hinv with
            | none, _ => simp [A]; omega
            | some (bp, bt), ⟨_, _, _, _, seg, _, _, hts, _⟩ =>
              simp only [A]
              have : (c :: ts).length = (bt.drop seg.length).length := by rw [← hts]
              simp at this ⊢; omega
          · simp
        omega
      · by_cases h0 : k = 0
        · subst h0; left; simpa using hmk
        · right; exact ⟨k, by omega, hk, hmk⟩
    · next hx =>
      split
      · next hq =>
        -- advance
        apply complete P T fuel
        · match back, hinv with
          | none, ⟨a, b⟩ => exact ⟨by simp at a; omega, by simp at b; omega⟩
          | some (bp, bt), ⟨a, b, a', b', seg, hseg, hstar, hts, hlen⟩ =>
            refine ⟨by simp at a; omega, by simp at b; omega, a', b', seg ++ [x], by simp [hseg], ?_, ?_, ?_⟩
            · intro c' hc'; simp at hc'; rcases hc' with hc' | hc'
              · exact hstar c' hc'
              · subst hc'; exact hx
            · have : ts = (c :: ts).drop 1 := by simp
              rw [this, hts, List.drop_drop]; simp
            · have : (c :: ts).length = (bt.drop seg.length).length := by rw [← hts]
              simp at this ⊢; omega
        · have : meas P T ps' ts back < meas P T (x :: ps') (c :: ts) back := by
            unfold meas; apply meas_le (Nat.le_refl _); simp; omega
          omega
        · rcases h with h | ha
          · left; exact (match_cons_inv hx h).2
          · right; exact ha
      · next hq =>
        rcases h with h | ha
        · exact absurd (match_cons_inv hx h).1 hq
        · exact restart (complete P T fuel) hinv hm ha

theorem globMatch_iff (p t : List Char) : globMatch p t = true ↔ Matches p t := by
  unfold globMatch
  constructor
  · intro h
    rcases sound _ _ _ _ h with h | h
    · exact h
    · exact absurd h (by simp [Alt])
  · intro h
    have hinv : Inv p.length t.length p t none := ⟨Nat.le_refl _, Nat.le_refl _⟩
    apply complete p.length t.length _ p t none hinv _ (Or.inl h)
    unfold meas A
    have h1 : (t.length + 1) * (p.length + t.length + 1) ≤ (t.length + 1) * (p.length + t.length + 2) :=
      Nat.mul_le_mul_left _ (by omega)
    have h2 : (t.length + 2) * (p.length + t.length + 2)
        = (t.length + 1) * (p.length + t.length + 2) + (p.length + t.length + 2) := by
      rw [show t.length + 2 = (t.length + 1) + 1 by omega, Nat.add_mul]; simp
    generalize (t.length + 1) * (p.length + t.length + 1) = X at *
    generalize (t.length + 1) * (p.length + t.length + 2) = Y at *
    omega

end Copia.Plan
