import Copia.Lemmas.Reconcile
import Copia.Spec.ReconcileTable
/-! Helper lemmas about equality patterns and the table (C18). -/
namespace Copia.C18
open Copia.Reconcile

theorem eqo_comm {D} [DecidableEq D] (a b : Option (Fp D)) : eqo b a = eqo a b := by
  cases a <;> cases b <;> simp [eqo, eq_comm]

/-- Consistency of an equality pattern (symmetry/transitivity of `=`): `table` is only *read* on
patterns that come from real triples. -/
theorem eqo_cons {D} [DecidableEq D] (a b z : Option (Fp D)) :
    (eqo a z = true → eqo b z = true → eqo a b = true) ∧
    (eqo a b = true → eqo a z = true → eqo b z = true) ∧
    (eqo a b = true → eqo b z = true → eqo a z = true) := by
  cases a <;> cases b <;> cases z <;> simp [eqo]
  refine ⟨?_, ?_, ?_⟩ <;> intro h1 h2 <;> simp_all

theorem eqo_true {D} [DecidableEq D] (a b : Option (Fp D)) : eqo a b = true → a = b ∧ a.isSome := by
  cases a <;> cases b <;> simp [eqo]

theorem table_delete (pa pb pz ab az bz : Bool) :
    (table pa pb pz ab az bz = .deleteA → pa = true ∧ pb = false ∧ az = true) ∧
    (table pa pb pz ab az bz = .deleteB → pa = false ∧ pb = true ∧ bz = true) := by
  cases pa <;> cases pb <;> cases pz <;> cases ab <;> cases az <;> cases bz <;> simp [table]

end Copia.C18
