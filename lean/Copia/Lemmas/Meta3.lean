import Copia.Lemmas.Meta2
import Copia.Gen.Constants
namespace Copia.Meta
open Copia.Plan

/-- the format string in `meta.rs` (regenerated from the source on every run) produces exactly the
record shape the theorems are about -/
theorem source_format_is_modelled (e : Entry) :
    findPrintf (Copia.Gen.findPrintf.map Char.ofNat) e = renderBody e ++ ['\x00'] := by
  simp [Copia.Gen.findPrintf, findPrintf, renderBody]

end Copia.Meta
