import Copia.Lemmas.Delta1
namespace Copia.Delta
open Copia.Checksum

/-- what the scan needs to know about the table: every entry is the signature of the block at its index -/
def Honest {D} (H : List Nat → D) (bs : Nat) (basis : List Nat) (blocks : List (BlockSig D)) : Prop :=
  ∀ sg ∈ blocks, sg.strong = H ((basis.drop (sg.index * bs)).take bs)

theorem honest_signature {D} (H : List Nat → D) (bs : Nat) (hbs : 0 < bs) (basis : List Nat) :
    Honest H bs basis (signature H bs basis).blocks := by
  intro sg hm
  obtain ⟨j, h1, _, h3, _⟩ := mem_sigLoop H bs hbs _ _ _ sg hm
  simp at h1
  rw [h1]; exact h3

theorem full_block_in_bounds (basis : List Nat) (j bs : Nat) (hbs : 0 < bs)
    (h : ((basis.drop (j * bs)).take bs).length = bs) : j * bs + bs ≤ basis.length := by
  simp only [List.length_take, List.length_drop] at h
  omega

theorem drop_succ_of_cons {l : List Nat} {k x : Nat} {t : List Nat} (h : l.drop k = x :: t) :
    l.drop (k + 1) = t := by
  rw [← List.drop_drop, h]; rfl

theorem tail_drop_cons (x : Nat) (t : List Nat) (bs : Nat) (hbs : 0 < bs) :
    ((x :: t).drop bs).tail = t.drop bs := by
  cases bs with
  | zero => omega
  | succ n => simp [List.drop_succ_cons, List.tail_drop]

theorem scan_render {D} [DecidableEq D] (H : List Nat → D) (bs : Nat) (hbs : 0 < bs)
    (basis src : List Nat) (blocks : List (BlockSig D)) (hh : Honest H bs basis blocks)
    (hcf : CollisionFree H bs basis src) :
    ∀ (fuel k : Nat) (rest ahead : List Nat) (rem : Nat) (rolling : Fast) (rops : List Op),
      rest = src.drop k → rest.length < fuel → ahead = rest.drop bs → rem = rest.length →
      InB basis rops →
      InB basis (scan H blocks bs fuel rest ahead rem rolling rops) ∧
      renderR basis (scan H blocks bs fuel rest ahead rem rolling rops) = renderR basis rops ++ rest
  | 0, _, _, _, _, _, _, _, hl, _, _, _ => by omega
  | fuel+1, k, rest, ahead, rem, rolling, rops, hk, hl, ha, hr, hin => by
    unfold scan
    by_cases hle : bs ≤ rem
    · simp only [hle, if_true]
      split
      · next sg hf =>
        obtain ⟨hmem, _, hstrong⟩ := mem_findMatch H blocks _ rest bs sg hf
        have hblk := hh sg hmem
        have heq : (basis.drop (sg.index * bs)).take bs = rest.take bs := by
          have := hcf sg.index k (by rw [← hblk, hstrong, hk])
          rw [this, hk]
        have hlen : ((basis.drop (sg.index * bs)).take bs).length = bs := by
          rw [heq, List.length_take]; omega
        have hb := full_block_in_bounds basis sg.index bs hbs hlen
        have hin' := InB_pushCopy basis rops (sg.index * bs) bs hin hb
        have ih := fun r => scan_render H bs hbs basis src blocks hh hcf fuel (k + bs) ahead (ahead.drop bs) (rem - bs) r
          (pushCopy rops (sg.index * bs) bs)
          (by rw [ha, hk, List.drop_drop]) (by rw [ha, List.length_drop]; omega) rfl
          (by rw [ha, List.length_drop]; omega) hin'
        refine ⟨(ih _).1, ?_⟩
        rw [(ih _).2, renderR_pushCopy, heq, ha, List.append_assoc, List.take_append_drop]
      · next hf =>
        cases hrest : rest with
        | nil => simp [hrest] at hr; omega
        | cons x rest' =>
          simp only []
          have hk' : rest' = src.drop (k + 1) := (drop_succ_of_cons (by rw [← hk, hrest])).symm
          have hin' : InB basis (pushLiteralByte rops x) :=
            fun o l hm => hin o l (copy_mem_pushLiteralByte rops x o l hm)
          have ih := fun r => scan_render H bs hbs basis src blocks hh hcf fuel (k + 1) rest' ahead.tail (rem - 1) r
            (pushLiteralByte rops x) hk' (by simp [hrest] at hl; omega)
            (by rw [ha, hrest]; exact tail_drop_cons x rest' bs hbs) (by simp [hrest] at hr; omega) hin'
          refine ⟨(ih _).1, ?_⟩
          rw [(ih _).2, renderR_pushLiteralByte, List.append_assoc]; rfl
    · simp only [hle, if_false]
      exact ⟨fun o l hm => hin o l (copy_mem_pushLiteral rops rest o l hm), renderR_pushLiteral basis rops rest⟩

end Copia.Delta
