import Copia.Lemmas.Crash6
/-! Every kill point inside the data part of a run leaves a `CrashInv` state (`crash_state`). -/
namespace Copia.Crash
open Copia.Reconcile Copia.Bisync

variable {P C : Type} [DecidableEq P] [DecidableEq C]

/-- only a both-changed conflict has more than one delivery group; the groups before its last one
write the losing content at the conflict-copy name -/
theorem actionGroups_prefix (ge : C → C → Bool) (cname : P → C → P) (A0 B0 : Tree P C) (p0 : P) (act0 : Action)
    (dg rg : List (Group P C)) (g : Group P C)
    (h : actionGroups ge cname (scan A0) (scan B0) p0 act0 = dg ++ g :: rg) :
    dg = [] ∨ ∃ xa yb, get A0 p0 = some xa ∧ get B0 p0 = some yb ∧ act0 = .conflict .bothChanged ∧
      ∀ x ∈ dg, ∃ sd, x = Group.copy sd (cname p0 (loser ge xa yb)) (loser ge xa yb) := by
  have len1 : ∀ (l : List (Group P C)), l.length ≤ 1 → l = dg ++ g :: rg → dg = [] := by
    intro l hl e
    have := congrArg List.length e
    simp at this
    cases dg with
    | nil => rfl
    | cons _ _ => simp at this; omega
  cases act0 with
  | noop => simp [actionGroups] at h
  | convergeIdentical => simp [actionGroups] at h
  | propagateAtoB =>
    left; apply len1 _ _ h
    simp only [actionGroups]; split <;> simp
  | propagateBtoA =>
    left; apply len1 _ _ h
    simp only [actionGroups]; split <;> simp
  | deleteA => left; exact len1 _ (by simp [actionGroups]) h
  | deleteB => left; exact len1 _ (by simp [actionGroups]) h
  | conflict k =>
    cases k with
    | deleteVsModify =>
      left; apply len1 _ _ h
      simp only [actionGroups]; split <;> simp
    | bothChanged =>
      simp only [actionGroups, lookup_scan] at h
      cases hA : get A0 p0 with
      | none => simp [hA] at h
      | some xa =>
        cases hB : get B0 p0 with
        | none => simp [hA, hB] at h
        | some yb =>
          right
          refine ⟨xa, yb, rfl, rfl, rfl, ?_⟩
          simp only [hA, hB, Option.map_some, mkFp] at h
          by_cases hg : ge xa yb = true
          · have hl : loser ge xa yb = yb := by simp [loser, hg]
            rw [hl]
            simp only [hg, if_true] at h
            intro x hx
            match dg, h with
            | [], _ => simp at hx
            | [d1], h => simp at h; simp at hx; exact ⟨_, by rw [hx]; exact h.1.symm⟩
            | [d1, d2], h =>
              simp at h; simp at hx
              rcases hx with hx | hx
              · exact ⟨_, by rw [hx]; exact h.1.symm⟩
              · exact ⟨_, by rw [hx]; exact h.2.1.symm⟩
            | d1 :: d2 :: d3 :: more, h => simp at h
          · have hg' : ge xa yb = false := by simpa using hg
            have hl : loser ge xa yb = xa := by simp [loser, hg']
            rw [hl]
            simp only [hg', Bool.false_eq_true, if_false] at h
            intro x hx
            match dg, h with
            | [], _ => simp at hx
            | [d1], h => simp at h; simp at hx; exact ⟨_, by rw [hx]; exact h.1.symm⟩
            | [d1, d2], h =>
              simp at h; simp at hx
              rcases hx with hx | hx
              · exact ⟨_, by rw [hx]; exact h.1.symm⟩
              · exact ⟨_, by rw [hx]; exact h.2.1.symm⟩
            | d1 :: d2 :: d3 :: more, h => simp at h

/-- executing conflict-copy groups of the next entry keeps `CrashInv` -/
theorem crashInv_groups (ge : C → C → Bool) (cname : P → C → P) (A0 B0 : Tree P C)
    (plan done : List (P × Action)) (nnc : NoNameClash ge cname A0 B0 plan)
    (hlive : ∀ p act, (p, act) ∈ plan → get A0 p ≠ none ∨ get B0 p ≠ none)
    (hnd : (plan.map (·.1)).Nodup) (hsub : ∀ x, x ∈ done → x ∈ plan)
    (p0 : P) (act0 : Action) (xa0 yb0 : C) (hm0 : (p0, act0) ∈ plan) (hnd0 : (p0, act0) ∉ done)
    (eact : act0 = .conflict .bothChanged) (eA0 : get A0 p0 = some xa0) (eB0 : get B0 p0 = some yb0) :
    ∀ (dg : List (Group P C)) (st : CState P C),
      (∀ x ∈ dg, ∃ sd, x = Group.copy sd (cname p0 (loser ge xa0 yb0)) (loser ge xa0 yb0)) →
      CrashInv ge cname A0 B0 plan done st.A st.B →
      CrashInv ge cname A0 B0 plan done ((dg.flatMap Group.steps).foldl exec st).A ((dg.flatMap Group.steps).foldl exec st).B := by
  have hc0 : ccName ge cname p0 act0 (get A0 p0) (get B0 p0) = some (cname p0 (loser ge xa0 yb0)) := by
    rw [eact, eA0, eB0]; simp [ccName]
  intro dg
  induction dg with
  | nil => intro st _ inv; simpa using inv
  | cons x r ih =>
    intro st hx inv
    simp only [List.flatMap_cons, List.foldl_append]
    apply ih _ (fun y hy => hx y (List.mem_cons_of_mem _ hy))
    obtain ⟨sd, rfl⟩ := hx x (by simp)
    cases sd with
    | A =>
      obtain ⟨eA, eB⟩ := copyA_effect st (cname p0 (loser ge xa0 yb0)) (loser ge xa0 yb0)
      simp only [Group.steps]
      rw [eA, eB]
      apply crashInv_write_cc ge cname A0 B0 plan done nnc hlive hnd hsub p0 act0 _ xa0 yb0 hm0 hnd0 hc0 eA0 eB0
        st.A st.B _ _ inv
      · intro q
        by_cases e : q = cname p0 (loser ge xa0 yb0)
        · right; exact ⟨e, by simp [get_ins, e]⟩
        · left; simp [get_ins, e]
      · intro q; left; rfl
    | B =>
      obtain ⟨eA, eB⟩ := copyB_effect st (cname p0 (loser ge xa0 yb0)) (loser ge xa0 yb0)
      simp only [Group.steps]
      rw [eA, eB]
      apply crashInv_write_cc ge cname A0 B0 plan done nnc hlive hnd hsub p0 act0 _ xa0 yb0 hm0 hnd0 hc0 eA0 eB0
        st.A st.B _ _ inv
      · intro q; left; rfl
      · intro q
        by_cases e : q = cname p0 (loser ge xa0 yb0)
        · right; exact ⟨e, by simp [get_ins, e]⟩
        · left; simp [get_ins, e]

theorem nodup_prefix {α : Type} (a b : List α) (h : (a ++ b).Nodup) : a.Nodup := (List.nodup_append.mp h).1

/-- C08: after any proper prefix of the data calls of a run, the live trees are a `CrashInv` state for
some executed prefix `done` of the plan -/
theorem crash_state (le : P → P → Bool)
    (trans : ∀ a b c, le a b → le b c → le a c) (total : ∀ a b, le a b || le b a)
    (antisymm : ∀ a b, le a b → le b a → a = b) (ge : C → C → Bool) (cname : P → C → P) (s : State P C)
    (nnc : NoNameClash ge cname s.A s.B (bisyncPlan le s)) (k : Nat)
    (hk : k < ((runGroups le ge cname s).flatMap Group.steps).length) :
    ∃ done todo, bisyncPlan le s = done ++ todo ∧
      CrashInv ge cname s.A s.B (bisyncPlan le s) done
        ((((runGroups le ge cname s).flatMap Group.steps).take k).foldl exec (initC s)).A
        ((((runGroups le ge cname s).flatMap Group.steps).take k).foldl exec (initC s)).B := by
  obtain ⟨hact, hlive, hnd, _⟩ := plan_facts le trans total antisymm s
  obtain ⟨dgs, g, restg, j, hgs, hj, ht⟩ := take_flatMap Group.steps (runGroups le ge cname s) k hk
  have hgs' : (bisyncPlan le s).flatMap (fun pa => actionGroups ge cname (scan s.A) (scan s.B) pa.1 pa.2) = dgs ++ g :: restg := hgs
  obtain ⟨done, ⟨p0, act0⟩, rest, dg, rg, hplan, hfx, hpre⟩ := flatMap_split _ _ dgs g restg hgs'
  refine ⟨done, (p0, act0) :: rest, hplan, ?_⟩
  rw [ht, List.foldl_append]
  obtain ⟨eA, eB, _, _⟩ := group_partial ((dgs.flatMap Group.steps).foldl exec (initC s)) g j hj
  rw [eA, eB, hpre, List.flatMap_append, List.foldl_append]
  have hsub : ∀ x, x ∈ done → x ∈ bisyncPlan le s := fun x hx => by rw [hplan]; exact List.mem_append_left _ hx
  have hm0 : (p0, act0) ∈ bisyncPlan le s := by rw [hplan]; simp
  have hnd0 : (p0, act0) ∉ done := by
    intro h'
    have hnd' := hnd
    rw [hplan, List.map_append, List.nodup_append] at hnd'
    exact hnd'.2.2 p0 (List.mem_map_of_mem (f := (·.1)) h') p0 (by simp) rfl
  -- the executed prefix `done`, as a plan of its own
  have nncD : NoNameClash ge cname s.A s.B done :=
    ⟨fun p act ln hm hc => nnc.notLive p act ln (hsub _ hm) hc,
     fun p act p' act' ln hm hm' hc hc' => nnc.distinct p act p' act' ln (hsub _ hm) (hsub _ hm') hc hc'⟩
  have hndD : (done.map (·.1)).Nodup := by
    have := hnd; rw [hplan, List.map_append] at this; exact nodup_prefix _ _ this
  have init : RunInv ge cname s.A s.B [] { A := (initC s).A, B := (initC s).B, common := [] } :=
    ⟨fun _ _ => ⟨rfl, rfl⟩, fun _ _ h => by simp at h, fun _ _ _ h => by simp at h⟩
  have hrun := run_groups ge cname s.A s.B (baseOf s) done (fun p act hm => hact p act (hsub _ hm))
    (fun p act hm => hlive p act (hsub _ hm)) hndD nncD done [] (initC s) (by simp) init
  have hst : ((done.flatMap fun pa => actionGroups ge cname (scan s.A) (scan s.B) pa.1 pa.2).flatMap Group.steps) =
      (done.flatMap fun pa => (actionGroups ge cname (scan s.A) (scan s.B) pa.1 pa.2).flatMap Group.steps) := by
    rw [List.flatMap_assoc]
  rw [hst]
  have inv0 := crashInv_of_runInv ge cname s.A s.B (bisyncPlan le s) done nnc hlive hnd hsub _ hrun
  rcases actionGroups_prefix ge cname s.A s.B p0 act0 dg rg g hfx with rfl | ⟨xa, yb, eA0, eB0, eact, hall⟩
  · simpa using inv0
  · exact crashInv_groups ge cname s.A s.B (bisyncPlan le s) done nnc hlive hnd hsub p0 act0 xa yb hm0 hnd0 eact eA0 eB0
      dg _ hall inv0

end Copia.Crash
