import Copia.Model.OneWay
import Copia.Lemmas.Plan
namespace Copia.OneWay
open Copia.Plan

variable {K C : Type} [DecidableEq K]

def strip (e : Entry C) : Entry C := { e with ns := 0 }

theorem lookup_tins (t : Tree K C) (p q : K) (e : Entry C) :
    lookup (tins t p e) q = if q = p then some e else lookup t q := by
  induction t with
  | nil =>
    by_cases h : q = p
    · subst h; simp [tins, lookup]
    · have h' : ¬ p = q := fun e => h e.symm
      simp [tins, lookup, h, h']
  | cons x r ih =>
    obtain ⟨k, d⟩ := x
    unfold tins
    by_cases hk : k = p
    · subst hk
      by_cases h : q = k
      · subst h; simp [lookup]
      · have h' : ¬ k = q := fun e => h e.symm
        simp [lookup, h, h']
    · simp only [hk, if_false]
      by_cases hq : k = q
      · subst hq
        simp [lookup, hk]
      · simp [lookup, hq, ih]

theorem lookup_tdel (t : Tree K C) (p q : K) :
    lookup (tdel t p) q = if q = p then none else lookup t q := by
  induction t with
  | nil => simp [tdel, lookup]
  | cons x r ih =>
    obtain ⟨k, d⟩ := x
    unfold tdel at ih ⊢
    by_cases hk : k = p
    · subst hk
      simp only [List.filter_cons, ne_eq, not_true_eq_false, decide_false, Bool.false_eq_true, if_false, ih]
      by_cases h : q = k
      · simp [h]
      · have h' : ¬ k = q := fun e => h e.symm
        simp [lookup, h, h']
    · simp only [List.filter_cons, ne_eq, hk, not_false_eq_true, decide_true, if_true]
      by_cases hq : k = q
      · subst hq; simp [lookup, hk]
      · simp only [lookup, hq, if_false]
        exact ih

theorem lookup_deliver (S D : Tree K C) (p q : K) :
    lookup (deliver S D p) q = if q = p ∧ (lookup S p).isSome then (lookup S p).map strip else lookup D q := by
  unfold deliver
  cases h : lookup S p with
  | none => simp
  | some e =>
    simp only [lookup_tins, Option.isSome_some, and_true, Option.map_some]
    rfl

theorem lookup_delivers (S : Tree K C) (ts : List K) (hts : ∀ p ∈ ts, (lookup S p).isSome) :
    ∀ (D : Tree K C) (q : K),
      lookup (ts.foldl (deliver S) D) q = if q ∈ ts then (lookup S q).map strip else lookup D q := by
  induction ts with
  | nil => intro D q; simp
  | cons p t ih =>
    intro D q
    have htl : ∀ x ∈ t, (lookup S x).isSome := fun x hx => hts x (List.mem_cons_of_mem _ hx)
    simp only [List.foldl_cons]
    rw [ih htl, lookup_deliver]
    have hp := hts p (List.mem_cons_self ..)
    by_cases hqt : q ∈ t
    · simp [hqt]
    · by_cases hqp : q = p
      · subst hqp; simp [hqt, hp]
      · simp [hqt, hqp]

theorem lookup_tdels (ds : List K) : ∀ (D : Tree K C) (q : K),
    lookup (ds.foldl tdel D) q = if q ∈ ds then none else lookup D q := by
  induction ds with
  | nil => intro D q; simp
  | cons p t ih =>
    intro D q
    simp only [List.foldl_cons]
    rw [ih, lookup_tdel]
    by_cases hqt : q ∈ t
    · simp [hqt]
    · by_cases hqp : q = p <;> simp [hqt, hqp]

theorem lookup_metaOf (t : Tree K C) (p : K) :
    lookup (metaOf t) p = (lookup t p).map fun e => ({ size := e.size, mtime := e.mt } : FileMeta) := by
  induction t with
  | nil => simp [metaOf, lookup]
  | cons x r ih =>
    obtain ⟨k, d⟩ := x
    unfold metaOf at ih ⊢
    by_cases hk : k = p
    · simp [lookup, hk]
    · simp [lookup, hk, ih]

theorem keys_metaOf (t : Tree K C) : (metaOf t).map (·.1) = t.map (·.1) := by
  simp [metaOf]

theorem lookup_of_mem_nodup {V} (m : List (K × V)) (h : (m.map (·.1)).Nodup) (k : K) (v : V)
    (hm : (k, v) ∈ m) : lookup m k = some v := by
  induction m with
  | nil => cases hm
  | cons x r ih =>
    obtain ⟨k', v'⟩ := x
    simp only [List.map_cons, List.nodup_cons] at h
    rcases List.mem_cons.mp hm with he | hr
    · cases he; simp [lookup]
    · have : k' ≠ k := by
        intro e; subst e
        exact h.1 (List.mem_map_of_mem (f := (·.1)) hr)
      simp [lookup, this, ih h.2 hr]

end Copia.OneWay
