import Copia.Model.Hub
namespace Copia.Hub

def dotdot : List Char := ['.', '.']

theorem splitSlash_ne_nil (l : List Char) : splitSlash l ≠ [] := by
  induction l with
  | nil => simp [splitSlash]
  | cons c cs ih =>
    unfold splitSlash
    cases h : splitSlash cs with
    | nil => exact absurd h ih
    | cons a t => by_cases hc : c = '/' <;> simp [hc]

/-- `splitSlash (a ++ "/" ++ b)` is the concatenation of the two splits -/
theorem splitSlash_join (a b : List Char) : splitSlash (a ++ '/' :: b) = splitSlash a ++ splitSlash b := by
  induction a with
  | nil =>
    simp only [List.nil_append]
    have h0 : splitSlash ([] : List Char) = [[]] := by simp [splitSlash]
    rw [h0, splitSlash]
    cases h : splitSlash b with
    | nil => exact absurd h (splitSlash_ne_nil b)
    | cons x t => simp
  | cons c cs ih =>
    simp only [List.cons_append]
    rw [splitSlash, ih]
    cases h : splitSlash cs with
    | nil => exact absurd h (splitSlash_ne_nil cs)
    | cons x t =>
      rw [splitSlash, h]
      by_cases hc : c = '/' <;> simp [hc]

theorem osWalk_append (s : List (List Char)) (xs ys : List (List Char)) :
    osWalk s (xs ++ ys) = osWalk (osWalk s xs) ys := by
  induction xs generalizing s with
  | nil => rfl
  | cons x t ih =>
    simp only [List.cons_append, osWalk]
    split
    · exact ih s
    · split
      · exact ih _
      · exact ih _

/-- without a `..` part the walk only ever appends: the starting stack stays a prefix -/
theorem osWalk_prefix (parts : List (List Char)) (h : dotdot ∉ parts) :
    ∀ s, s <+: osWalk s parts := by
  induction parts with
  | nil => intro s; exact List.prefix_refl s
  | cons x t ih =>
    intro s
    have ht : dotdot ∉ t := fun hm => h (List.mem_cons_of_mem _ hm)
    have hx : x ≠ dotdot := fun e => h (e ▸ List.mem_cons_self ..)
    unfold osWalk
    split
    · exact ih ht s
    · split
      · next h2 => exact absurd h2 hx
      · exact (List.prefix_append s [x]).trans (ih ht _)

theorem bodyComps_parent (parts : List (List Char)) :
    Comp.parentDir ∈ bodyComps parts ↔ dotdot ∈ parts := by
  induction parts with
  | nil => simp [bodyComps]
  | cons x t ih =>
    unfold bodyComps
    by_cases h1 : x = [] ∨ x = ['.']
    · simp only [h1, if_true, ih, List.mem_cons]
      constructor
      · exact Or.inr
      · rintro (h | h)
        · rcases h1 with h1 | h1 <;> (rw [h1] at h; simp [dotdot] at h)
        · exact h
    · simp only [h1, if_false]
      by_cases h2 : x = ['.', '.']
      · simp [h2, dotdot]
      · simp only [h2, if_false, List.mem_cons, ih]
        constructor
        · rintro (h | h)
          · cases h
          · exact Or.inr h
        · rintro (h | h)
          · exact absurd h.symm h2
          · exact Or.inr h

/-- a relative request path that `safe_join` accepts has no `..` part -/
theorem accepted_no_dotdot (root rel q : List Char) (h : safeJoinPath root rel = some q) :
    q = root ++ '/' :: rel ∧ rel.head? ≠ some '/' ∧ dotdot ∉ splitSlash rel := by
  unfold safeJoinPath at h
  split at h
  · cases h
  · next hh =>
    split at h
    · cases h
    · next hany =>
      simp only [Option.some.injEq] at h
      refine ⟨h.symm, hh, ?_⟩
      intro hdd
      apply hany
      simp only [List.any_eq_true, decide_eq_true_eq]
      refine ⟨.parentDir, ?_, Or.inl rfl⟩
      unfold components
      split
      · next c t => simp at hh
      · split
        · next t hsp =>
          rw [hsp] at hdd
          have : dotdot ∈ t := by
            rcases List.mem_cons.mp hdd with e | e
            · simp [dotdot] at e
            · exact e
          exact List.mem_cons_of_mem _ ((bodyComps_parent t).mpr this)
        · exact (bodyComps_parent _).mpr hdd

end Copia.Hub
