import Copia.Lemmas.Bisync17
/-! `bisync` under BenignClash: the archive it writes records exactly the resulting tree. -/
namespace Copia.Bisync
open Copia.Reconcile

variable {P C : Type} [DecidableEq P] [DecidableEq C]

/-- a whole run under BenignClash: completes; trees and the new archive satisfy their invariants -/
theorem bisync_runAB (le : P → P → Bool)
    (trans : ∀ a b c, le a b → le b c → le a c) (total : ∀ a b, le a b || le b a)
    (antisymm : ∀ a b, le a b → le b a → a = b) (ge : C → C → Bool) (cname : P → C → P) (s : State P C)
    (bc : BenignClash ge cname s.A s.B (bisyncPlan le s)) :
    ∃ l n, applyAllPartial ge cname (scan s.A) (scan s.B) (bisyncPlan le s)
        { A := s.A, B := s.B, common := common0 s } 0 = (l, n, true) ∧
      RunInvB ge cname s.A s.B (bisyncPlan le s) (bisyncPlan le s) l ∧
      ArchInvB ge cname s.A s.B (common0 s) (bisyncPlan le s) (bisyncPlan le s) l.common := by
  obtain ⟨hact, _, hnd, _⟩ := plan_facts le trans total antisymm s
  have hnn : ∀ p act, (p, act) ∈ bisyncPlan le s → act ≠ .noop := by
    intro p act hm
    exact ((Copia.C18.mem_reconcile le _ _ _ _ p act).mp hm).2.2
  have init := runInvB_init ge cname s.A s.B (bisyncPlan le s) bc (common0 s)
  have initA : ArchInvB ge cname s.A s.B (common0 s) (bisyncPlan le s) [] (common0 s) :=
    ⟨fun _ _ => rfl, fun _ _ h => by simp at h, fun _ _ _ h => by simp at h⟩
  obtain ⟨l', n', hrun, inv⟩ := run_planB ge cname s.A s.B (baseOf s) (bisyncPlan le s) hact hnd bc
    (bisyncPlan le s) [] _ 0 (by simp) init
  exact ⟨l', n', hrun, inv,
    run_archB ge cname s.A s.B (baseOf s) (common0 s) (bisyncPlan le s) hact hnn hnd bc
      (bisyncPlan le s) [] _ l' 0 n' (by simp) initA init hrun⟩

/-- archive = tree at every path -/
theorem arch_eq_treeB (le : P → P → Bool)
    (trans : ∀ a b c, le a b → le b c → le a c) (total : ∀ a b, le a b || le b a)
    (antisymm : ∀ a b, le a b → le b a → a = b) (ge : C → C → Bool) (cname : P → C → P) (s : State P C)
    (l : Live P C)
    (inv : RunInvB ge cname s.A s.B (bisyncPlan le s) (bisyncPlan le s) l)
    (ainv : ArchInvB ge cname s.A s.B (common0 s) (bisyncPlan le s) (bisyncPlan le s) l.common) (q : P) :
    lookup l.common q = (get l.A q).map mkFp := by
  obtain ⟨_, _, _, hrest⟩ := plan_facts le trans total antisymm s
  by_cases h2 : ∃ p act, (p, act) ∈ bisyncPlan le s ∧ ccName ge cname p act (get s.A p) (get s.B p) = some q
  · obtain ⟨p, act, hm, hc⟩ := h2
    obtain ⟨xa, yb, e1, e2, hA, _⟩ := inv.atCopy p act q hm hc
    obtain ⟨xa', yb', e1', e2', hC⟩ := ainv.atCopy p act q hm hc
    rw [e1] at e1'; rw [e2] at e2'
    cases e1'; cases e2'
    rw [hC, hA]; rfl
  · have hnc : ∀ p' act', (p', act') ∈ bisyncPlan le s → ccName ge cname p' act' (get s.A p') (get s.B p') ≠ some q :=
      fun p' act' hm hc => h2 ⟨p', act', hm, hc⟩
    by_cases h1 : ∃ act, (q, act) ∈ bisyncPlan le s
    · obtain ⟨act, hm⟩ := h1
      rw [ainv.atPath q act hm hnc, (inv.atPath q act hm hnc).1]
    · have hnt : ¬ touched ge cname s.A s.B (bisyncPlan le s) q := by
        rintro (h | ⟨p, act, hm, hc⟩)
        · exact h1 h
        · exact hnc p act hm hc
      rw [ainv.untouched q hnt, (inv.untouched q hnt).1]
      have hno := hrest q (fun act hm => h1 ⟨act, hm⟩)
      unfold common0
      rw [lookup_filter_key (s.arch.getD []) (fun k => (lookup (scan s.A) k).isSome || (lookup (scan s.B) k).isSome) q]
      rw [lookup_scan, lookup_scan]
      rcases noop_base _ _ _ hno with ⟨ex, ey⟩ | ⟨hsome, hz⟩
      · simp [ex, ey]
      · obtain ⟨v, hv⟩ := Option.isSome_iff_exists.mp hsome
        rw [hv] at hz ⊢
        unfold baseOf at hz
        split at hz
        · simp [hz]
        · cases hz

end Copia.Bisync
