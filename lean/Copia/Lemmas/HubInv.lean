import Copia.Model.HubConc
/-! Inductive invariant of the interleaved hub system (all step kinds, incl. kills). -/
namespace Copia.HubConc

def fdOf : Pc → Option Ino
  | .writing fd _ => some fd
  | .verified fd => some fd
  | .locked fd => some fd
  | .decided fd _ => some fd
  | _ => none

def isFull : Pc → Option Ino
  | .verified fd => some fd
  | .locked fd => some fd
  | .decided fd _ => some fd
  | _ => none

structure WF (S : Sys) : Prop where
  tmp_staging : ∀ i p, S.staging (S.tmpOf i p) = true
  tmp_inj : ∀ i j p q, S.tmpOf i p = S.tmpOf j q → i = j
  dst_ns : ∀ i, S.staging (S.req i).dst = false
  cname_ns : ∀ m p h, S.staging p = false → S.staging (S.cname m p h) = false

def Valid (S : Sys) (init : List Chunk → Prop) (c : List Chunk) : Prop :=
  init c ∨ ∃ i, c = (S.req i).chunks ∧ S.H c = (S.req i).declared

structure Inv (S : Sys) (init : List Chunk → Prop) (s : State) : Prop where
  inj : ∀ p q n, s.dir p = some n → s.dir q = some n → p = q
  fresh : ∀ p n, s.dir p = some n → n < s.next
  own : ∀ i fd, fdOf (s.pc i) = some fd → s.dir (S.tmpOf i (S.req i).dst) = some fd
  prog : ∀ i fd k, s.pc i = .writing fd k → s.ino fd = (S.req i).chunks.take k
  full : ∀ i fd, isFull (s.pc i) = some fd →
      s.ino fd = (S.req i).chunks ∧ S.H (S.req i).chunks = (S.req i).declared
  pub : ∀ p n, S.staging p = false → s.dir p = some n → Valid S init (s.ino n)

/-- distinct processes never share a staging inode -/
theorem fd_ne {S init s} (wf : WF S) (inv : Inv S init s) {i j fi fj}
    (hi : fdOf (s.pc i) = some fi) (hj : fdOf (s.pc j) = some fj) (hij : i ≠ j) : fi ≠ fj := by
  intro e; subst e
  have := inv.inj _ _ _ (inv.own i _ hi) (inv.own j _ hj)
  exact hij (wf.tmp_inj _ _ _ _ this)

/-- a staging inode in use is not published -/
theorem fd_not_pub {S init s} (wf : WF S) (inv : Inv S init s) {i fd p}
    (hi : fdOf (s.pc i) = some fd) (hp : S.staging p = false) : s.dir p ≠ some fd := by
  intro e
  have := inv.inj _ _ _ e (inv.own i _ hi)
  rw [this, wf.tmp_staging] at hp; cases hp

theorem publish_inv {S init s} (wf : WF S) (inv : Inv S init s) (i : Pid) (fd : Ino) (cur : Option Hash)
    (tgt : Path) (htgt : S.staging tgt = false) (h : s.pc i = .decided fd cur) :
    Inv S init { s with dir := upd (upd s.dir tgt (s.dir (S.tmpOf i (S.req i).dst)))
                                  (S.tmpOf i (S.req i).dst) none,
                        pc := upd s.pc i .renamed } := by
    have hfd : fdOf (s.pc i) = some fd := by rw [h]; rfl
    have hown := inv.own i fd hfd
    have hfull := inv.full i fd (by rw [h]; rfl)
    have hdst := htgt
    have hts := wf.tmp_staging i (S.req i).dst
    have hne : tgt ≠ S.tmpOf i (S.req i).dst := by
      intro e; rw [← e, hdst] at hts; cases hts
    refine ⟨?_, ?_, ?_, ?_, ?_, ?_⟩
    · intro p q n hp hq
      have key : ∀ r m, upd (upd s.dir tgt (s.dir (S.tmpOf i (S.req i).dst)))
            (S.tmpOf i (S.req i).dst) none r = some m →
          r ≠ S.tmpOf i (S.req i).dst ∧
            ((r = tgt ∧ m = fd) ∨ (r ≠ tgt ∧ s.dir r = some m ∧ m ≠ fd)) := by
        intro r m hr
        simp only [upd] at hr
        by_cases e1 : r = S.tmpOf i (S.req i).dst
        · simp [e1] at hr
        · simp only [e1, if_false] at hr
          refine ⟨e1, ?_⟩
          by_cases e2 : r = tgt
          · simp only [e2, if_true] at hr; rw [hown] at hr; cases hr; exact Or.inl ⟨e2, rfl⟩
          · simp only [e2, if_false] at hr
            refine Or.inr ⟨e2, hr, ?_⟩
            intro e; subst e; exact e1 (inv.inj _ _ _ hr hown)
      obtain ⟨_, hp'⟩ := key p n hp
      obtain ⟨_, hq'⟩ := key q n hq
      rcases hp' with ⟨e1, e2⟩ | ⟨_, e2, e3⟩ <;> rcases hq' with ⟨f1, f2⟩ | ⟨_, f2, f3⟩
      · rw [e1, f1]
      · exact absurd e2 f3
      · exact absurd f2 e3
      · exact inv.inj _ _ _ e2 f2
    · intro p n hp
      simp only [upd] at hp
      split at hp
      · cases hp
      · split at hp
        · rw [hown] at hp; cases hp; exact inv.fresh _ _ hown
        · exact inv.fresh _ _ hp
    · intro j fj hj
      by_cases e : j = i
      · subst e; simp [upd, fdOf] at hj
      · simp [upd, e] at hj
        have h1 : S.tmpOf j (S.req j).dst ≠ S.tmpOf i (S.req i).dst := fun x => e (wf.tmp_inj _ _ _ _ x)
        have h2 : S.tmpOf j (S.req j).dst ≠ tgt := by
          intro x; have := wf.tmp_staging j (S.req j).dst; rw [x, hdst] at this; cases this
        simp [upd, h1, h2]; exact inv.own j fj hj
    · intro j fj kj hj
      by_cases e : j = i
      · subst e; simp [upd] at hj
      · simp [upd, e] at hj; exact inv.prog j fj kj hj
    · intro j fj hj
      by_cases e : j = i
      · subst e; simp [upd, isFull] at hj
      · simp [upd, e] at hj; exact inv.full j fj hj
    · intro p n hp hn
      simp only [upd] at hn
      split at hn
      · cases hn
      · split at hn
        · rw [hown] at hn; cases hn
          right; exact ⟨i, hfull.1, by rw [hfull.1]; exact hfull.2⟩
        · exact inv.pub p n hp hn

theorem step_inv {S init s s'} (wf : WF S) (inv : Inv S init s) (st : Step S s s') : Inv S init s' := by
  cases st with
  | write i fd k c h hc =>
    have hfd : fdOf (s.pc i) = some fd := by rw [h]; rfl
    refine ⟨inv.inj, inv.fresh, ?_, ?_, ?_, ?_⟩
    · intro j fj hj
      by_cases e : j = i
      · subst e; simp [upd, fdOf] at hj; subst hj; exact inv.own _ _ hfd
      · simp [upd, e] at hj; exact inv.own j fj hj
    · intro j fj kj hj
      by_cases e : j = i
      · subst e; simp [upd] at hj; obtain ⟨rfl, rfl⟩ := hj
        simp [upd, inv.prog _ _ _ h, List.take_succ, hc]
      · simp [upd, e] at hj
        have hne : fd ≠ fj := fd_ne wf inv hfd (by rw [hj]; rfl) (Ne.symm e)
        simp [upd, Ne.symm hne]; exact inv.prog j fj kj hj
    · intro j fj hj
      by_cases e : j = i
      · subst e; simp [upd, isFull] at hj
      · simp [upd, e] at hj
        have hfj : fdOf (s.pc j) = some fj := by
          cases hp : s.pc j <;> simp [hp, isFull] at hj <;> simp [fdOf, hj]
        have hne : fd ≠ fj := fd_ne wf inv hfd hfj (Ne.symm e)
        simp [upd, Ne.symm hne]; exact inv.full j fj hj
    · intro p n hp hn
      have hne : n ≠ fd := by intro e; subst e; exact fd_not_pub wf inv hfd hp hn
      simp [upd, hne]; exact inv.pub p n hp hn
  | commit i fd cur h hc => exact publish_inv wf inv i fd cur _ (wf.dst_ns i) h
  | createFresh i h hn =>
    have hts := wf.tmp_staging i (S.req i).dst
    refine ⟨?_, ?_, ?_, ?_, ?_, ?_⟩
    · intro p q n hp hq
      simp only [upd] at hp hq
      by_cases e1 : p = S.tmpOf i (S.req i).dst <;> by_cases e2 : q = S.tmpOf i (S.req i).dst
      · rw [e1, e2]
      · simp only [e1, e2, if_true, if_false] at hp hq; cases hp
        exact absurd (inv.fresh _ _ hq) (Nat.lt_irrefl _)
      · simp only [e1, e2, if_true, if_false] at hp hq; cases hq
        exact absurd (inv.fresh _ _ hp) (Nat.lt_irrefl _)
      · simp only [e1, e2, if_false] at hp hq; exact inv.inj _ _ _ hp hq
    · intro p n hp
      simp only [upd] at hp
      split at hp
      · cases hp; exact Nat.lt_succ_self _
      · exact Nat.lt_succ_of_lt (inv.fresh _ _ hp)
    · intro j fj hj
      by_cases e : j = i
      · subst e; simp [upd, fdOf] at hj; subst hj; simp [upd]
      · simp [upd, e] at hj
        have h1 : S.tmpOf j (S.req j).dst ≠ S.tmpOf i (S.req i).dst := fun x => e (wf.tmp_inj _ _ _ _ x)
        simp [upd, h1]; exact inv.own j fj hj
    · intro j fj kj hj
      by_cases e : j = i
      · subst e; simp [upd] at hj; obtain ⟨rfl, rfl⟩ := hj; simp [upd]
      · simp [upd, e] at hj
        have : fj ≠ s.next := by
          intro x; subst x
          exact absurd (inv.fresh _ _ (inv.own j _ (by rw [hj]; rfl))) (Nat.lt_irrefl _)
        simp [upd, this]; exact inv.prog j fj kj hj
    · intro j fj hj
      by_cases e : j = i
      · subst e; simp [upd, isFull] at hj
      · simp [upd, e] at hj
        have hfj : fdOf (s.pc j) = some fj := by
          cases hp : s.pc j <;> simp [hp, isFull] at hj <;> simp [fdOf, hj]
        have : fj ≠ s.next := by
          intro x; subst x
          exact absurd (inv.fresh _ _ (inv.own j _ hfj)) (Nat.lt_irrefl _)
        simp [upd, this]; exact inv.full j fj hj
    · intro p n hp hn
      simp only [upd] at hn
      split at hn
      · next e => rw [e, hts] at hp; cases hp
      · have : n ≠ s.next := by
          intro x; subst x; exact absurd (inv.fresh _ _ hn) (Nat.lt_irrefl _)
        simp [upd, this]; exact inv.pub p n hp hn
  | createTrunc i n h hn =>
    have hts := wf.tmp_staging i (S.req i).dst
    have hnotpub : ∀ p, S.staging p = false → s.dir p ≠ some n := by
      intro p hp e
      have := inv.inj _ _ _ e hn
      rw [this, hts] at hp; cases hp
    have hother : ∀ j fj, j ≠ i → fdOf (s.pc j) = some fj → fj ≠ n := by
      intro j fj e hj x; subst x
      exact e (wf.tmp_inj _ _ _ _ (inv.inj _ _ _ (inv.own j _ hj) hn))
    refine ⟨inv.inj, inv.fresh, ?_, ?_, ?_, ?_⟩
    · intro j fj hj
      by_cases e : j = i
      · subst e; simp [upd, fdOf] at hj; subst hj; exact hn
      · simp [upd, e] at hj; exact inv.own j fj hj
    · intro j fj kj hj
      by_cases e : j = i
      · subst e; simp [upd] at hj; obtain ⟨rfl, rfl⟩ := hj; simp [upd]
      · simp [upd, e] at hj
        have := hother j fj e (by rw [hj]; rfl)
        simp [upd, this]; exact inv.prog j fj kj hj
    · intro j fj hj
      by_cases e : j = i
      · subst e; simp [upd, isFull] at hj
      · simp [upd, e] at hj
        have hfj : fdOf (s.pc j) = some fj := by
          cases hp : s.pc j <;> simp [hp, isFull] at hj <;> simp [fdOf, hj]
        have := hother j fj e hfj
        simp [upd, this]; exact inv.full j fj hj
    · intro p m hp hm
      have : m ≠ n := by intro x; subst x; exact hnotpub p hp hm
      simp [upd, this]; exact inv.pub p m hp hm
  | verifyOk i fd k h hk hh =>
    have hprog := inv.prog i fd k h
    refine ⟨inv.inj, inv.fresh, ?_, ?_, ?_, inv.pub⟩
    · intro j fj hj
      by_cases e : j = i
      · subst e; simp [upd, fdOf] at hj; subst hj; exact inv.own _ _ (by rw [h]; rfl)
      · simp [upd, e] at hj; exact inv.own j fj hj
    · intro j fj kj hj
      by_cases e : j = i
      · subst e; simp [upd] at hj
      · simp [upd, e] at hj; exact inv.prog j fj kj hj
    · intro j fj hj
      by_cases e : j = i
      · subst e; simp [upd, isFull] at hj; subst hj
        exact ⟨by rw [hprog, hk]; simp, hh⟩
      · simp [upd, e] at hj; exact inv.full j fj hj
  | verifyBad i fd k h hk hh =>
    have hown := inv.own i fd (by rw [h]; rfl)
    refine ⟨?_, ?_, ?_, ?_, ?_, ?_⟩
    · intro p q n hp hq
      simp only [upd] at hp hq
      split at hp
      · cases hp
      · split at hq
        · cases hq
        · exact inv.inj _ _ _ hp hq
    · intro p n hp
      simp only [upd] at hp
      split at hp
      · cases hp
      · exact inv.fresh _ _ hp
    · intro j fj hj
      by_cases e : j = i
      · subst e; simp [upd, fdOf] at hj
      · simp [upd, e] at hj
        have h1 : S.tmpOf j (S.req j).dst ≠ S.tmpOf i (S.req i).dst := fun x => e (wf.tmp_inj _ _ _ _ x)
        simp [upd, h1]; exact inv.own j fj hj
    · intro j fj kj hj
      by_cases e : j = i
      · subst e; simp [upd] at hj
      · simp [upd, e] at hj; exact inv.prog j fj kj hj
    · intro j fj hj
      by_cases e : j = i
      · subst e; simp [upd, isFull] at hj
      · simp [upd, e] at hj; exact inv.full j fj hj
    · intro p n hp hn
      simp only [upd] at hn
      split at hn
      · cases hn
      · exact inv.pub p n hp hn
  | lock i fd h hl =>
    refine ⟨inv.inj, inv.fresh, ?_, ?_, ?_, inv.pub⟩
    · intro j fj hj
      by_cases e : j = i
      · subst e; simp [upd, fdOf] at hj; subst hj; exact inv.own _ _ (by rw [h]; rfl)
      · simp [upd, e] at hj; exact inv.own j fj hj
    · intro j fj kj hj
      by_cases e : j = i
      · subst e; simp [upd] at hj
      · simp [upd, e] at hj; exact inv.prog j fj kj hj
    · intro j fj hj
      by_cases e : j = i
      · subst e; simp [upd, isFull] at hj; subst hj; exact inv.full _ _ (by rw [h]; rfl)
      · simp [upd, e] at hj; exact inv.full j fj hj
  | readCur i fd h =>
    refine ⟨inv.inj, inv.fresh, ?_, ?_, ?_, inv.pub⟩
    · intro j fj hj
      by_cases e : j = i
      · subst e; simp [upd, fdOf] at hj; subst hj; exact inv.own _ _ (by rw [h]; rfl)
      · simp [upd, e] at hj; exact inv.own j fj hj
    · intro j fj kj hj
      by_cases e : j = i
      · subst e; simp [upd] at hj
      · simp [upd, e] at hj; exact inv.prog j fj kj hj
    · intro j fj hj
      by_cases e : j = i
      · subst e; simp [upd, isFull] at hj; subst hj; exact inv.full _ _ (by rw [h]; rfl)
      · simp [upd, e] at hj; exact inv.full j fj hj
  | unlock i h =>
    refine ⟨inv.inj, inv.fresh, ?_, ?_, ?_, inv.pub⟩
    · intro j fj hj
      by_cases e : j = i
      · subst e; simp [upd, fdOf] at hj
      · simp [upd, e] at hj; exact inv.own j fj hj
    · intro j fj kj hj
      by_cases e : j = i
      · subst e; simp [upd] at hj
      · simp [upd, e] at hj; exact inv.prog j fj kj hj
    · intro j fj hj
      by_cases e : j = i
      · subst e; simp [upd, isFull] at hj
      · simp [upd, e] at hj; exact inv.full j fj hj
  | kill i =>
    refine ⟨inv.inj, inv.fresh, ?_, ?_, ?_, inv.pub⟩
    · intro j fj hj
      by_cases e : j = i
      · subst e; simp [upd, fdOf] at hj
      · simp [upd, e] at hj; exact inv.own j fj hj
    · intro j fj kj hj
      by_cases e : j = i
      · subst e; simp [upd] at hj
      · simp [upd, e] at hj; exact inv.prog j fj kj hj
    · intro j fj hj
      by_cases e : j = i
      · subst e; simp [upd, isFull] at hj
      · simp [upd, e] at hj; exact inv.full j fj hj
  | conflict i fd cur h hc => exact publish_inv wf inv i fd cur _ (wf.cname_ns _ _ _ (wf.dst_ns i)) h
  | dLock i h hl =>
    refine ⟨inv.inj, inv.fresh, ?_, ?_, ?_, inv.pub⟩
    · intro j fj hj
      by_cases e : j = i
      · subst e; simp [upd, fdOf] at hj
      · simp [upd, e] at hj; exact inv.own j fj hj
    · intro j fj kj hj
      by_cases e : j = i
      · subst e; simp [upd] at hj
      · simp [upd, e] at hj; exact inv.prog j fj kj hj
    · intro j fj hj
      by_cases e : j = i
      · subst e; simp [upd, isFull] at hj
      · simp [upd, e] at hj; exact inv.full j fj hj
  | dRead i h =>
    refine ⟨inv.inj, inv.fresh, ?_, ?_, ?_, inv.pub⟩
    · intro j fj hj
      by_cases e : j = i
      · subst e; simp [upd, fdOf] at hj
      · simp [upd, e] at hj; exact inv.own j fj hj
    · intro j fj kj hj
      by_cases e : j = i
      · subst e; simp [upd] at hj
      · simp [upd, e] at hj; exact inv.prog j fj kj hj
    · intro j fj hj
      by_cases e : j = i
      · subst e; simp [upd, isFull] at hj
      · simp [upd, e] at hj; exact inv.full j fj hj
  | dKeep i cur h hc =>
    refine ⟨inv.inj, inv.fresh, ?_, ?_, ?_, inv.pub⟩
    · intro j fj hj
      by_cases e : j = i
      · subst e; simp [upd, fdOf] at hj
      · simp [upd, e] at hj; exact inv.own j fj hj
    · intro j fj kj hj
      by_cases e : j = i
      · subst e; simp [upd] at hj
      · simp [upd, e] at hj; exact inv.prog j fj kj hj
    · intro j fj hj
      by_cases e : j = i
      · subst e; simp [upd, isFull] at hj
      · simp [upd, e] at hj; exact inv.full j fj hj
  | dUnlink i cur h hc =>
    refine ⟨?_, ?_, ?_, ?_, ?_, ?_⟩
    · intro p q n hp hq
      simp only [upd] at hp hq
      split at hp
      · cases hp
      · split at hq
        · cases hq
        · exact inv.inj _ _ _ hp hq
    · intro p n hp
      simp only [upd] at hp
      split at hp
      · cases hp
      · exact inv.fresh _ _ hp
    · intro j fj hj
      by_cases e : j = i
      · subst e; simp [upd, fdOf] at hj
      · simp [upd, e] at hj
        have h1 : S.tmpOf j (S.req j).dst ≠ (S.req i).dst := by
          intro x; have := wf.tmp_staging j (S.req j).dst; rw [x, wf.dst_ns i] at this; cases this
        simp [upd, h1]; exact inv.own j fj hj
    · intro j fj kj hj
      by_cases e : j = i
      · subst e; simp [upd] at hj
      · simp [upd, e] at hj; exact inv.prog j fj kj hj
    · intro j fj hj
      by_cases e : j = i
      · subst e; simp [upd, isFull] at hj
      · simp [upd, e] at hj; exact inv.full j fj hj
    · intro p n hp hn
      simp only [upd] at hn
      split at hn
      · cases hn
      · exact inv.pub p n hp hn

#print axioms step_inv
end Copia.HubConc
