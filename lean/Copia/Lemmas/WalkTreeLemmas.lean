import Copia.Model.WalkTree
import Copia.Lemmas.GenEqLoopsK
/-!
# The stack walk over a tree lists exactly the tree's files, or fails exactly when the tree is not clean
-/
namespace Copia.WalkTree
open Copia.ScanSupport Copia.GenEqLoops

/-- the direct sub-directories of a directory, as the walk pushes them -/
def subdirs (p : List String) : Entries → List Loc
  | .nil => []
  | .cons nm (.dir r es) rest => (p ++ [nm], .dir r es) :: subdirs p rest
  | .cons _ (.leaf _) rest => subdirs p rest
  | .bad rest => subdirs p rest

/-- the direct children that are listed -/
def leafFiles (p : List String) : Entries → List (List String)
  | .nil => []
  | .cons nm (.leaf k) rest => (if k = Kind.file ∨ k = Kind.linkFile then [p ++ [nm]] else []) ++ leafFiles p rest
  | .cons _ (.dir _ _) rest => leafFiles p rest
  | .bad rest => leafFiles p rest

/-- reading the entries themselves raises no error -/
def entriesOK : Entries → Bool
  | .nil => true
  | .cons _ (.leaf k) rest => k != Kind.badType && entriesOK rest
  | .cons _ (.dir _ _) rest => entriesOK rest
  | .bad _ => false

def cleanS (S : List Loc) : Bool := S.all (fun q => clean q.2)
def filesS (S : List Loc) : List (List String) := S.flatMap (fun q => files q.1 q.2)
def dcS (S : List Loc) : Nat := (S.map (fun q => dirCount q.2)).sum
def AllDir (S : List Loc) : Prop := ∀ q ∈ S, ∃ r es, q.2 = Node.dir r es

theorem entsFold_tree (p : List String) : (es : Entries) → (S : List Loc) → (fs : List (List String)) →
    entsFold isFileT stripT (entsOf p es) (S, fs) =
      if entriesOK es then some (S ++ subdirs p es, fs ++ leafFiles p es) else none
  | .nil, S, fs => by simp [entsOf, entsFold, entriesOK, subdirs, leafFiles]
  | .bad rest, S, fs => by simp [entsOf, entsFold, entStep, entriesOK]
  | .cons nm (.dir r es') rest, S, fs => by
      have ih := entsFold_tree p rest (S ++ [(p ++ [nm], Node.dir r es')]) fs
      simp only [entsOf, entsFold, entStep, ftOf, entriesOK, subdirs, leafFiles]
      simp [ih]
      rfl
  | .cons nm (.leaf k) rest, S, fs => by
      cases k with
      | file =>
        have ih := entsFold_tree p rest S (fs ++ [p ++ [nm]])
        simp only [entsOf, entsFold, entStep, ftOf, entriesOK, subdirs, leafFiles, isFileT, stripT]
        simp [ih]
      | linkFile =>
        have ih := entsFold_tree p rest S (fs ++ [p ++ [nm]])
        simp only [entsOf, entsFold, entStep, ftOf, entriesOK, subdirs, leafFiles, isFileT, stripT]
        simp [ih]
      | linkOther =>
        have ih := entsFold_tree p rest S fs
        simp only [entsOf, entsFold, entStep, ftOf, entriesOK, subdirs, leafFiles, isFileT, stripT]
        simp [ih]
      | other =>
        have ih := entsFold_tree p rest S fs
        simp only [entsOf, entsFold, entStep, ftOf, entriesOK, subdirs, leafFiles, isFileT, stripT]
        simp [ih]
      | badType =>
        simp [entsOf, entsFold, entStep, ftOf, entriesOK]

theorem cleanEs_split (p : List String) : (es : Entries) → cleanEs es = (entriesOK es && cleanS (subdirs p es))
  | .nil => by simp [cleanEs, entriesOK, subdirs, cleanS]
  | .bad rest => by simp [cleanEs, entriesOK]
  | .cons nm (.dir r es') rest => by
      have ih := cleanEs_split p rest
      simp only [cleanEs, entriesOK, subdirs, cleanS, List.all_cons, ih] at *
      cases clean (Node.dir r es') <;> cases entriesOK rest <;> simp
  | .cons nm (.leaf k) rest => by
      have ih := cleanEs_split p rest
      simp only [cleanEs, clean, entriesOK, subdirs, ih, Bool.and_assoc]

theorem filesEs_perm (p : List String) : (es : Entries) → (filesEs p es).Perm (leafFiles p es ++ filesS (subdirs p es))
  | .nil => by simp [filesEs, leafFiles, subdirs, filesS]
  | .bad rest => by simpa [filesEs, leafFiles, subdirs] using filesEs_perm p rest
  | .cons nm (.dir r es') rest => by
      have ih := filesEs_perm p rest
      simp only [filesEs, leafFiles, subdirs, filesS, List.flatMap_cons]
      have : (files (p ++ [nm]) (Node.dir r es') ++ filesEs p rest).Perm
          (files (p ++ [nm]) (Node.dir r es') ++ (leafFiles p rest ++ filesS (subdirs p rest))) := List.Perm.append_left _ ih
      refine this.trans ?_
      simp only [filesS, ← List.append_assoc]
      exact List.Perm.append_right _ List.perm_append_comm
  | .cons nm (.leaf k) rest => by
      have ih := filesEs_perm p rest
      simp only [filesEs, files, leafFiles, subdirs, List.append_assoc]
      exact List.Perm.append_left _ ih

theorem dcEs_subdirs (p : List String) : (es : Entries) → dirCountEs es = dcS (subdirs p es)
  | .nil => by simp [dirCountEs, subdirs, dcS]
  | .bad rest => by simpa [dirCountEs, subdirs] using dcEs_subdirs p rest
  | .cons nm (.dir r es') rest => by
      have ih := dcEs_subdirs p rest
      simp only [dirCountEs, subdirs, dcS, List.map_cons, List.sum_cons] at *
      omega
  | .cons nm (.leaf k) rest => by
      have ih := dcEs_subdirs p rest
      simp only [dirCountEs, dirCount, subdirs] at *
      omega

theorem allDir_subdirs (p : List String) : (es : Entries) → AllDir (subdirs p es)
  | .nil => by intro q hq; simp [subdirs] at hq
  | .bad rest => by simpa [subdirs] using allDir_subdirs p rest
  | .cons nm (.dir r es') rest => by
      intro q hq
      simp only [subdirs, List.mem_cons] at hq
      rcases hq with h | h
      · exact ⟨r, es', by rw [h]⟩
      · exact allDir_subdirs p rest q h
  | .cons nm (.leaf k) rest => by simpa [subdirs] using allDir_subdirs p rest

/-- the loop, from any stack of directories with enough fuel -/
theorem walkLoop_tree : ∀ (n : Nat) (S : List Loc) (fs : List (List String)), AllDir S → dcS S < n →
    ∃ l, walkLoop readDirT isFileT stripT n S fs = some (if cleanS S then some l else none) ∧ l.Perm (fs ++ filesS S) := by
  intro n
  induction n with
  | zero => intro S fs _ h; omega
  | succ n ih =>
    intro S fs hd hn
    rcases List.eq_nil_or_concat S with rfl | ⟨S0, d, rfl⟩
    · exact ⟨fs, by simp [walkLoop, cleanS], by simp [filesS]⟩
    · obtain ⟨p, nd⟩ := d
      obtain ⟨r, es, hnd⟩ := hd (p, nd) (by simp)
      simp only at hnd
      subst hnd
      have hdc : dcS (S0 ++ [(p, Node.dir r es)]) = dcS S0 + (1 + dirCountEs es) := by
        simp [dcS, dirCount]
      have hcl : cleanS (S0 ++ [(p, Node.dir r es)]) = (cleanS S0 && (r && cleanEs es)) := by
        simp [cleanS, clean]
      have hfl : filesS (S0 ++ [(p, Node.dir r es)]) = filesS S0 ++ filesEs p es := by
        simp [filesS, files]
      simp only [walkLoop, List.concat_eq_append, List.getLast?_append, List.getLast?_singleton, Option.some_or, List.dropLast_concat] at *
      cases r with
      | false =>
        refine ⟨fs ++ filesS (S0 ++ [(p, Node.dir false es)]), ?_, List.Perm.refl _⟩
        simp [readDirT, hcl]
      | true =>
        simp only [readDirT, entsFold_tree]
        cases hok : entriesOK es with
        | false =>
          refine ⟨fs ++ filesS (S0 ++ [(p, Node.dir true es)]), ?_, List.Perm.refl _⟩
          simp [hcl, cleanEs_split p es, hok]
        | true =>
          simp only [if_true]
          have hd' : AllDir (S0 ++ subdirs p es) := by
            intro q hq
            rcases List.mem_append.mp hq with h | h
            · exact hd q (by simp [h])
            · exact allDir_subdirs p es q h
          have hn' : dcS (S0 ++ subdirs p es) < n := by
            have := dcEs_subdirs p es
            simp only [dcS, List.map_append, List.sum_append] at *
            omega
          obtain ⟨l, hl, hp⟩ := ih (S0 ++ subdirs p es) (fs ++ leafFiles p es) hd' hn'
          refine ⟨l, ?_, ?_⟩
          · have hsplit : cleanS (S0 ++ subdirs p es) = (cleanS S0 && cleanS (subdirs p es)) := by
              unfold cleanS; rw [List.all_append]
            rw [hl, hcl, cleanEs_split p es, hok, hsplit]
            cases cleanS S0 <;> cases cleanS (subdirs p es) <;> rfl
          · refine hp.trans ?_
            rw [hfl]
            have h1 := filesEs_perm p es
            simp only [filesS, List.flatMap_append, List.append_assoc] at *
            refine List.Perm.append_left _ ?_
            refine List.Perm.trans ?_ (List.Perm.append_left _ h1.symm)
            simp only [← List.append_assoc]
            exact List.Perm.append_right _ List.perm_append_comm

end Copia.WalkTree
