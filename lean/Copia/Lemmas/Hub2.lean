import Copia.Model.HubSync
/-! `hget`/`hins` lemma for the hub tree. -/
namespace Copia.Hub

theorem hget_hins (t : HTree) (k q : List (List Char)) (v : Bytes) :
    hget (hins t k v) q = if q = k then some v else hget t q := by
  induction t with
  | nil =>
    by_cases h : q = k
    · subst h; simp [hins, hget]
    · have h' : ¬ k = q := fun e => h e.symm
      simp [hins, hget, h, h']
  | cons e r ih =>
    obtain ⟨k', v'⟩ := e
    unfold hins
    by_cases hk : k' = k
    · subst hk
      by_cases h : q = k'
      · subst h; simp [hget]
      · have h' : ¬ k' = q := fun e => h e.symm
        simp [hget, h, h']
    · simp only [hk, if_false]
      by_cases hq : k' = q
      · subst hq; simp [hget, hk]
      · simp [hget, hq, ih]

end Copia.Hub

