import Copia.Lemmas.Crash1
import Copia.Lemmas.Bisync1
namespace Copia.Crash
open Copia.Reconcile Copia.Bisync

variable {P C : Type} [DecidableEq P] [DecidableEq C]

/-- state invariant between complete delivery groups -/
structure DInv (S : C → Prop) (st : CState P C) : Prop where
  synced : st.unsyncedPublished = false
  archOld : st.arch = .old
  noTmp : st.archTmp = false
  liveA : ∀ p c, get st.A p = some c → S c
  liveB : ∀ p c, get st.B p = some c → S c

def Group.ok (S : C → Prop) : Group P C → Prop
  | .copy _ _ c => S c
  | .unlink _ _ => True

theorem get_del' (t : Tree P C) (p q : P) (c : C) (h : get (del t p) q = some c) : get t q = some c := by
  rw [get_del] at h
  split at h
  · cases h
  · exact h

theorem group_keeps (S : C → Prop) (st : CState P C) (g : Group P C) (inv : DInv S st) (hg : g.ok S) :
    DInv S (g.steps.foldl exec st) := by
  cases g with
  | copy sd p c =>
    cases sd
    · refine ⟨?_, ?_, ?_, ?_, ?_⟩ <;> simp [Group.steps, copySteps, exec, stageGet, stagePut, inv.synced, inv.archOld, inv.noTmp]
      · intro q c' h
        rw [get_ins] at h
        split at h
        · cases h; exact hg
        · exact inv.liveA q c' h
      · exact inv.liveB
    · refine ⟨?_, ?_, ?_, ?_, ?_⟩ <;> simp [Group.steps, copySteps, exec, stageGet, stagePut, inv.synced, inv.archOld, inv.noTmp]
      · exact inv.liveA
      · intro q c' h
        rw [get_ins] at h
        split at h
        · cases h; exact hg
        · exact inv.liveB q c' h
  | unlink sd p =>
    cases sd
    · refine ⟨?_, ?_, ?_, ?_, ?_⟩ <;> simp [Group.steps, exec, inv.synced, inv.archOld, inv.noTmp]
      · intro q c' h; exact inv.liveA q c' (get_del' _ _ _ _ h)
      · exact inv.liveB
    · refine ⟨?_, ?_, ?_, ?_, ?_⟩ <;> simp [Group.steps, exec, inv.synced, inv.archOld, inv.noTmp]
      · exact inv.liveA
      · intro q c' h; exact inv.liveB q c' (get_del' _ _ _ _ h)

theorem groups_keep (S : C → Prop) (gs : List (Group P C)) (st : CState P C) (inv : DInv S st)
    (hg : ∀ g ∈ gs, g.ok S) : DInv S ((gs.flatMap Group.steps).foldl exec st) := by
  induction gs generalizing st with
  | nil => simpa using inv
  | cons g r ih =>
    simp only [List.flatMap_cons, List.foldl_append]
    exact ih _ (group_keeps S st g inv (hg g (by simp))) (fun x hx => hg x (by simp [hx]))

/-- a proper prefix of one group changes no live tree, publishes nothing and leaves the record alone -/
theorem group_partial (st : CState P C) (g : Group P C) (j : Nat) (hj : j < g.steps.length) :
    let r := (g.steps.take j).foldl exec st
    r.A = st.A ∧ r.B = st.B ∧ r.unsyncedPublished = st.unsyncedPublished ∧ r.arch = st.arch := by
  cases g with
  | copy sd p c =>
    have : j = 0 ∨ j = 1 ∨ j = 2 := by simp [Group.steps, copySteps] at hj; omega
    cases sd <;> rcases this with rfl | rfl | rfl <;> simp [Group.steps, copySteps, exec, stageGet, stagePut]
  | unlink sd p =>
    have : j = 0 := by simp [Group.steps] at hj; omega
    subst this; simp

theorem arch_steps_keep_synced (st : CState P C) (hadArchive : Bool) (k : Nat) :
    (((archSteps (P := P) (C := C) hadArchive).take k).foldl exec st).unsyncedPublished = st.unsyncedPublished := by
  cases hadArchive
  · match k with
    | 0 => simp [archSteps]
    | 1 => simp [archSteps, exec]
    | 2 => simp [archSteps, exec]
    | k+3 => simp [archSteps, exec]
  · match k with
    | 0 => simp [archSteps]
    | 1 => simp [archSteps, exec]
    | 2 => simp [archSteps, exec]
    | 3 => simp [archSteps, exec]
    | k+4 => simp [archSteps, exec]

end Copia.Crash
