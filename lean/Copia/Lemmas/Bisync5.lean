import Copia.Lemmas.Bisync4
import Copia.Props.C18
namespace Copia.Bisync
open Copia.Reconcile

variable {P C : Type} [DecidableEq P] [DecidableEq C]

theorem mkFp_inj {a b : C} (h : mkFp a = mkFp b) : a = b := by
  simp [mkFp] at h; exact h

theorem same_mkFp (a b : C) : Fp.same (mkFp a) (mkFp b) = decide (a = b) := by
  rw [Fp.same_eq_decide]
  by_cases h : a = b
  · simp [h]
  · have : mkFp a ≠ mkFp b := fun e => h (mkFp_inj e)
    simp [h, this]

/-- whatever `reconcile_path` chooses for the scanned values, executing it leaves the same content on both sides -/
theorem resolve_eq (ge : C → C → Bool) (x y : Option C) (z : Option (Fp C)) (act : Action)
    (h : act = reconcilePath (x.map mkFp) (y.map mkFp) z) :
    (resolve ge act x y).1 = (resolve ge act x y).2 := by
  subst h
  cases x with
  | none =>
    cases y with
    | none => simp [reconcilePath, resolve]
    | some yb =>
      cases z with
      | none => simp [reconcilePath, resolve]
      | some zv => simp only [reconcilePath, Option.map_some, Option.map_none]; split <;> simp [resolve]
  | some xa =>
    cases y with
    | none =>
      cases z with
      | none => simp [reconcilePath, resolve]
      | some zv => simp only [reconcilePath, Option.map_some, Option.map_none]; split <;> simp [resolve]
    | some yb =>
      simp only [reconcilePath, Option.map_some, same_mkFp]
      by_cases hxy : xa = yb
      · subst hxy
        simp only [decide_true, if_true]
        split
        · split <;> simp [resolve]
        · simp [resolve]
      · simp only [hxy, decide_false, Bool.false_eq_true, if_false]
        cases z with
        | none => simp [resolve]
        | some zv =>
          simp only []
          cases h1 : !Fp.same (mkFp xa) zv <;> cases h2 : !Fp.same (mkFp yb) zv <;> simp [resolve]

theorem noop_eq (x y : Option C) (z : Option (Fp C))
    (h : reconcilePath (x.map mkFp) (y.map mkFp) z = .noop) : x = y := by
  cases x with
  | none =>
    cases y with
    | none => rfl
    | some yb =>
      cases z with
      | none => simp [reconcilePath] at h
      | some zv => simp only [reconcilePath, Option.map_some, Option.map_none] at h; split at h <;> cases h
  | some xa =>
    cases y with
    | none =>
      cases z with
      | none => simp [reconcilePath] at h
      | some zv => simp only [reconcilePath, Option.map_some, Option.map_none] at h; split at h <;> cases h
    | some yb =>
      simp only [reconcilePath, Option.map_some, same_mkFp] at h
      by_cases hxy : xa = yb
      · rw [hxy]
      · simp only [hxy, decide_false, Bool.false_eq_true, if_false] at h
        cases z with
        | none => simp at h
        | some zv =>
          simp only [] at h
          cases h1 : !Fp.same (mkFp xa) zv <;> cases h2 : !Fp.same (mkFp yb) zv <;> simp [h1, h2] at h

/-- C06 (convergence of the live trees): after the whole plan has run, both sides hold the same
thing at every path. -/
theorem runInv_converged (ge : C → C → Bool) (cname : P → C → P) (A0 B0 : Tree P C) (z : P → Option (Fp C))
    (plan : List (P × Action)) (l : Live P C)
    (hact : ∀ p act, (p, act) ∈ plan → act = reconcilePath ((get A0 p).map mkFp) ((get B0 p).map mkFp) (z p))
    (hrest : ∀ q, (∀ act, (q, act) ∉ plan) → reconcilePath ((get A0 q).map mkFp) ((get B0 q).map mkFp) (z q) = .noop)
    (inv : RunInv ge cname A0 B0 plan l) (q : P) : get l.A q = get l.B q := by
  by_cases h1 : ∃ act, (q, act) ∈ plan
  · obtain ⟨act, hm⟩ := h1
    obtain ⟨hA, hB⟩ := inv.atPath q act hm
    rw [hA, hB]
    exact resolve_eq ge _ _ (z q) act (hact q act hm)
  · by_cases h2 : ∃ p act, (p, act) ∈ plan ∧ ccName ge cname p act (get A0 p) (get B0 p) = some q
    · obtain ⟨p, act, hm, hc⟩ := h2
      obtain ⟨xa, yb, _, _, hA, hB⟩ := inv.atCopy p act q hm hc
      rw [hA, hB]
    · have hnt : ¬ touched ge cname A0 B0 plan q := by
        rintro (h | h)
        · exact h1 h
        · exact h2 h
      obtain ⟨hA, hB⟩ := inv.untouched q hnt
      rw [hA, hB]
      exact noop_eq _ _ (z q) (hrest q (fun act hm => h1 ⟨act, hm⟩))

end Copia.Bisync
