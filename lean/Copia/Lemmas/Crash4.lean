import Copia.Lemmas.Crash3
import Copia.Lemmas.Bisync12
namespace Copia.Crash
open Copia.Reconcile Copia.Bisync

variable {P C : Type} [DecidableEq P] [DecidableEq C]

theorem copyB_effect (st : CState P C) (p : P) (c : C) :
    ((copySteps Side.B p c).foldl exec st).A = st.A ∧ ((copySteps Side.B p c).foldl exec st).B = ins st.B p c := by
  simp [copySteps, exec, stageGet, stagePut]

theorem copyA_effect (st : CState P C) (p : P) (c : C) :
    ((copySteps Side.A p c).foldl exec st).A = ins st.A p c ∧ ((copySteps Side.A p c).foldl exec st).B = st.B := by
  simp [copySteps, exec, stageGet, stagePut]

/-- executing all calls of one plan entry: what `apply_local` says about `apply`, for the crash model -/
theorem groups_local (ge : C → C → Bool) (cname : P → C → P) (a b : List (P × Fp C)) (st : CState P C) (p : P)
    (act : Action) (x y : Option C) (hx : get st.A p = x) (hy : get st.B p = y)
    (ha : lookup a p = x.map mkFp) (hb : lookup b p = y.map mkFp) (hs : Shape x y act)
    (hcc : ∀ ln, ccName ge cname p act x y = some ln → ln ≠ p) :
    let st' := ((actionGroups ge cname a b p act).flatMap Group.steps).foldl exec st
    (∀ q, q ≠ p → ccName ge cname p act x y ≠ some q → get st'.A q = get st.A q ∧ get st'.B q = get st.B q) ∧
    get st'.A p = (resolve ge act x y).1 ∧ get st'.B p = (resolve ge act x y).2 ∧
    (∀ ln xa yb, x = some xa → y = some yb → act = .conflict .bothChanged → ln = cname p (loser ge xa yb) →
      get st'.A ln = some (loser ge xa yb) ∧ get st'.B ln = some (loser ge xa yb)) := by
  cases hs with
  | noop => simp [actionGroups, resolve, hx, hy]
  | conv v h1 h2 => subst h1 h2; simp [actionGroups, resolve, hx, hy]
  | ab v h1 =>
    subst h1
    simp only [Option.map_some] at ha
    simp only [actionGroups, ha, List.flatMap_cons, List.flatMap_nil, List.append_nil, Group.steps, mkFp]
    obtain ⟨eA, eB⟩ := copyB_effect st p v
    refine ⟨?_, ?_, ?_, ?_⟩
    · intro q hq _; rw [eA, eB]; exact ⟨rfl, by simp [get_ins, hq]⟩
    · rw [eA]; simpa [resolve] using hx
    · rw [eB]; simp [resolve, get_ins]
    · intro ln xa yb _ _ h3; cases h3
  | ba v h1 =>
    subst h1
    simp only [Option.map_some] at hb
    simp only [actionGroups, hb, List.flatMap_cons, List.flatMap_nil, List.append_nil, Group.steps, mkFp]
    obtain ⟨eA, eB⟩ := copyA_effect st p v
    refine ⟨?_, ?_, ?_, ?_⟩
    · intro q hq _; rw [eA, eB]; exact ⟨by simp [get_ins, hq], rfl⟩
    · rw [eA]; simp [resolve, get_ins]
    · rw [eB]; simpa [resolve] using hy
    · intro ln xa yb _ _ h3; cases h3
  | delA h1 =>
    subst h1
    simp only [actionGroups, List.flatMap_cons, List.flatMap_nil, List.append_nil, Group.steps, List.foldl_cons, List.foldl_nil, exec]
    refine ⟨?_, ?_, ?_, ?_⟩
    · intro q hq _; constructor <;> simp [get_del, hq]
    · simp [resolve, get_del]
    · simpa [resolve] using hy
    · intro ln xa yb _ _ h3; cases h3
  | delB h1 =>
    subst h1
    simp only [actionGroups, List.flatMap_cons, List.flatMap_nil, List.append_nil, Group.steps, List.foldl_cons, List.foldl_nil, exec]
    refine ⟨?_, ?_, ?_, ?_⟩
    · intro q hq _; constructor <;> simp [get_del, hq]
    · simpa [resolve] using hx
    · simp [resolve, get_del]
    · intro ln xa yb _ _ h3; cases h3
  | dvmA v h1 h2 =>
    subst h1 h2
    simp only [Option.map_some, Option.map_none] at ha hb
    simp only [actionGroups, ha, hb, List.flatMap_cons, List.flatMap_nil, List.append_nil, Group.steps, mkFp]
    obtain ⟨eA, eB⟩ := copyB_effect st p v
    refine ⟨?_, ?_, ?_, ?_⟩
    · intro q hq _; rw [eA, eB]; exact ⟨rfl, by simp [get_ins, hq]⟩
    · rw [eA]; simpa [resolve] using hx
    · rw [eB]; simp [resolve, get_ins]
    · intro ln xa yb _ h2' _; cases h2'
  | dvmB v h1 h2 =>
    subst h1 h2
    simp only [Option.map_some, Option.map_none] at ha hb
    simp only [actionGroups, ha, hb, List.flatMap_cons, List.flatMap_nil, List.append_nil, Group.steps, mkFp]
    obtain ⟨eA, eB⟩ := copyA_effect st p v
    refine ⟨?_, ?_, ?_, ?_⟩
    · intro q hq _; rw [eA, eB]; exact ⟨by simp [get_ins, hq], rfl⟩
    · rw [eA]; simp [resolve, get_ins]
    · rw [eB]; simpa [resolve] using hy
    · intro ln xa yb h1' _ _; cases h1'
  | both xa yb h1 h2 =>
    subst h1 h2
    simp only [Option.map_some] at ha hb
    have hne : cname p (loser ge xa yb) ≠ p := hcc _ (by simp [ccName])
    by_cases hg : ge xa yb = true
    · have hl : loser ge xa yb = yb := by simp [loser, hg]
      have hw : winner ge xa yb = xa := by simp [winner, hg]
      rw [hl] at hne
      simp only [actionGroups, ha, hb, mkFp, hg, if_true, List.flatMap_cons, List.flatMap_nil, List.append_nil,
        Group.steps, List.foldl_append]
      obtain ⟨e1A, e1B⟩ := copyB_effect st (cname p yb) yb
      obtain ⟨e2A, e2B⟩ := copyA_effect ((copySteps Side.B (cname p yb) yb).foldl exec st) (cname p yb) yb
      obtain ⟨e3A, e3B⟩ := copyB_effect ((copySteps Side.A (cname p yb) yb).foldl exec ((copySteps Side.B (cname p yb) yb).foldl exec st)) p xa
      refine ⟨?_, ?_, ?_, ?_⟩
      · intro q hq hc
        have hq2 : q ≠ cname p yb := fun e => hc (by simp [ccName, hl, e])
        rw [e3A, e3B, e2A, e2B, e1A, e1B]
        exact ⟨by simp [get_ins, hq2], by simp [get_ins, hq, hq2]⟩
      · rw [e3A, e2A, e1A]
        have : ¬ p = cname p yb := fun e => hne e.symm
        simp [get_ins, this, resolve, hw, hx]
      · rw [e3B]; simp [get_ins, resolve, hw]
      · intro ln xa' yb' h1' h2' _ h4
        cases h1'; cases h2'
        rw [hl] at h4 ⊢
        subst h4
        rw [e3A, e3B, e2A, e2B, e1B]
        exact ⟨by simp [get_ins], by simp [get_ins, hne]⟩
    · have hg' : ge xa yb = false := by simpa using hg
      have hl : loser ge xa yb = xa := by simp [loser, hg']
      have hw : winner ge xa yb = yb := by simp [winner, hg']
      rw [hl] at hne
      simp only [actionGroups, ha, hb, mkFp, hg', Bool.false_eq_true, if_false, List.flatMap_cons, List.flatMap_nil,
        List.append_nil, Group.steps, List.foldl_append]
      obtain ⟨e1A, e1B⟩ := copyA_effect st (cname p xa) xa
      obtain ⟨e2A, e2B⟩ := copyB_effect ((copySteps Side.A (cname p xa) xa).foldl exec st) (cname p xa) xa
      obtain ⟨e3A, e3B⟩ := copyA_effect ((copySteps Side.B (cname p xa) xa).foldl exec ((copySteps Side.A (cname p xa) xa).foldl exec st)) p yb
      refine ⟨?_, ?_, ?_, ?_⟩
      · intro q hq hc
        have hq2 : q ≠ cname p xa := fun e => hc (by simp [ccName, hl, e])
        rw [e3A, e3B, e2A, e2B, e1A, e1B]
        exact ⟨by simp [get_ins, hq, hq2], by simp [get_ins, hq2]⟩
      · rw [e3A]; simp [get_ins, resolve, hw]
      · rw [e3B, e2B, e1B]
        have : ¬ p = cname p xa := fun e => hne e.symm
        simp [get_ins, this, resolve, hw, hy]
      · intro ln xa' yb' h1' h2' _ h4
        cases h1'; cases h2'
        rw [hl] at h4 ⊢
        subst h4
        rw [e3A, e3B, e2A, e2B, e1A]
        exact ⟨by simp [get_ins, hne], by simp [get_ins]⟩

end Copia.Crash
