import Copia.Lemmas.Bisync14
/-! `bisync` under `BenignClash`; membership in the plan; paths whose two sides already agree. -/
namespace Copia.Bisync
open Copia.Reconcile

variable {P C : Type} [DecidableEq P] [DecidableEq C]

/-- a whole run under BenignClash: it completes and its live trees satisfy the invariant for the whole plan -/
theorem bisync_runB (le : P → P → Bool)
    (trans : ∀ a b c, le a b → le b c → le a c) (total : ∀ a b, le a b || le b a)
    (antisymm : ∀ a b, le a b → le b a → a = b) (ge : C → C → Bool) (cname : P → C → P) (s : State P C)
    (bc : BenignClash ge cname s.A s.B (bisyncPlan le s)) :
    (bisync le ge cname s).status ≠ .ioError ∧
    ∃ l, RunInvB ge cname s.A s.B (bisyncPlan le s) (bisyncPlan le s) l ∧
      (bisync le ge cname s).state.A = l.A ∧ (bisync le ge cname s).state.B = l.B := by
  obtain ⟨hact, _, hnd, _⟩ := plan_facts le trans total antisymm s
  obtain ⟨l', n', hrun, inv⟩ := run_planB ge cname s.A s.B (baseOf s) (bisyncPlan le s) hact hnd bc
    (bisyncPlan le s) []
    { A := s.A, B := s.B, common := (s.arch.getD []).filter fun e => (lookup (scan s.A) e.1).isSome || (lookup (scan s.B) e.1).isSome }
    0 (by simp) (runInvB_init ge cname s.A s.B _ bc _)
  unfold bisyncPlan at hrun
  unfold bisync
  simp only [hrun, if_true]
  refine ⟨?_, l', inv, rfl, rfl⟩
  split <;> simp

/-- membership in the plan `bisync` computes -/
theorem mem_plan_iff (le : P → P → Bool) (s : State P C) (p : P) (act : Action) :
    (p, act) ∈ bisyncPlan le s ↔
      (get s.A p ≠ none ∨ get s.B p ≠ none) ∧
      act = reconcilePath ((get s.A p).map mkFp) ((get s.B p).map mkFp) (baseOf s p) ∧ act ≠ .noop := by
  unfold bisyncPlan baseOf
  rw [Copia.C18.mem_reconcile, lookup_scan, lookup_scan]
  have k1 : p ∈ (scan s.A).map (·.1) ↔ get s.A p ≠ none := by
    rw [← lookup_isSome_iff, lookup_scan]
    cases get s.A p <;> simp
  have k2 : p ∈ (scan s.B).map (·.1) ↔ get s.B p ≠ none := by
    rw [← lookup_isSome_iff, lookup_scan]
    cases get s.B p <;> simp
  rw [k1, k2]

/-- when both sides hold the same thing, `reconcile_path` plans nothing or a record-only entry, which leaves both as they are -/
theorem resolve_same (ge : C → C → Bool) (v : Option C) (z : Option (Fp C)) :
    resolve ge (reconcilePath (v.map mkFp) (v.map mkFp) z) v v = (v, v) := by
  cases v with
  | none => cases z <;> simp [reconcilePath, resolve]
  | some c =>
    simp only [reconcilePath, Option.map_some, same_mkFp, decide_true, if_true]
    split
    · split <;> simp [resolve]
    · simp [resolve]

/-- a path at which both sides already agree (and that no conflict copy of this run is written to) comes out unchanged -/
theorem equal_sides_stay (ge : C → C → Bool) (cname : P → C → P) (le : P → P → Bool) (s : State P C)
    (trans : ∀ a b c, le a b → le b c → le a c) (total : ∀ a b, le a b || le b a)
    (antisymm : ∀ a b, le a b → le b a → a = b)
    (l : Live P C) (inv : RunInvB ge cname s.A s.B (bisyncPlan le s) (bisyncPlan le s) l) (q : P) (v : Option C)
    (hA : get s.A q = v) (hB : get s.B q = v)
    (hnc : ∀ p' act', (p', act') ∈ bisyncPlan le s → ccName ge cname p' act' (get s.A p') (get s.B p') ≠ some q) :
    get l.A q = v ∧ get l.B q = v := by
  obtain ⟨hact, _, _, _⟩ := plan_facts le trans total antisymm s
  by_cases h1 : ∃ act, (q, act) ∈ bisyncPlan le s
  · obtain ⟨act, hm⟩ := h1
    obtain ⟨a1, b1⟩ := inv.atPath q act hm hnc
    have := hact q act hm
    rw [hA, hB] at this a1 b1
    rw [this, resolve_same] at a1 b1
    exact ⟨a1, b1⟩
  · have hnt : ¬ touched ge cname s.A s.B (bisyncPlan le s) q := by
      rintro (h | ⟨p, act, hm, hc⟩)
      · exact h1 h
      · exact hnc p act hm hc
    obtain ⟨a1, b1⟩ := inv.untouched q hnt
    exact ⟨a1.trans hA, b1.trans hB⟩

/-- a conflict entry of the plan has two different contents at its path -/
theorem conflict_entry_differs (le : P → P → Bool) (s : State P C)
    (trans : ∀ a b c, le a b → le b c → le a c) (total : ∀ a b, le a b || le b a)
    (antisymm : ∀ a b, le a b → le b a → a = b) (ge : C → C → Bool) (cname : P → C → P)
    (p : P) (act : Action) (ln : P) (hm : (p, act) ∈ bisyncPlan le s)
    (hc : ccName ge cname p act (get s.A p) (get s.B p) = some ln) :
    ∃ xa yb, get s.A p = some xa ∧ get s.B p = some yb ∧ xa ≠ yb ∧ act = .conflict .bothChanged ∧
      ln = cname p (loser ge xa yb) := by
  obtain ⟨hact, _, _, _⟩ := plan_facts le trans total antisymm s
  obtain ⟨xa, yb, e1, e2, e3, e4⟩ := ccName_some ge cname p act _ _ ln hc
  refine ⟨xa, yb, e1, e2, ?_, e3, e4⟩
  intro e
  subst e
  have := hact p act hm
  rw [e1, e2] at this
  rw [e3] at this
  exact benign_not_both (some xa) (some xa) xa (Or.inr rfl) (Or.inr rfl) _ this.symm

end Copia.Bisync
