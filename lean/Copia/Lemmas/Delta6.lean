import Copia.Lemmas.Delta5
namespace Copia.Delta

/-- Phase 1 + switch: while whole blocks of the common prefix remain the scan copies them; from the
first block that leaves the prefix on, phase 2 bounds the literals. -/
theorem tscan_edit (bs : Nat) (hbs : 0 < bs) (pre cut mid post : List Nat) (J : Nat)
    (hJ : (pre ++ cut ++ post).length = J * bs) :
    ∀ (fuel m : Nat) (rest : List Nat) (rops : List Op), rest = (pre ++ mid ++ post).drop (m * bs) →
      m * bs ≤ pre.length → rest.length < fuel →
      litR (tscan bs (pre ++ cut ++ post) fuel rest rops) ≤ litR rops + (mid.length + 2 * bs)
  | 0, _, _, _, _, _, h => by omega
  | fuel+1, m, rest, rops, hr, hm, hl => by
    have hsl : (pre ++ mid ++ post).length = pre.length + mid.length + post.length := by simp only [List.length_append]
    have hbl : (pre ++ cut ++ post).length = pre.length + cut.length + post.length := by simp only [List.length_append]
    by_cases hin : (m + 1) * bs ≤ pre.length
    · -- a whole block of the prefix: it is block m of the basis, so the scan copies it
      rw [Nat.add_mul, Nat.one_mul] at hin
      have hlen : rest.length = (pre ++ mid ++ post).length - m * bs := by rw [hr, List.length_drop]
      have hwin : ((pre ++ cut ++ post).drop (m * bs)).take bs = rest.take bs := by
        rw [hr, List.append_assoc, List.append_assoc, drop_take_append_left _ _ _ _ hin,
          drop_take_append_left _ _ _ _ hin]
      obtain ⟨j, hj⟩ := firstEq_some_of_block bs hbs (rest.take bs) (pre ++ cut ++ post).length 0
        (pre ++ cut ++ post) m (by omega) (Nat.le_refl _) hwin
      unfold tscan
      have hle : bs ≤ rest.length := by omega
      simp only [hle, if_true, hj]
      have := tscan_edit bs hbs pre cut mid post J hJ fuel (m + 1) (rest.drop bs) (pushCopy rops (j * bs) bs)
        (by rw [hr, List.drop_drop, Nat.add_mul, Nat.one_mul]) (by rw [Nat.add_mul, Nat.one_mul]; omega)
        (by rw [List.length_drop]; omega)
      rwa [litR_pushCopy] at this
    · -- switch to phase 2 with the first aligned offset of `post` as the target
      rw [Nat.add_mul, Nat.one_mul] at hin
      obtain ⟨d, hdd⟩ : ∃ d, d = pre.length + cut.length := ⟨_, rfl⟩
      obtain ⟨e, hee⟩ : ∃ e, e = pre.length + mid.length := ⟨_, rfl⟩
      obtain ⟨q, hq1, hq2⟩ : ∃ q, d ≤ q * bs ∧ q * bs < d + bs := by
        refine ⟨(d + bs - 1) / bs, ?_, ?_⟩
        · have hq := Nat.div_add_mod (d + bs - 1) bs
          have hr2 : (d + bs - 1) % bs < bs := Nat.mod_lt _ hbs
          rw [Nat.mul_comm] at hq
          omega
        · have hq := Nat.div_add_mod (d + bs - 1) bs
          rw [Nat.mul_comm] at hq
          omega
      have hb : (pre ++ cut ++ post).drop d = post := by
        rw [hdd, ← List.length_append]; exact List.drop_left
      have hs : (pre ++ mid ++ post).drop e = post := by
        rw [hee, ← List.length_append]; exact List.drop_left
      have := tscan_budget bs hbs (pre ++ cut ++ post) (pre ++ mid ++ post) post d e J hb hs
        (by omega) (by omega) hJ
        (fuel + 1) (m * bs) (e + q * bs - d - m * bs) q rest rops hr hl (by omega)
        (by omega) (by omega)
      have hbud : e + q * bs - d - m * bs ≤ mid.length + 2 * bs := by omega
      omega

/-- C16 (edit bound): inserting, deleting or replacing — any `mid` put where `cut` was, in a basis
whose length is a multiple of the block size — costs at most `|mid|` plus two blocks of literal data
under the textbook greedy scan. -/
theorem textbook_edit_bound (bs : Nat) (hbs : 0 < bs) (pre cut mid post : List Nat)
    (hal : (pre ++ cut ++ post).length % bs = 0) :
    literalBytes (textbook bs (pre ++ cut ++ post) (pre ++ mid ++ post)) ≤ mid.length + 2 * bs := by
  have hJ : (pre ++ cut ++ post).length = ((pre ++ cut ++ post).length / bs) * bs := by
    have := Nat.div_add_mod (pre ++ cut ++ post).length bs
    rw [hal, Nat.add_zero, Nat.mul_comm] at this
    exact this.symm
  unfold textbook
  rw [literalBytes_finish]
  have := tscan_edit bs hbs pre cut mid post _ hJ ((pre ++ mid ++ post).length + 1) 0 (pre ++ mid ++ post) []
    (by simp) (by simp) (by omega)
  simpa [litR] using this

end Copia.Delta
