import Copia.Gen.LoopsDelta
/-!
# `Delta::push_copy / push_literal / push_literal_byte` as translated from the source = the model's accumulator operations

The source works on `self.ops`, oldest first, through `last_mut()`; the model keeps the list reversed, with each
literal's bytes reversed too (O(1) appends), and `finish` restores the order. The scan theorems use the model's
operations; these lemmas say they ARE the source's methods seen through `finish`.
-/
namespace Copia.GenEqLoops
open Copia.Delta Copia.DeltaSupport

def unrev : Op → Op
  | .literal d => .literal d.reverse
  | op => op

theorem finish_eq (rops : List Op) : finish rops = rops.reverse.map unrev := by
  unfold finish; congr 1

theorem finish_cons (op : Op) (t : List Op) : finish (op :: t) = finish t ++ [unrev op] := by
  simp [finish_eq]

theorem getLast_finish_cons (op : Op) (t : List Op) : (finish (op :: t)).getLast? = some (unrev op) := by
  rw [finish_cons]; simp

theorem dropLast_finish_cons (op : Op) (t : List Op) : (finish (op :: t)).dropLast = finish t := by
  rw [finish_cons]; simp

theorem pushCopy_fwd (rops : List Op) (off len : Nat) :
    finish (pushCopy rops off len) = Copia.Gen.Loops.pushCopyFwd (finish rops) off len := by
  unfold Copia.Gen.Loops.pushCopyFwd
  cases rops with
  | nil => simp [pushCopy, finish_eq, Id.run]; rfl
  | cons op t =>
    cases op with
    | literal d =>
      simp only [pushCopy, getLast_finish_cons, unrev, Id.run, bind, pure]
      rw [finish_cons (Op.copy off len)]
      rfl
    | copy poff plen =>
      simp only [pushCopy, getLast_finish_cons, dropLast_finish_cons, unrev, Id.run, bind, pure, id, checkedAdd32, U32MAX]
      by_cases h1 : poff + plen = off
      · by_cases h2 : plen + len ≤ 4294967295
        · simp [h1, h2, finish_cons, unrev]
        · simp [h1, h2, finish_cons, unrev]
      · simp [h1, finish_cons, unrev]

theorem pushLiteralByte_fwd (rops : List Op) (b : Nat) :
    finish (pushLiteralByte rops b) = Copia.Gen.Loops.pushLiteralByteFwd (finish rops) b := by
  unfold Copia.Gen.Loops.pushLiteralByteFwd
  cases rops with
  | nil => simp [pushLiteralByte, finish_eq, Id.run]; rfl
  | cons op t =>
    cases op with
    | literal d => simp [pushLiteralByte, getLast_finish_cons, dropLast_finish_cons, unrev, Id.run, finish_cons, pure]
    | copy poff plen =>
      simp only [pushLiteralByte, getLast_finish_cons, unrev, Id.run, bind, pure]
      rw [finish_cons (Op.literal [b])]
      rfl

theorem pushLiteral_fwd (rops : List Op) (data : List Nat) :
    finish (pushLiteral rops data) = Copia.Gen.Loops.pushLiteralFwd (finish rops) data := by
  unfold Copia.Gen.Loops.pushLiteralFwd pushLiteral
  by_cases he : data.isEmpty = true
  · simp [he, Id.run, pure]
  · simp only [he, Bool.false_eq_true, if_false]
    cases rops with
    | nil => simp [finish_eq, Id.run, unrev, pure]
    | cons op t =>
      cases op with
      | literal d => simp [getLast_finish_cons, dropLast_finish_cons, unrev, Id.run, finish_cons, pure]
      | copy poff plen =>
        simp only [getLast_finish_cons, unrev, Id.run, bind, pure]
        rw [finish_cons (Op.literal data.reverse)]
        simp [unrev]

end Copia.GenEqLoops
