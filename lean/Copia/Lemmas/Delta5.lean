import Copia.Lemmas.Delta4
namespace Copia.Delta

theorem drop_take_append_left (a b : List Nat) (i n : Nat) (h : i + n ≤ a.length) :
    ((a ++ b).drop i).take n = (a.drop i).take n := by
  rw [List.drop_append_of_le_length (by omega)]
  rw [List.take_append_of_le_length (by rw [List.length_drop]; omega)]

/-- Phase 2 of the edit bound: from any position, if `pos + budget` is a source offset whose basis
counterpart is block-aligned inside the shared suffix `post`, the scan emits at most `budget`
further literal bytes. -/
theorem tscan_budget (bs : Nat) (hbs : 0 < bs) (basis src post : List Nat) (d e J : Nat)
    (hb : basis.drop d = post) (hs : src.drop e = post) (hd : d ≤ basis.length) (he : e ≤ src.length)
    (hJ : basis.length = J * bs) :
    ∀ (fuel pos budget j : Nat) (rest : List Nat) (rops : List Op), rest = src.drop pos → rest.length < fuel →
      pos ≤ src.length → pos + budget + d = e + j * bs → e ≤ pos + budget →
      litR (tscan bs basis fuel rest rops) ≤ litR rops + budget
  | 0, _, _, _, _, _, _, h, _, _, _ => by omega
  | fuel+1, pos, budget, j, rest, rops, hr, hl, hpos, hj, hge => by
    have hlen : rest.length = src.length - pos := by rw [hr, List.length_drop]
    have hpostlen : post.length = src.length - e := by rw [← hs, List.length_drop]
    have hblen : basis.length = d + post.length := by rw [← hb, List.length_drop]; omega
    unfold tscan
    by_cases hle : bs ≤ rest.length
    · simp only [hle, if_true]
      cases hf : firstEq bs basis.length 0 basis (rest.take bs) with
      | some j' =>
        simp only []
        have := tscan_budget bs hbs basis src post d e J hb hs hd he hJ fuel (pos + bs) budget (j + 1)
          (rest.drop bs) (pushCopy rops (j' * bs) bs)
          (by rw [hr, List.drop_drop]) (by rw [List.length_drop]; omega) (by omega)
          (by rw [Nat.add_mul, Nat.one_mul]; omega) (by omega)
        rwa [litR_pushCopy] at this
      | none =>
        simp only []
        by_cases hb0 : budget = 0
        · exfalso
          subst hb0
          have hjb : j * bs = d + (pos - e) := by omega
          have hwin : (basis.drop (j * bs)).take bs = rest.take bs := by
            rw [hjb, ← List.drop_drop, hb, hr]
            have : pos = e + (pos - e) := by omega
            rw [this, ← List.drop_drop, hs]
            congr 2; omega
          obtain ⟨j2, hj2⟩ := firstEq_some_of_block bs hbs (rest.take bs) basis.length 0 basis j
            (by omega) (Nat.le_refl _) hwin
          rw [hf] at hj2; cases hj2
        · cases hrest : rest with
          | nil => rw [hrest] at hle; simp at hle; omega
          | cons x rest' =>
            simp only []
            have hr' : rest' = src.drop (pos + 1) := by
              have : rest.drop 1 = rest' := by rw [hrest]; rfl
              rw [← this, hr, List.drop_drop]
            have := tscan_budget bs hbs basis src post d e J hb hs hd he hJ fuel (pos + 1) (budget - 1) j
              rest' (pushLiteralByte rops x) hr'
              (by rw [hrest] at hl; simp at hl; omega)
              (by rw [hrest] at hlen; simp at hlen; omega) (by omega) (by omega)
            rw [litR_pushLiteralByte] at this
            omega
    · simp only [hle, if_false]
      rw [litR_pushLiteral]
      -- the tail: src.length is itself aligned, so fewer than bs bytes remain only if at most `budget` do
      have hn : src.length + d = e + J * bs := by omega
      apply Nat.add_le_add_left
      apply Classical.byContradiction
      intro hlt
      have h1 : j * bs < J * bs := by omega
      have h2 : j < J := Nat.lt_of_mul_lt_mul_right h1
      have h3 : (j + 1) * bs ≤ J * bs := Nat.mul_le_mul_right bs h2
      rw [Nat.add_mul, Nat.one_mul] at h3
      omega

end Copia.Delta
