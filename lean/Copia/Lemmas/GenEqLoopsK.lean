import Copia.Gen.LoopsScan
import Copia.Lemmas.GenEqLoops2
/-!
# `transfer.rs::discover_local_files`, as translated from the source = a stack walk written by recursion
-/
namespace Copia.GenEqLoops
open Copia.ScanSupport

variable {P R : Type}

/-- one directory entry: `none` = the walk fails here -/
def entStep (is_file : P → Bool) (strip : P → Option R) (st : List P × List R) (e : Option (Ent P)) : Option (List P × List R) :=
  match e with
  | none => none
  | some e =>
    match e.ft with
    | none => none
    | some ft =>
      if ft == FT.dir then some (st.1 ++ [e.path], st.2)
      else if (ft == FT.file) || ((ft == FT.symlink) && is_file e.path) then
        match strip e.path with
        | none => none
        | some rel => some (st.1, st.2 ++ [rel])
      else some st

def entsFold (is_file : P → Bool) (strip : P → Option R) : List (Option (Ent P)) → List P × List R → Option (List P × List R)
  | [], st => some st
  | e :: es, st =>
    match entStep is_file strip st e with
    | none => none
    | some st' => entsFold is_file strip es st'

/-- the `while let Some(dir) = dirs.pop()` loop: outer none = fuel exhausted, inner none = the walk fails -/
def walkLoop (read_dir : P → Option (List (Option (Ent P)))) (is_file : P → Bool) (strip : P → Option R) :
    Nat → List P → List R → Option (Option (List R))
  | 0, _, _ => none
  | n + 1, dirs, files =>
    match dirs.getLast? with
    | none => some (some files)
    | some d =>
      match read_dir d with
      | none => some none
      | some es =>
        match entsFold is_file strip es (dirs.dropLast, files) with
        | none => some none
        | some st => walkLoop read_dir is_file strip n st.1 st.2

/-- a `for` over a list whose body may leave early -/
def listIter {α σ : Type} (g : α → σ → ForInStep σ) : List α → σ → σ
  | [], s => s
  | a :: l, s => match g a s with
    | .done s' => s'
    | .yield s' => listIter g l s'

theorem forIn_list_iter {α σ : Type} (f : α → σ → Id (ForInStep σ)) (g : α → σ → ForInStep σ)
    (hf : ∀ a s, f a s = pure (g a s)) : ∀ (l : List α) (s : σ), forIn (m := Id) l s f = pure (listIter g l s) := by
  intro l
  induction l with
  | nil => intro s; rfl
  | cons a l ih =>
    intro s
    rw [List.forIn_cons, hf]
    simp only [pure_bind, listIter]
    cases g a s with
    | done s' => rfl
    | yield s' => exact ih s'

abbrev Ret (R : Type) := Option (Option (Option (List R)))

/-- the inner loop's body over its state (early return slot, files, dirs) -/
def entG (is_file : P → Bool) (strip : P → Option R) (e : Option (Ent P)) (s : Ret R × List R × List P) : ForInStep (Ret R × List R × List P) :=
  match entStep is_file strip (s.2.2, s.2.1) e with
  | none => .done (some (some none), s.2.1, s.2.2)
  | some st => .yield (none, st.2, st.1)

/-- the outer loop's body over its state (early return slot, files, dirs, fin) -/
def walkStep (read_dir : P → Option (List (Option (Ent P)))) (is_file : P → Bool) (strip : P → Option R)
    (s : Ret R × List R × List P × Bool) : ForInStep (Ret R × List R × List P × Bool) :=
  match s.2.2.1.getLast? with
  | none => .done (none, s.2.1, s.2.2.1, true)
  | some dir =>
    match read_dir dir with
    | none => .done (some (some none), s.2.1, s.2.2.1.dropLast, s.2.2.2)
    | some entries =>
      let r := listIter (entG is_file strip) entries (none, s.2.1, s.2.2.1.dropLast)
      match r.1 with
      | some x => .done (some x, r.2.1, r.2.2, s.2.2.2)
      | none => .yield (none, r.2.1, r.2.2, s.2.2.2)

theorem walkStep_def (read_dir : P → Option (List (Option (Ent P)))) (is_file : P → Bool) (strip : P → Option R)
    (s : Ret R × List R × List P × Bool) : walkStep read_dir is_file strip s =
  (match s.2.2.1.getLast? with
  | none => .done (none, s.2.1, s.2.2.1, true)
  | some dir =>
    match read_dir dir with
    | none => .done (some (some none), s.2.1, s.2.2.1.dropLast, s.2.2.2)
    | some entries =>
      let r := listIter (entG is_file strip) entries (none, s.2.1, s.2.2.1.dropLast)
      match r.1 with
      | some x => .done (some x, r.2.1, r.2.2, s.2.2.2)
      | none => .yield (none, r.2.1, r.2.2, s.2.2.2)) := rfl

theorem discoverFiles_iter (read_dir : P → Option (List (Option (Ent P)))) (is_file : P → Bool) (strip : P → Option R)
    (le : R → R → Bool) (fuel : Nat) (root : P) :
    Copia.Gen.Loops.discoverFilesGen read_dir is_file strip le fuel root =
      (let r := iter (walkStep read_dir is_file strip) fuel (none, [], [root], false)
       match r.1 with
       | some x => x
       | none => if !r.2.2.2 then none else some (some (r.2.1.mergeSort le))) := by
  unfold Copia.Gen.Loops.discoverFilesGen
  have e := forIn_replicate (walkStep read_dir is_file strip)
  simp only [Id.run] at e ⊢
  rw [e]
  rotate_left
  · intro u s
    rw [walkStep_def]
    cases hgl : s.2.2.1.getLast? with
    | none => rfl
    | some dir =>
      dsimp only
      cases hrd : read_dir dir with
      | none => rfl
      | some entries =>
        dsimp only
        rw [forIn_list_iter _ (entG is_file strip) (by
          intro a s'
          unfold entG entStep
          cases a with
          | none => rfl
          | some en =>
            cases hft : en.ft with
            | none => simp only [hft]
            | some ft =>
              simp only [hft]
              by_cases h1 : (ft == FT.dir) = true
              · simp only [h1, if_true]
              · by_cases h2 : ((ft == FT.file) || ((ft == FT.symlink) && is_file en.path)) = true
                · simp only [h1, h2, if_true, if_false, Bool.false_eq_true]
                  cases strip en.path <;> rfl
                · simp only [h1, h2, if_false, Bool.false_eq_true])]
        simp only [pure_bind]
        generalize listIter (entG is_file strip) entries (none, s.2.1, s.2.2.1.dropLast) = X
        obtain ⟨a, b, c⟩ := X
        cases a <;> rfl
  simp only [pure_bind]
  generalize iter (walkStep read_dir is_file strip) fuel (none, [], [root], false) = X
  obtain ⟨a, b, c, d⟩ := X
  cases a with
  | none => cases d <;> rfl
  | some x => rfl

theorem listIter_entG (is_file : P → Bool) (strip : P → Option R) :
    ∀ (es : List (Option (Ent P))) (files : List R) (dirs : List P),
      (match entsFold is_file strip es (dirs, files) with
       | some st => listIter (entG is_file strip) es (none, files, dirs) = (none, st.2, st.1)
       | none => (listIter (entG is_file strip) es (none, files, dirs)).1 = some (some none)) := by
  intro es
  induction es with
  | nil => intro files dirs; rfl
  | cons e es ih =>
    intro files dirs
    simp only [entsFold, listIter, entG]
    cases h : entStep is_file strip (dirs, files) e with
    | none => rfl
    | some st => exact ih st.2 st.1

/-- what the translated function returns, read off the outer loop's final state -/
def walkFinal (le : R → R → Bool) (r : Ret R × List R × List P × Bool) : Option (Option (List R)) :=
  match r.1 with
  | some x => x
  | none => if !r.2.2.2 then none else some (some (r.2.1.mergeSort le))

theorem iter_walk (read_dir : P → Option (List (Option (Ent P)))) (is_file : P → Bool) (strip : P → Option R) (le : R → R → Bool) :
    ∀ (n : Nat) (dirs : List P) (files : List R),
      walkFinal le (iter (walkStep read_dir is_file strip) n (none, files, dirs, false)) =
        (walkLoop read_dir is_file strip n dirs files).map (·.map (·.mergeSort le)) := by
  intro n
  induction n with
  | zero => intro dirs files; rfl
  | succ n ih =>
    intro dirs files
    simp only [iter, walkLoop, walkStep_def]
    cases hgl : dirs.getLast? with
    | none => rfl
    | some d =>
      dsimp only
      cases hrd : read_dir d with
      | none => rfl
      | some es =>
        dsimp only
        have hl := listIter_entG is_file strip es files dirs.dropLast
        cases hf : entsFold is_file strip es (dirs.dropLast, files) with
        | none =>
          rw [hf] at hl
          dsimp only at hl
          generalize listIter (entG is_file strip) es (none, files, dirs.dropLast) = X at hl
          obtain ⟨a, b, c⟩ := X
          dsimp only at hl
          subst hl
          rfl
        | some st =>
          rw [hf] at hl
          dsimp only at hl
          rw [hl]
          exact ih st.1 st.2

/-- **`discover_local_files` translated = the recursive stack walk, sorted** -/
theorem discoverFiles_eq (read_dir : P → Option (List (Option (Ent P)))) (is_file : P → Bool) (strip : P → Option R)
    (le : R → R → Bool) (fuel : Nat) (root : P) :
    Copia.Gen.Loops.discoverFilesGen read_dir is_file strip le fuel root =
      (walkLoop read_dir is_file strip fuel [root] []).map (·.map (·.mergeSort le)) := by
  rw [discoverFiles_iter, ← iter_walk]
  rfl

end Copia.GenEqLoops
