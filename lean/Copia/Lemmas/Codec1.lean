import Copia.Model.Codec
namespace Copia.Codec

theorem le_length (k n : Nat) : (le k n).length = k := by
  induction k generalizing n with
  | zero => rfl
  | succ k ih => simp [le, ih]

theorem ofLe_le (k n : Nat) (h : n < 256 ^ k) : ofLe (le k n) = n := by
  induction k generalizing n with
  | zero => simp [le, ofLe]; simp at h; exact h.symm
  | succ k ih =>
    have h2 : n / 256 < 256 ^ k := by
      rw [Nat.pow_succ] at h
      exact Nat.div_lt_of_lt_mul (by rw [Nat.mul_comm]; exact h)
    simp only [le, ofLe, ih _ h2]
    omega

theorem le_bytes (k n : Nat) : ∀ b ∈ le k n, b < 256 := by
  induction k generalizing n with
  | zero => intro b hb; cases hb
  | succ k ih =>
    intro b hb
    simp only [le, List.mem_cons] at hb
    rcases hb with rfl | hb
    · exact Nat.mod_lt _ (by decide)
    · exact ih _ b hb

theorem rdN_append (b r : Bytes) : rdN b.length (b ++ r) = some (b, r) := by
  unfold rdN
  simp

theorem rdN_append' (k : Nat) (b r : Bytes) (h : b.length = k) : rdN k (b ++ r) = some (b, r) := by
  subst h; exact rdN_append b r

theorem rdInt_le (k n : Nat) (r : Bytes) (h : n < 256 ^ k) : rdInt k (le k n ++ r) = some (n, r) := by
  unfold rdInt
  rw [rdN_append' k _ r (le_length k n)]
  simp [ofLe_le k n h]

theorem rdBytes_wr (b r : Bytes) (h : b.length < 256 ^ 8) : rdBytes (wrBytes b ++ r) = some (b, r) := by
  unfold rdBytes wrBytes
  rw [List.append_assoc, rdInt_le 8 _ _ h]
  exact rdN_append b r

theorem rdMany_enc {α} (p : P α) (enc : α → Bytes) (xs : List α) (r : Bytes)
    (h : ∀ x ∈ xs, ∀ r', p (enc x ++ r') = some (x, r')) :
    rdMany p xs.length ((xs.map enc).flatten ++ r) = some (xs, r) := by
  induction xs with
  | nil => simp [rdMany]
  | cons x t ih =>
    simp only [List.length_cons, List.map_cons, List.flatten_cons, List.append_assoc, rdMany]
    rw [h x (List.mem_cons_self ..)]
    simp only []
    rw [ih (fun y hy => h y (List.mem_cons_of_mem _ hy))]

end Copia.Codec
