import Copia.Gen.LoopsDelta
/-!
# `SignatureTable::from_signature / find_match / has_weak_match`, as translated from the source = the scans' lookup functions

The scan translations (`Gen.Loops.scan*`) go through `DeltaSupport.hasWeak` / `findStrong` (is there a block with this weak
hash; the FIRST such block, in block order, whose strong hash is that of the window). The source keeps a two-level index:
weak hash ↦ positions, in the order the blocks were pushed.
-/
namespace Copia.GenEqLoops
open Copia.Delta Copia.DeltaSupport

variable {D : Type}

/-- the index after pushing the blocks `bs`, numbered from `off`, onto `idx` -/
def pushAll (idx : List (Nat × List Nat)) : Nat → List (BlockSig D) → List (Nat × List Nat)
  | _, [] => idx
  | off, b :: bs => pushAll (idxPush idx b.weak off) (off + 1) bs

/-- positions (numbered from `off`) of the blocks with weak hash `w` -/
def positions (w : Nat) : Nat → List (BlockSig D) → List Nat
  | _, [] => []
  | off, b :: bs => if b.weak = w then off :: positions w (off + 1) bs else positions w (off + 1) bs

theorem table_forIn (f : Nat × BlockSig D → List (Nat × List Nat) → Id (ForInStep (List (Nat × List Nat))))
    (hf : ∀ e idx, f e idx = ForInStep.yield (idxPush idx e.2.weak e.1)) :
    ∀ (bs : List (BlockSig D)) (off : Nat) (idx : List (Nat × List Nat)),
      forIn (m := Id) (enumFrom off bs) idx f = pushAll idx off bs := by
  intro bs
  induction bs with
  | nil => intro off idx; rfl
  | cons b bs ih => intro off idx; simp only [enumFrom, List.forIn_cons, hf, bind, pushAll]; exact ih _ _

theorem tableIndex_eq (blocks : List (BlockSig D)) : Copia.Gen.Loops.tableIndex blocks = pushAll [] 0 blocks := by
  unfold Copia.Gen.Loops.tableIndex enumerate
  simp only [Id.run, bind, pure]
  exact table_forIn _ (by intro e idx; rfl) blocks 0 []

theorem idxGet_idxPush (idx : List (Nat × List Nat)) (k k' i : Nat) :
    idxGet (idxPush idx k i) k' = if k = k' then some ((idxGet idx k).getD [] ++ [i]) else idxGet idx k' := by
  induction idx with
  | nil => by_cases h : k = k' <;> simp [idxPush, idxGet, h]
  | cons e r ih =>
    obtain ⟨k0, is⟩ := e
    simp only [idxPush]
    by_cases h0 : k0 = k
    · subst h0
      by_cases h1 : k0 = k' <;> simp [idxGet, h1]
    · simp only [h0, if_false, idxGet, ih]
      by_cases h1 : k0 = k'
      · subst h1
        have : ¬ k = k0 := fun e => h0 e.symm
        simp [this]
      · simp [h1]

theorem idxGet_pushAll (w : Nat) :
    ∀ (bs : List (BlockSig D)) (off : Nat) (idx : List (Nat × List Nat)),
      idxGet (pushAll idx off bs) w =
        if positions w off bs = [] then idxGet idx w else some ((idxGet idx w).getD [] ++ positions w off bs) := by
  intro bs
  induction bs with
  | nil => intro off idx; simp [pushAll, positions]
  | cons b bs ih =>
    intro off idx
    simp only [pushAll, positions]
    rw [ih, idxGet_idxPush]
    by_cases hb : b.weak = w
    · simp only [hb, if_true]
      by_cases hp : positions w (off + 1) bs = []
      · simp [hp]
      · simp [hp]
    · simp only [hb, if_false]

/-- the blocks at the recorded positions are the blocks with that weak hash, in block order -/
theorem positions_blocks (w : Nat) :
    ∀ (bs pre : List (BlockSig D)),
      (positions w pre.length bs).filterMap (fun i => (pre ++ bs)[i]?) = bs.filter (fun b => decide (b.weak = w)) := by
  intro bs
  induction bs with
  | nil => intro pre; rfl
  | cons b bs ih =>
    intro pre
    have hnext := ih (pre ++ [b])
    simp only [List.length_append, List.length_singleton, List.append_assoc, List.singleton_append] at hnext
    simp only [positions]
    by_cases hb : b.weak = w
    · simp only [hb, if_true, List.filterMap_cons, List.filter_cons, decide_true]
      have : (pre ++ b :: bs)[pre.length]? = some b := by simp
      rw [this]
      simp only [hnext]
    · simp only [hb, if_false, List.filter_cons, decide_false]
      exact hnext

theorem positions_nil_iff (w : Nat) : ∀ (bs : List (BlockSig D)) (off : Nat),
    positions w off bs = [] ↔ bs.filter (fun b => decide (b.weak = w)) = [] := by
  intro bs
  induction bs with
  | nil => intro off; simp [positions]
  | cons b bs ih =>
    intro off
    simp only [positions, List.filter_cons]
    by_cases hb : b.weak = w
    · simp [hb]
    · simp only [hb, if_false, decide_false]; exact ih _

/-- `find_match` over the index `from_signature` builds = the scans' `findStrong` -/
theorem findMatch_eq [DecidableEq D] (H : List Nat → D) (blocks : List (BlockSig D)) (weak : Nat) (data : List Nat) :
    Copia.Gen.Loops.findMatchGen H (Copia.Gen.Loops.tableIndex blocks) blocks weak data = findStrong H blocks weak data := by
  unfold Copia.Gen.Loops.findMatchGen findStrong
  rw [tableIndex_eq, idxGet_pushAll]
  simp only [idxGet, Option.getD_none, List.nil_append]
  by_cases hp : positions weak 0 blocks = []
  · have := (positions_nil_iff weak blocks 0).mp hp
    simp only [hp, if_true, Id.run, pure]
    have hf : blocks.filter (fun x => decide (x.weak = weak)) = [] := this
    simp [hf]
  · simp only [hp, if_false, Id.run, pure]
    have := positions_blocks weak blocks []
    simp only [List.length_nil, List.nil_append] at this
    rw [this]

/-- `has_weak_match` over that index = the scans' `hasWeak` -/
theorem hasWeak_eq (blocks : List (BlockSig D)) (weak : Nat) :
    Copia.Gen.Loops.hasWeakGen (Copia.Gen.Loops.tableIndex blocks) weak = hasWeak blocks weak := by
  unfold Copia.Gen.Loops.hasWeakGen hasWeak
  rw [tableIndex_eq, idxGet_pushAll]
  simp only [idxGet, Option.getD_none, List.nil_append, Id.run, pure]
  by_cases hp : positions weak 0 blocks = []
  · have := (positions_nil_iff weak blocks 0).mp hp
    simp [hp, this]
  · have : ¬ blocks.filter (fun b => decide (b.weak = weak)) = [] := fun h => hp ((positions_nil_iff weak blocks 0).mpr h)
    simp [hp, this]

end Copia.GenEqLoops
