import Copia.Gen.LoopsHubPut
/-!
# `serve.rs::handle_put` / `handle_delete` as translated from the source on this run, in closed form

`Copia.Gen.Loops.handlePut` is the source function statement by statement (`tools/rs2lean_do.py`): which
file-system call comes when (the labels of `HubConc.soloPut`), what feeds the hasher, which test comes
first, which reply each exit writes. This file brings it into a closed form; `Props/C03d`, `Props/C10c`
state it against the models.
-/
namespace Copia.GenEqLoops
open Copia.HubConc Copia.Hub

theorem put_loop (l : List Chunk) (calls : List Call) (hashed : List Chunk) (received : Nat) :
    (forIn (m := Id) l (calls, hashed, received) fun chunk __s =>
        ForInStep.yield (__s.fst ++ [Call.write], __s.snd.fst ++ [chunk], __s.snd.snd + 1)) =
      (calls ++ l.map (fun _ => Call.write), hashed ++ l, received + l.length) := by
  induction l generalizing calls hashed received with
  | nil => simp [pure]
  | cons x xs ih =>
    simp only [List.forIn_cons, bind, List.map_cons, List.length_cons]
    rw [ih]
    simp only [List.append_assoc, List.singleton_append, Nat.add_assoc, Nat.add_comm 1]

/-- the calls before the integrity tests: create the staging file, one write per chunk that arrived -/
def putPre (body : List Chunk) : List Call := Call.create :: body.map (fun _ => Call.write)

/-- `handle_put`, translated, in closed form -/
theorem handlePut_eq (hashOf : List Chunk → Hash) (safe : Bool) (chunks : List Chunk) (len : Nat) (hash : Hash)
    (e c : Option Hash) (a b : Bool) :
    Copia.Gen.Loops.handlePut hashOf safe chunks len hash e c a b =
      if !safe then ([], Reply.error "bad path")
      else if ((chunks.take len).length != len) = true then (putPre (chunks.take len) ++ [Call.discard], Reply.error "content length mismatch")
      else if (hashOf (chunks.take len) != hash) = true then (putPre (chunks.take len) ++ [Call.discard], Reply.error "content hash mismatch")
      else if casCommit c e then
        (if a then (putPre (chunks.take len) ++ [.lock, .read, .commit, .unlock], Reply.putResult true (some hash))
         else (putPre (chunks.take len) ++ [.lock, .read, .commit, .discard, .unlock], Reply.error "commit failed"))
      else
        (if b then (putPre (chunks.take len) ++ [.lock, .read, .conflict, .unlock], Reply.putResult false c)
         else (putPre (chunks.take len) ++ [.lock, .read, .conflict, .discard, .unlock], Reply.error "conflict-copy failed")) := by
  unfold Copia.Gen.Loops.handlePut
  cases safe
  · rfl
  · simp only [Id.run, bind, pure, Bool.not_true, Bool.false_eq_true, if_false]
    have hl := put_loop (chunks.take len) ([] ++ [Call.create]) [] 0
    rw [hl]
    simp only [List.nil_append, Nat.zero_add, putPre, List.singleton_append]
    split
    · rfl
    · split
      · rfl
      · cases casCommit c e <;> cases a <;> cases b <;> simp

/-- `handle_delete`, translated, in closed form -/
theorem handleDelete_eq (safe : Bool) (e c : Option Hash) :
    Copia.Gen.Loops.handleDelete safe e c =
      if !safe then ([], Reply.error "bad path")
      else if casCommit c e then ([.lock, .read, .remove, .unlock], Reply.deleteResult true none)
      else ([.lock, .read, .unlock], Reply.deleteResult false c) := by
  unfold Copia.Gen.Loops.handleDelete
  cases safe
  · rfl
  · cases h : casCommit c e <;> simp [Id.run, h, pure]

/-! ## `handle_get` -/

theorem get_loop (tag : Copia.HubGet.GCall) (l : List Chunk) (calls : List Copia.HubGet.GCall) (acc : List Chunk) :
    (forIn (m := Id) l (calls, acc) fun chunk __s => ForInStep.yield (__s.fst ++ [tag], __s.snd ++ [chunk])) =
      (calls ++ l.map (fun _ => tag), acc ++ l) := by
  induction l generalizing calls acc with
  | nil => simp [pure]
  | cons x xs ih =>
    simp only [List.forIn_cons, bind, List.map_cons]
    rw [ih]
    simp only [List.append_assoc, List.singleton_append]

/-- `handle_get`, translated, in closed form -/
theorem handleGet_eq (hashOf : List Chunk → Hash) (safe : Bool) (file : Option (List Chunk)) (is_file : Bool) :
    Copia.Gen.Loops.handleGet hashOf safe file is_file =
      if !safe then ([], Reply.error "bad path")
      else match file with
        | none => ([.open], Reply.error "not found")
        | some f =>
          if !is_file then ([.open, .stat], Reply.error "not found")
          else ([.open, .stat, .hashStart] ++ f.map (fun _ => Copia.HubGet.GCall.hashRead) ++ [.hashEof] ++
                  (f.take f.length).map (fun _ => Copia.HubGet.GCall.sendRead) ++ [.sendDone],
                Reply.content f.length (hashOf f) (f.take f.length)) := by
  unfold Copia.Gen.Loops.handleGet
  cases safe
  · rfl
  · cases file with
    | none => rfl
    | some f =>
      cases is_file
      · rfl
      · simp only [Id.run, bind, pure, Bool.not_true, Bool.false_eq_true, if_false]
        simp only [get_loop, List.nil_append, List.append_assoc, List.singleton_append, List.cons_append]


/-- the `while` of the conflict-copy name as a function: (name reached, index, whether the loop ended by its own test) -/
def ccLoop (cond : List Char → Bool) (name : Nat → List Char) : Nat → Nat → (List Char × Nat × Bool)
  | 0, n => (name n, n, false)
  | fuel+1, n => if cond (name n) then ccLoop cond name fuel (n+1) else (name n, n, true)

theorem cc_forIn (cond : List Char → Bool) (name : Nat → List Char)
    (f : Unit → (List Char × Nat × Bool) → Id (ForInStep (List Char × Nat × Bool)))
    (hf : ∀ u st, f u st = if (!cond st.1) = true then ForInStep.done (st.1, st.2.1, true)
                           else ForInStep.yield (name (st.2.1 + 1), st.2.1 + 1, st.2.2)) :
    ∀ (fuel n : Nat), forIn (m := Id) (List.replicate fuel ()) (name n, n, false) f = ccLoop cond name fuel n := by
  intro fuel
  induction fuel with
  | zero => intro n; rfl
  | succ k ih =>
    intro n
    simp only [List.replicate_succ, List.forIn_cons, hf, bind, ccLoop]
    cases cond (name n)
    · rfl
    · simpa using ih (n + 1)

theorem ccLoop_ccPick {H} [DecidableEq H] (hash : Bytes → H) (t : HTree) (p short : List Char) (h : H) :
    ∀ (fuel n : Nat),
      (ccLoop (fun c => occupied t (osResolve c) && (Option.map hash (hget t (osResolve c)) != some h))
        (fun n => cnameOf p (short ++ ccSuffix n)) fuel n).2.2 = true →
      (ccLoop (fun c => occupied t (osResolve c) && (Option.map hash (hget t (osResolve c)) != some h))
        (fun n => cnameOf p (short ++ ccSuffix n)) fuel n).1 = ccPick hash t p short h fuel n := by
  intro fuel
  induction fuel with
  | zero => intro n hfin; simp [ccLoop] at hfin
  | succ k ih =>
    intro n hfin
    unfold ccLoop at hfin ⊢
    unfold ccPick
    by_cases hc : (occupied t (osResolve (cnameOf p (short ++ ccSuffix n))) &&
        (Option.map hash (hget t (osResolve (cnameOf p (short ++ ccSuffix n)))) != some h)) = true
    · simp only [hc, if_true] at hfin ⊢
      have hc' : (occupied t (osResolve (cnameOf p (short ++ ccSuffix n))) &&
          decide (Option.map hash (hget t (osResolve (cnameOf p (short ++ ccSuffix n)))) ≠ some h)) = true := by
        simpa [bne_iff_ne] using hc
      simp only [hc', if_true]
      exact ih (n + 1) hfin
    · have hc' : ¬ (occupied t (osResolve (cnameOf p (short ++ ccSuffix n))) &&
          decide (Option.map hash (hget t (osResolve (cnameOf p (short ++ ccSuffix n)))) ≠ some h)) = true := by
        simpa [bne_iff_ne] using hc
      simp only [hc, hc', if_false, Bool.false_eq_true]

/-- where the loop ends by its own test, the test is false -/
theorem ccLoop_stops (cond : List Char → Bool) (name : Nat → List Char) :
    ∀ (fuel n : Nat), (ccLoop cond name fuel n).2.2 = true → cond (ccLoop cond name fuel n).1 = false := by
  intro fuel
  induction fuel with
  | zero => intro n h; simp [ccLoop] at h
  | succ k ih =>
    intro n h
    unfold ccLoop at h ⊢
    cases hc : cond (name n)
    · simp [hc]
    · simp only [hc, if_true] at h ⊢
      exact ih (n + 1) h

theorem cc_name_zero (p short : List Char) : p ++ ".conflict-".toList ++ short = cnameOf p (short ++ ccSuffix 0) := by
  simp [cnameOf, ccSuffix]

theorem cc_name_succ (p short : List Char) (n : Nat) :
    p ++ ".conflict-".toList ++ short ++ '-' :: Copia.Meta.decimal (n + 1) = cnameOf p (short ++ ccSuffix (n + 1)) := by
  simp [cnameOf, ccSuffix]

/-- the conflict-copy name loop of `handle_put`, translated: when it ends by its own test within the fuel, the name it
ends on is the model's `ccPick` -/
theorem ccPickGen_eq {H} [DecidableEq H] (hash : Bytes → H) (t : HTree) (p short : List Char) (h : H) (fuel : Nat) (c : List Char)
    (hg : Copia.Gen.Loops.ccPickGen hash t p short h fuel = some c) : c = ccPick hash t p short h fuel 0 := by
  unfold Copia.Gen.Loops.ccPickGen at hg
  simp only [Id.run, bind, pure, id] at hg
  rw [cc_name_zero] at hg
  have e := cc_forIn (fun c => occupied t (osResolve c) && (Option.map hash (hget t (osResolve c)) != some h))
    (fun n => cnameOf p (short ++ ccSuffix n))
    (fun _ __s =>
      if (!(occupied t (osResolve __s.fst) && Option.map hash (hget t (osResolve __s.fst)) != some h)) = true then
        ForInStep.done (__s.fst, __s.snd.fst, true)
      else ForInStep.yield (cnameOf p (short ++ ccSuffix 0) ++ '-' :: Copia.Meta.decimal (__s.snd.fst + 1), __s.snd.fst + 1, __s.snd.snd))
    (by intro u st; simp only [← cc_name_zero, cc_name_succ]) fuel 0
  rw [e] at hg
  split at hg
  · cases hg
  · rename_i hfin
    simp only [Bool.not_eq_true', Bool.not_eq_false] at hfin
    injection hg with hg
    rw [← hg]
    exact ccLoop_ccPick hash t p short h fuel 0 (by simpa using hfin)

end Copia.GenEqLoops
