import Copia.Lemmas.Meta1
namespace Copia.Meta
open Copia.Plan

theorem cut_append (sep : Char) (a b : List Char) (h : sep ∉ a) : cut sep (a ++ sep :: b) = some (a, b) := by
  induction a with
  | nil => simp [cut]
  | cons c cs ih =>
    have hc : c ≠ sep := fun e => h (by simp [e])
    have hcs : sep ∉ cs := fun e => h (by simp [e])
    simp [cut, hc, ih hcs]

theorem splitOnChar_ne_nil (sep : Char) (s : List Char) : splitOnChar sep s ≠ [] := by
  induction s with
  | nil => simp [splitOnChar]
  | cons c cs ih =>
    simp only [splitOnChar]
    split
    · simp
    · split <;> simp

theorem splitOnChar_append (sep : Char) (a b : List Char) (h : sep ∉ a) :
    splitOnChar sep (a ++ sep :: b) = a :: splitOnChar sep b := by
  induction a with
  | nil =>
    simp only [List.nil_append, splitOnChar]
    cases hb : splitOnChar sep b with
    | nil => exact absurd hb (splitOnChar_ne_nil sep b)
    | cons x xs => simp
  | cons c cs ih =>
    have hc : c ≠ sep := fun e => h (by simp [e])
    have hcs : sep ∉ cs := fun e => h (by simp [e])
    simp only [List.cons_append, splitOnChar, ih hcs, hc, if_false]

theorem splitOnChar_none (sep : Char) (a : List Char) (h : sep ∉ a) : splitOnChar sep a = [a] := by
  induction a with
  | nil => simp [splitOnChar]
  | cons c cs ih =>
    have hc : c ≠ sep := fun e => h (by simp [e])
    have hcs : sep ∉ cs := fun e => h (by simp [e])
    simp only [splitOnChar, ih hcs, hc, if_false]

theorem decimal_clean (n : Nat) : '\t' ∉ decimal n ∧ '\x00' ∉ decimal n ∧ '.' ∉ decimal n := by
  refine ⟨?_, ?_, ?_⟩ <;> intro hm <;> obtain ⟨d, hd, hc⟩ := decimal_all n _ hm
  · exact (digitChar_props d hd).1 hc.symm
  · exact (digitChar_props d hd).2.1 hc.symm
  · exact (digitChar_props d hd).2.2.1 hc.symm

theorem renderInt_clean (i : Int) : '\t' ∉ renderInt i ∧ '\x00' ∉ renderInt i ∧ '.' ∉ renderInt i := by
  obtain ⟨h1, h2, h3⟩ := decimal_clean i.natAbs
  unfold renderInt
  split
  · refine ⟨?_, ?_, ?_⟩ <;> simp only [List.mem_cons, not_or] <;> refine ⟨by decide, ?_⟩ <;> assumption
  · exact ⟨h1, h2, h3⟩

theorem stripDotSlash_cons (p : List Char) : stripDotSlash ('.' :: '/' :: p) = p := by
  simp [stripDotSlash]

/-- one rendered record parses back to its (path, size, whole seconds) -/
theorem parseEntry_renderBody (e : Entry) (wf : e.WF) :
    parseEntry (renderBody e) = some (e.path, { size := e.size, mtime := e.secs }) := by
  obtain ⟨hp, _, hsz, hlo, hhi, hfr⟩ := wf
  have hne : (renderBody e).isEmpty = false := by
    unfold renderBody
    obtain ⟨d, r, _, hr⟩ := decimal_head e.size
    rw [hr]; rfl
  have hmt : '\t' ∉ renderInt e.secs ++ '.' :: e.frac := by
    simp only [List.mem_append, List.mem_cons, not_or]
    exact ⟨(renderInt_clean e.secs).1, by decide, fun h => (hfr _ h).1 rfl⟩
  unfold parseEntry
  rw [hne]
  simp only [Bool.false_eq_true, if_false]
  unfold renderBody
  rw [cut_append '\t' _ _ (decimal_clean e.size).1]
  simp only []
  rw [cut_append '\t' _ _ hmt]
  simp only [parseU64_decimal e.size hsz]
  rw [splitOnChar_append '.' _ _ (renderInt_clean e.secs).2.2]
  simp only [parseI64_renderInt e.secs hlo hhi, Option.getD_some, stripDotSlash_cons]
  cases hpp : e.path with
  | nil => exact absurd hpp hp
  | cons c cs => simp

theorem renderBody_noNul (e : Entry) (wf : e.WF) : '\x00' ∉ renderBody e := by
  obtain ⟨_, hpn, _, _, _, hfr⟩ := wf
  unfold renderBody
  simp only [List.mem_append, List.mem_cons, not_or]
  exact ⟨(decimal_clean e.size).2.1, by decide, ⟨(renderInt_clean e.secs).2.1, by decide, fun h => (hfr _ h).2 rfl⟩,
    by decide, by decide, by decide, hpn⟩

theorem split_render (es : List Entry) (wf : ∀ e ∈ es, e.WF) :
    splitOnChar '\x00' (render es) = es.map renderBody ++ [[]] := by
  induction es with
  | nil => simp [render, splitOnChar]
  | cons e r ih =>
    have : render (e :: r) = renderBody e ++ '\x00' :: render r := by simp [render]
    rw [this, splitOnChar_append _ _ _ (renderBody_noNul e (wf e (by simp))), ih (fun x hx => wf x (by simp [hx]))]
    simp

theorem lookup_insertAL {K V} [DecidableEq K] (m : List (K × V)) (k q : K) (v : V) :
    lookup (insertAL m k v) q = if q = k then some v else lookup m q := by
  induction m with
  | nil => simp [insertAL, lookup, eq_comm]
  | cons e r ih =>
    obtain ⟨k', v'⟩ := e
    by_cases h : k' = k
    · subst h
      by_cases h2 : q = k'
      · subst h2; simp [insertAL, lookup]
      · have : ¬ k' = q := fun e => h2 e.symm
        simp [insertAL, lookup, h2, this]
    · by_cases h2 : q = k
      · subst h2
        have : ¬ k' = q := h
        simp [insertAL, lookup, h, ih]
      · simp only [insertAL, h, if_false, lookup, ih, h2]

def metaOf (e : Entry) : FileMeta := { size := e.size, mtime := e.secs }

theorem parse_fold (es : List Entry) (wf : ∀ e ∈ es, e.WF) (m : List (List Char × FileMeta)) :
    (es.map renderBody ++ [[]]).foldl (fun m e =>
      match parseEntry e with
      | some (k, v) => insertAL m k v
      | none => m) m = es.foldl (fun m e => insertAL m e.path (metaOf e)) m := by
  induction es generalizing m with
  | nil => simp [parseEntry]
  | cons e r ih =>
    simp only [List.map_cons, List.cons_append, List.foldl_cons]
    rw [parseEntry_renderBody e (wf e (by simp))]
    exact ih (fun x hx => wf x (by simp [hx])) _

theorem lookup_fold (es : List Entry) (m : List (List Char × FileMeta)) (p : List Char)
    (nd : (es.map (·.path)).Nodup) :
    lookup (es.foldl (fun m e => insertAL m e.path (metaOf e)) m) p =
      match es.find? (fun e => e.path = p) with
      | some e => some (metaOf e)
      | none => lookup m p := by
  induction es generalizing m with
  | nil => simp
  | cons e r ih =>
    simp only [List.map_cons, List.nodup_cons] at nd
    simp only [List.foldl_cons, List.find?_cons]
    rw [ih _ nd.2]
    by_cases h : e.path = p
    · have hnone : r.find? (fun e => e.path = p) = none := by
        rw [List.find?_eq_none]
        intro x hx
        simp only [decide_eq_true_eq]
        intro hxp
        exact nd.1 (by rw [h, ← hxp]; exact List.mem_map_of_mem hx)
      simp [hnone, h, lookup_insertAL]
    · have : ¬ p = e.path := fun x => h x.symm
      simp only [h, decide_false]
      cases r.find? (fun e => e.path = p) with
      | some x => rfl
      | none => simp [lookup_insertAL, this]

end Copia.Meta
