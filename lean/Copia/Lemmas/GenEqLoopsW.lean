import Copia.Gen.LoopsWire
/-!
# `wire.rs::read_frame`, as translated from the source on this run, is one round of the model's `serveLoop`
-/
namespace Copia.GenEqLoops
open Copia.Hub Copia.WireSupport

variable {H : Type} [DecidableEq H]

/-- `read_frame` translated, in closed form -/
theorem readFrame_eq {R : Type} (decode : Bytes → Option R) (inp : Bytes) :
    Copia.Gen.Loops.readFrame decode inp =
      if inp.length < 4 then FrameRes.eof
      else if be32 (inp.take 4) > Gen.maxFrame then FrameRes.tooLarge
      else if (inp.drop 4).length < be32 (inp.take 4) then FrameRes.short (be32 (inp.take 4))
      else match decode ((inp.drop 4).take (be32 (inp.take 4))) with
        | some req => FrameRes.frame req (be32 (inp.take 4)) ((inp.drop 4).drop (be32 (inp.take 4)))
        | none => FrameRes.badBody (be32 (inp.take 4)) := by
  unfold Copia.Gen.Loops.readFrame
  by_cases h1 : inp.length < 4
  · simp [Id.run, h1, pure]
  · by_cases h2 : be32 (inp.take 4) > Gen.maxFrame
    · simp [Id.run, h1, h2, pure]
    · by_cases h3 : (inp.drop 4).length < be32 (inp.take 4)
      · simp only [Id.run, h1, h2, h3, if_false, if_true, decide_false, pure, Bool.false_eq_true]
      · simp only [Id.run, h1, h2, h3, if_false, decide_false, pure, Bool.false_eq_true]
        cases decode ((inp.drop 4).take (be32 (inp.take 4))) <;> rfl

/-- one round of the model's serve loop IS the translated `read_frame` followed by the dispatch on its outcome -/
theorem serveLoop_step (hash : Bytes → H) (short : H → List Char) (decode : Bytes → Option (Req H))
    (fuel : Nat) (inp : Bytes) (t : HTree) (rs : List (Reply H)) (al : List Nat) :
    serveLoop hash short decode (fuel + 1) inp t rs al =
      match Copia.Gen.Loops.readFrame decode inp with
      | FrameRes.eof => { replies := rs.reverse, tree := t, exit := .clean, allocs := al.reverse }
      | FrameRes.tooLarge => { replies := rs.reverse, tree := t, exit := .frameTooLarge, allocs := al.reverse }
      | FrameRes.short a => { replies := rs.reverse, tree := t, exit := .ioError, allocs := (a :: al).reverse }
      | FrameRes.badBody a => { replies := rs.reverse, tree := t, exit := .badBody, allocs := (a :: al).reverse }
      | FrameRes.frame req a rest =>
        let st := handle hash short t req rest
        if st.fatal then { replies := rs.reverse, tree := t, exit := .ioError, allocs := (a :: al).reverse } else
        match st.reply with
        | none => { replies := rs.reverse, tree := st.tree, exit := .clean, allocs := (a :: al).reverse }
        | some r => serveLoop hash short decode fuel (rest.drop st.consumed) st.tree (r :: rs) (a :: al) := by
  rw [readFrame_eq, serveLoop]
  by_cases h1 : inp.length < 4
  · simp only [h1, if_true]
  · by_cases h2 : be32 (inp.take 4) > Gen.maxFrame
    · simp only [h1, h2, if_true, if_false]
    · by_cases h3 : (inp.drop 4).length < be32 (inp.take 4)
      · simp only [h1, h2, h3, if_true, if_false]
      · simp only [h1, h2, h3, if_false]
        cases decode ((inp.drop 4).take (be32 (inp.take 4))) <;> rfl

end Copia.GenEqLoops
