import Copia.Gen.LoopsWire
import Copia.Lemmas.GenEqLoops2
/-!
# `wire.rs::read_frame`, as translated from the source on this run, is one round of the model's `serveLoop`
-/
namespace Copia.GenEqLoops
open Copia.Hub Copia.WireSupport

variable {H : Type} [DecidableEq H]

/-- `read_frame` translated, in closed form -/
theorem readFrame_eq {R : Type} (decode : Bytes → Option R) (inp : Bytes) :
    Copia.Gen.Loops.readFrame decode inp =
      if inp.length < 4 then FrameRes.eof
      else if be32 (inp.take 4) > Gen.maxFrame then FrameRes.tooLarge
      else if (inp.drop 4).length < be32 (inp.take 4) then FrameRes.short (be32 (inp.take 4))
      else match decode ((inp.drop 4).take (be32 (inp.take 4))) with
        | some req => FrameRes.frame req (be32 (inp.take 4)) ((inp.drop 4).drop (be32 (inp.take 4)))
        | none => FrameRes.badBody (be32 (inp.take 4)) := by
  unfold Copia.Gen.Loops.readFrame
  by_cases h1 : inp.length < 4
  · simp [Id.run, h1, pure]
  · by_cases h2 : be32 (inp.take 4) > Gen.maxFrame
    · simp [Id.run, h1, h2, pure]
    · by_cases h3 : (inp.drop 4).length < be32 (inp.take 4)
      · simp only [Id.run, h1, h2, h3, if_false, if_true, decide_false, pure, Bool.false_eq_true]
      · simp only [Id.run, h1, h2, h3, if_false, decide_false, pure, Bool.false_eq_true]
        cases decode ((inp.drop 4).take (be32 (inp.take 4))) <;> rfl

/-- one round of the model's serve loop IS the translated `read_frame` followed by the dispatch on its outcome -/
theorem serveLoop_step (hash : Bytes → H) (short : H → List Char) (decode : Bytes → Option (Req H))
    (fuel : Nat) (inp : Bytes) (t : HTree) (rs : List (Reply H)) (al : List Nat) :
    serveLoop hash short decode (fuel + 1) inp t rs al =
      match Copia.Gen.Loops.readFrame decode inp with
      | FrameRes.eof => { replies := rs.reverse, tree := t, exit := .clean, allocs := al.reverse }
      | FrameRes.tooLarge => { replies := rs.reverse, tree := t, exit := .frameTooLarge, allocs := al.reverse }
      | FrameRes.short a => { replies := rs.reverse, tree := t, exit := .ioError, allocs := (a :: al).reverse }
      | FrameRes.badBody a => { replies := rs.reverse, tree := t, exit := .badBody, allocs := (a :: al).reverse }
      | FrameRes.frame req a rest =>
        let st := handle hash short t req rest
        if st.fatal then { replies := rs.reverse, tree := t, exit := .ioError, allocs := (a :: al).reverse } else
        match st.reply with
        | none => { replies := rs.reverse, tree := st.tree, exit := .clean, allocs := (a :: al).reverse }
        | some r => serveLoop hash short decode fuel (rest.drop st.consumed) st.tree (r :: rs) (a :: al) := by
  rw [readFrame_eq, serveLoop]
  by_cases h1 : inp.length < 4
  · simp only [h1, if_true]
  · by_cases h2 : be32 (inp.take 4) > Gen.maxFrame
    · simp only [h1, h2, if_true, if_false]
    · by_cases h3 : (inp.drop 4).length < be32 (inp.take 4)
      · simp only [h1, h2, h3, if_true, if_false]
      · simp only [h1, h2, h3, if_false]
        cases decode ((inp.drop 4).take (be32 (inp.take 4))) <;> rfl

/-! ## `serve.rs::serve`: the prologue and the dispatch loop -/

/-- state of the translated loop: early return, unread input, tree, replies, reserved buffers, "ended by itself" -/
abbrev SrvSt (H : Type) := Option (Option (Session H)) × Bytes × HTree × List (Reply H) × List Nat × Bool

/-- what the translated loop does with the outcome of one handler call -/
def afterHandle (s : SrvSt H) (a : Nat) (rest : Bytes) (st : Step H) : ForInStep (SrvSt H) :=
  if st.fatal = true then
    ForInStep.done (some (some { replies := s.2.2.2.1, tree := s.2.2.1, exit := Exit.ioError, allocs := s.2.2.2.2.1 ++ [a] }),
      rest, s.2.2.1, s.2.2.2.1, s.2.2.2.2.1 ++ [a], s.2.2.2.2.2)
  else
    match st.reply with
    | some r => ForInStep.yield (none, rest.drop st.consumed, st.tree, s.2.2.2.1 ++ [r], s.2.2.2.2.1 ++ [a], s.2.2.2.2.2)
    | none => ForInStep.yield (none, rest.drop st.consumed, st.tree, s.2.2.2.1, s.2.2.2.2.1 ++ [a], s.2.2.2.2.2)

def serveStep (hash : Bytes → H) (short : H → List Char) (decode : Bytes → Option (Req H)) (s : SrvSt H) : ForInStep (SrvSt H) :=
  match Copia.Gen.Loops.readFrame decode s.2.1 with
  | FrameRes.eof => ForInStep.done (none, s.2.1, s.2.2.1, s.2.2.2.1, s.2.2.2.2.1, true)
  | FrameRes.tooLarge =>
    ForInStep.done (some (some { replies := s.2.2.2.1, tree := s.2.2.1, exit := Exit.frameTooLarge, allocs := s.2.2.2.2.1 }),
      s.2.1, s.2.2.1, s.2.2.2.1, s.2.2.2.2.1, s.2.2.2.2.2)
  | FrameRes.short a =>
    ForInStep.done (some (some { replies := s.2.2.2.1, tree := s.2.2.1, exit := Exit.ioError, allocs := s.2.2.2.2.1 ++ [a] }),
      s.2.1, s.2.2.1, s.2.2.2.1, s.2.2.2.2.1, s.2.2.2.2.2)
  | FrameRes.badBody a =>
    ForInStep.done (some (some { replies := s.2.2.2.1, tree := s.2.2.1, exit := Exit.badBody, allocs := s.2.2.2.2.1 ++ [a] }),
      s.2.1, s.2.2.1, s.2.2.2.1, s.2.2.2.2.1, s.2.2.2.2.2)
  | FrameRes.frame req a rest =>
    match req with
    | Req.hello _ => ForInStep.yield (none, rest, s.2.2.1, s.2.2.2.1 ++ [Reply.hello Copia.Gen.wireVersion], s.2.2.2.2.1 ++ [a], s.2.2.2.2.2)
    | Req.list =>
      ForInStep.yield (none, rest, s.2.2.1,
        s.2.2.2.1 ++ [Reply.fingerprints (List.map (fun e => (e.fst, hash e.snd))
          (List.filter (fun e => decide (e.fst.head? ≠ some ".copia".toList)) s.2.2.1))],
        s.2.2.2.2.1 ++ [a], s.2.2.2.2.2)
    | Req.get path => afterHandle s a rest (handle hash short s.2.2.1 (Req.get path) rest)
    | Req.put path expected len h => afterHandle s a rest (handle hash short s.2.2.1 (Req.put path expected len h) rest)
    | Req.delete path expected => afterHandle s a rest (handle hash short s.2.2.1 (Req.delete path expected) rest)
    | Req.bye => ForInStep.done (none, rest, s.2.2.1, s.2.2.2.1, s.2.2.2.2.1 ++ [a], true)

theorem serveStep_def (hash : Bytes → H) (short : H → List Char) (decode : Bytes → Option (Req H)) (s : SrvSt H) :
    serveStep hash short decode s =
      (match Copia.Gen.Loops.readFrame decode s.2.1 with
  | FrameRes.eof => ForInStep.done (none, s.2.1, s.2.2.1, s.2.2.2.1, s.2.2.2.2.1, true)
  | FrameRes.tooLarge =>
    ForInStep.done (some (some { replies := s.2.2.2.1, tree := s.2.2.1, exit := Exit.frameTooLarge, allocs := s.2.2.2.2.1 }),
      s.2.1, s.2.2.1, s.2.2.2.1, s.2.2.2.2.1, s.2.2.2.2.2)
  | FrameRes.short a =>
    ForInStep.done (some (some { replies := s.2.2.2.1, tree := s.2.2.1, exit := Exit.ioError, allocs := s.2.2.2.2.1 ++ [a] }),
      s.2.1, s.2.2.1, s.2.2.2.1, s.2.2.2.2.1, s.2.2.2.2.2)
  | FrameRes.badBody a =>
    ForInStep.done (some (some { replies := s.2.2.2.1, tree := s.2.2.1, exit := Exit.badBody, allocs := s.2.2.2.2.1 ++ [a] }),
      s.2.1, s.2.2.1, s.2.2.2.1, s.2.2.2.2.1, s.2.2.2.2.2)
  | FrameRes.frame req a rest =>
    match req with
    | Req.hello _ => ForInStep.yield (none, rest, s.2.2.1, s.2.2.2.1 ++ [Reply.hello Copia.Gen.wireVersion], s.2.2.2.2.1 ++ [a], s.2.2.2.2.2)
    | Req.list =>
      ForInStep.yield (none, rest, s.2.2.1,
        s.2.2.2.1 ++ [Reply.fingerprints (List.map (fun e => (e.fst, hash e.snd))
          (List.filter (fun e => decide (e.fst.head? ≠ some ".copia".toList)) s.2.2.1))],
        s.2.2.2.2.1 ++ [a], s.2.2.2.2.2)
    | Req.get path => afterHandle s a rest (handle hash short s.2.2.1 (Req.get path) rest)
    | Req.put path expected len h => afterHandle s a rest (handle hash short s.2.2.1 (Req.put path expected len h) rest)
    | Req.delete path expected => afterHandle s a rest (handle hash short s.2.2.1 (Req.delete path expected) rest)
    | Req.bye => ForInStep.done (none, rest, s.2.2.1, s.2.2.2.1, s.2.2.2.2.1 ++ [a], true)) := rfl

/-- what the translated function returns from the loop's final state -/
def srvFinal (s : SrvSt H) : Option (Session H) :=
  match s.1 with
  | some r => r
  | none => if (!s.2.2.2.2.2) = true then none
            else some { replies := s.2.2.2.1, tree := s.2.2.1, exit := Exit.clean, allocs := s.2.2.2.2.1 }

/-- a handler that is not `Bye` and did not fail fatally has written a reply -/
theorem handle_replies (hash : Bytes → H) (short : H → List Char) (t : HTree) (req : Req H) (after : Bytes)
    (hb : ∀ v, req ≠ Req.hello v) (hl : req ≠ Req.list) (hbye : req ≠ Req.bye)
    (hf : (handle hash short t req after).fatal = false) : ((handle hash short t req after).reply).isSome = true := by
  cases req with
  | hello v => exact absurd rfl (hb v)
  | list => exact absurd rfl hl
  | bye => exact absurd rfl hbye
  | get p =>
    simp only [handle]
    split
    · rfl
    · split <;> rfl
  | put p e l hh =>
    simp only [handle] at hf ⊢
    split
    · rfl
    · rename_i d hs
      simp only [hs] at hf
      split
      · rename_i hp; simp [hp] at hf
      · split
        · rfl
        · split
          · rfl
          · split
            · split <;> rfl
            · rfl
  | delete p e =>
    simp only [handle]
    split
    · rfl
    · split <;> rfl

theorem readFrame_rest_shorter {R : Type} (decode : Bytes → Option R) (inp : Bytes) (req : R) (a : Nat) (rest : Bytes)
    (h : Copia.Gen.Loops.readFrame decode inp = FrameRes.frame req a rest) : rest.length + 4 ≤ inp.length := by
  rw [readFrame_eq] at h
  by_cases h1 : inp.length < 4
  · simp only [h1, if_true] at h; cases h
  · by_cases h2 : be32 (inp.take 4) > Gen.maxFrame
    · simp only [h1, h2, if_true, if_false] at h; cases h
    · by_cases h3 : (inp.drop 4).length < be32 (inp.take 4)
      · simp only [h1, h2, h3, if_true, if_false] at h; cases h
      · simp only [h1, h2, h3, if_false] at h
        cases hd : decode ((inp.drop 4).take (be32 (inp.take 4))) with
        | none => rw [hd] at h; cases h
        | some r =>
          rw [hd] at h
          injection h with _ _ h3'
          subst h3'
          simp only [List.length_drop]
          omega

/-- the translated dispatch loop, run from any point of a session with fuel for the bytes still unread, ends where the
model's `serveLoop` ends (the model keeps its two accumulators reversed) -/
theorem serve_loop_eq (hash : Bytes → H) (short : H → List Char) (decode : Bytes → Option (Req H)) :
    ∀ (fuel : Nat) (inp : Bytes) (t : HTree) (rs : List (Reply H)) (al : List Nat), inp.length < fuel →
      srvFinal (iter (serveStep hash short decode) fuel (none, inp, t, rs.reverse, al.reverse, false)) =
        some (serveLoop hash short decode fuel inp t rs al) := by
  intro fuel
  induction fuel with
  | zero => intro inp t rs al h; omega
  | succ k ih =>
    intro inp t rs al hlen
    rw [iter, serveLoop_step, serveStep_def]
    dsimp only
    cases hr : Copia.Gen.Loops.readFrame decode inp with
    | eof => simp [srvFinal]
    | tooLarge => simp [srvFinal]
    | short a => simp [srvFinal]
    | badBody a => simp [srvFinal]
    | frame req a rest =>
      have hrest := readFrame_rest_shorter decode inp req a rest hr
      dsimp only
      have hcons : ∀ (x : Nat) (l : List Nat), l.reverse ++ [x] = (x :: l).reverse := by intro x l; simp
      have hconsr : ∀ (x : Reply H) (l : List (Reply H)), l.reverse ++ [x] = (x :: l).reverse := by intro x l; simp
      cases req with
      | hello v =>
        dsimp only
        rw [hcons, hconsr]
        have := ih rest t (Reply.hello Gen.wireVersion :: rs) (a :: al) (by omega)
        rw [this]
        simp [handle]
      | list =>
        dsimp only
        rw [hcons, hconsr]
        have := ih rest t (Reply.fingerprints ((t.filter fun e => e.1.head? ≠ some ".copia".toList).map fun e => (e.1, hash e.2)) :: rs) (a :: al) (by omega)
        rw [this]
        simp [handle]
      | bye => simp [srvFinal, handle]
      | get p =>
        dsimp only
        unfold afterHandle
        dsimp only
        by_cases hf : (handle hash short t (Req.get p) rest).fatal = true
        · simp [hf, srvFinal]
        · have hf' : (handle hash short t (Req.get p) rest).fatal = false := by simpa using hf
          have hs := handle_replies hash short t (Req.get p) rest (by intro v h; cases h) (by intro h; cases h) (by intro h; cases h) hf'
          cases hrep : (handle hash short t (Req.get p) rest).reply with
          | none => rw [hrep] at hs; cases hs
          | some r =>
            simp only [hf, if_false, Bool.false_eq_true]
            rw [hcons, hconsr]
            have := ih (rest.drop (handle hash short t (Req.get p) rest).consumed) (handle hash short t (Req.get p) rest).tree (r :: rs) (a :: al)
              (by simp only [List.length_drop]; omega)
            rw [this]
      | put p e l hh =>
        dsimp only
        unfold afterHandle
        dsimp only
        by_cases hf : (handle hash short t (Req.put p e l hh) rest).fatal = true
        · simp [hf, srvFinal]
        · have hf' : (handle hash short t (Req.put p e l hh) rest).fatal = false := by simpa using hf
          have hs := handle_replies hash short t (Req.put p e l hh) rest (by intro v h; cases h) (by intro h; cases h) (by intro h; cases h) hf'
          cases hrep : (handle hash short t (Req.put p e l hh) rest).reply with
          | none => rw [hrep] at hs; cases hs
          | some r =>
            simp only [hf, if_false, Bool.false_eq_true]
            rw [hcons, hconsr]
            have := ih (rest.drop (handle hash short t (Req.put p e l hh) rest).consumed) (handle hash short t (Req.put p e l hh) rest).tree (r :: rs) (a :: al)
              (by simp only [List.length_drop]; omega)
            rw [this]
      | delete p e =>
        dsimp only
        unfold afterHandle
        dsimp only
        by_cases hf : (handle hash short t (Req.delete p e) rest).fatal = true
        · simp [hf, srvFinal]
        · have hf' : (handle hash short t (Req.delete p e) rest).fatal = false := by simpa using hf
          have hs := handle_replies hash short t (Req.delete p e) rest (by intro v h; cases h) (by intro h; cases h) (by intro h; cases h) hf'
          cases hrep : (handle hash short t (Req.delete p e) rest).reply with
          | none => rw [hrep] at hs; cases hs
          | some r =>
            simp only [hf, if_false, Bool.false_eq_true]
            rw [hcons, hconsr]
            have := ih (rest.drop (handle hash short t (Req.delete p e) rest).consumed) (handle hash short t (Req.delete p e) rest).tree (r :: rs) (a :: al)
              (by simp only [List.length_drop]; omega)
            rw [this]

theorem readMagic_eq (inp : Bytes) :
    Copia.Gen.Loops.readMagic inp = if inp.length < 6 then none else some (inp.take 6 == Gen.wireMagic, inp.drop 6) := by
  unfold Copia.Gen.Loops.readMagic
  by_cases h : inp.length < 6 <;> simp [Id.run, h, pure]

/-- **`serve.rs::serve` translated is the model's `serve`** — for every input and tree, with fuel for the input -/
theorem serveGen_eq (hash : Bytes → H) (short : H → List Char) (decode : Bytes → Option (Req H)) (inp : Bytes) (t : HTree) :
    Copia.Gen.Loops.serveGen hash short decode (inp.length + 1) inp t = some (serve hash short decode inp t) := by
  unfold Copia.Gen.Loops.serveGen serve
  simp only [Id.run, bind, pure]
  rw [readMagic_eq]
  by_cases h6 : inp.length < 6
  · simp [h6]
  · simp only [h6, if_false]
    by_cases hm : inp.take 6 = Gen.wireMagic
    · have hbeq : (inp.take 6 == Gen.wireMagic) = true := by simpa using hm
      have e := forIn_replicate (serveStep hash short decode)
      simp only [Id.run, bind, pure, hbeq, Bool.not_true, Bool.false_eq_true, if_false] at e ⊢
      rw [e]
      rotate_left
      · intro u s
        rw [serveStep_def]
        cases Copia.Gen.Loops.readFrame decode s.2.1 with
        | eof => rfl
        | tooLarge => rfl
        | short a => rfl
        | badBody a => rfl
        | frame req a rest =>
          cases req with
          | hello v => rfl
          | list => rfl
          | bye => rfl
          | get p =>
            simp only [afterHandle]
            split
            · rfl
            · cases (handle hash short s.2.2.1 (Req.get p) rest).reply <;> rfl
          | put p e l hh =>
            simp only [afterHandle]
            split
            · rfl
            · cases (handle hash short s.2.2.1 (Req.put p e l hh) rest).reply <;> rfl
          | delete p e =>
            simp only [afterHandle]
            split
            · rfl
            · cases (handle hash short s.2.2.1 (Req.delete p e) rest).reply <;> rfl
      have hl := serve_loop_eq hash short decode (inp.length + 1) (inp.drop 6) t [] []
        (by simp only [List.length_drop]; omega)
      simp only [List.reverse_nil] at hl
      simp only [ne_eq, hm, not_true_eq_false, if_false]
      rw [← hl]
      unfold srvFinal
      cases (iter (serveStep hash short decode) (inp.length + 1) (none, List.drop 6 inp, t, [], [], false)).1 <;> rfl
    · have hbeq : (inp.take 6 == Gen.wireMagic) = false := by simpa using hm
      simp [Id.run, hbeq, hm, pure]

end Copia.GenEqLoops
