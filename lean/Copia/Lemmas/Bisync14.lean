import Copia.Lemmas.Bisync13
/-! One step of the apply loop under `BenignClash`, and the whole loop (`run_planB`). -/
namespace Copia.Bisync
open Copia.Reconcile

variable {P C : Type} [DecidableEq P] [DecidableEq C]

theorem touched_append_left (ge : C → C → Bool) (cname : P → C → P) (A0 B0 : Tree P C)
    (done : List (P × Action)) (e : P × Action) (q : P)
    (h : ¬ touched ge cname A0 B0 (done ++ [e]) q) : ¬ touched ge cname A0 B0 done q := by
  rintro (⟨a', h'⟩ | ⟨p', a', h', hc⟩)
  · exact h (Or.inl ⟨a', List.mem_append_left _ h'⟩)
  · exact h (Or.inr ⟨p', a', List.mem_append_left _ h', hc⟩)

theorem run_stepB (ge : C → C → Bool) (cname : P → C → P) (A0 B0 : Tree P C) (z : P → Option (Fp C))
    (plan : List (P × Action))
    (hact : ∀ p act, (p, act) ∈ plan → act = reconcilePath ((get A0 p).map mkFp) ((get B0 p).map mkFp) (z p))
    (hnd : (plan.map (·.1)).Nodup) (bc : BenignClash ge cname A0 B0 plan)
    (done rest : List (P × Action)) (p : P) (act : Action) (l : Live P C)
    (hp : plan = done ++ (p, act) :: rest) (inv : RunInvB ge cname A0 B0 plan done l) :
    ∃ l' c, apply ge cname (scan A0) (scan B0) l p act = some (l', c) ∧
      RunInvB ge cname A0 B0 plan (done ++ [(p, act)]) l' := by
  have hmem : (p, act) ∈ plan := by rw [hp]; simp
  have hdone_mem : ∀ x, x ∈ done → x ∈ plan := fun x hx => by rw [hp]; exact List.mem_append_left _ hx
  have hnotdone : ∀ act', (p, act') ∉ done := by
    intro act' h'
    rw [hp, List.map_append, List.nodup_append] at hnd
    exact hnd.2.2 p (List.mem_map_of_mem (f := (·.1)) h') p (by simp) rfl
  have uniq := act_unique plan hnd
  have hs : Shape (get A0 p) (get B0 p) act := by rw [hact p act hmem]; exact shape_of_reconcile _ _ _
  by_cases hcase : ∃ p0 act0, (p0, act0) ∈ plan ∧ ccName ge cname p0 act0 (get A0 p0) (get B0 p0) = some p
  · ----------------------------------------------------------------- p is a conflict-copy name of this run
    obtain ⟨p0, act0, hm0, hc0⟩ := hcase
    obtain ⟨xa0, yb0, eA0, eB0, eact0, ep⟩ := ccName_some ge cname p0 act0 _ _ p hc0
    obtain ⟨hx0, hy0⟩ := bc.benign p0 act0 p xa0 yb0 hm0 hc0 eA0 eB0
    have hnb : act ≠ .conflict .bothChanged := by
      rw [hact p act hmem]; exact benign_not_both _ _ _ hx0 hy0 _
    have hccnone : ccName ge cname p act (get A0 p) (get B0 p) = none := ccName_none_of_ne ge cname p act _ _ hnb
    have hp0 : p0 ≠ p := by
      intro e
      apply hnb
      have : act0 = act := uniq p act0 act (by rw [← e]; exact hm0) hmem
      rw [← this]; exact eact0
    by_cases hd0 : (p0, act0) ∈ done
    · -- the conflict has run: both sides hold the loser; the entry planned for this name is stale
      obtain ⟨xa, yb, e1, e2, hlA, hlB⟩ := inv.atCopy p0 act0 p hd0 hc0
      rw [eA0] at e1; rw [eB0] at e2; cases e1; cases e2
      obtain ⟨l', happ, hloc, hpA, hpB⟩ := apply_stale ge cname (scan A0) (scan B0) l p act (get A0 p) (get B0 p)
        (loser ge xa0 yb0) hx0 hy0 (lookup_scan A0 p) (lookup_scan B0 p) hs hnb hlA hlB
      refine ⟨l', false, happ, ⟨?_, ?_, ?_, ?_⟩⟩
      · intro q hq
        have hq2 : q ≠ p := fun e => hq (Or.inl ⟨act, by simp [e]⟩)
        obtain ⟨h1, h2⟩ := hloc q hq2
        obtain ⟨h3, h4⟩ := inv.untouched q (touched_append_left ge cname A0 B0 done _ q hq)
        exact ⟨h1.trans h3, h2.trans h4⟩
      · intro p' act' hm' hnc
        rcases List.mem_append.mp hm' with hm | hm
        · have hne : p' ≠ p := fun e => hnc p0 act0 hm0 (by rw [e]; exact hc0)
          obtain ⟨h1, h2⟩ := hloc p' hne
          obtain ⟨h3, h4⟩ := inv.atPath p' act' hm hnc
          exact ⟨h1.trans h3, h2.trans h4⟩
        · simp only [List.mem_singleton, Prod.mk.injEq] at hm
          exact absurd (by rw [hm.1]; exact hc0) (hnc p0 act0 hm0)
      · intro p' act' ln hm' hc
        rcases List.mem_append.mp hm' with hm | hm
        · obtain ⟨xa, yb, e1, e2, h3, h4⟩ := inv.atCopy p' act' ln hm hc
          by_cases hln : ln = p
          · subst hln
            rw [hlA] at h3; rw [hlB] at h4
            exact ⟨xa, yb, e1, e2, by rw [hpA]; exact h3, by rw [hpB]; exact h4⟩
          · obtain ⟨h1, h2⟩ := hloc ln hln
            exact ⟨xa, yb, e1, e2, h1.trans h3, h2.trans h4⟩
        · simp only [List.mem_singleton, Prod.mk.injEq] at hm
          rw [hm.1, hm.2, hccnone] at hc; cases hc
      · intro p' act' ln xa yb hm' hnd' hc eA eB
        have hnd1 : (p', act') ∉ done := fun h => hnd' (List.mem_append_left _ h)
        have hln : ln ≠ p := by
          intro e
          have := bc.distinct p0 act0 p' act' p hm0 hm' hc0 (by rw [← e]; exact hc)
          subst this
          have : act0 = act' := uniq p0 act0 act' hm0 hm'
          subst this
          exact hnd1 hd0
        obtain ⟨h1, h2⟩ := hloc ln hln
        obtain ⟨h3, h4⟩ := inv.weak p' act' ln xa yb hm' hnd1 hc eA eB
        rw [h1, h2]; exact ⟨h3, h4⟩
    · -- the conflict has not run yet: this path is still as scanned
      have hpfresh : ¬ touched ge cname A0 B0 done p := by
        rintro (⟨act', h'⟩ | ⟨p', act', h', hc⟩)
        · exact hnotdone act' h'
        · have := bc.distinct p' act' p0 act0 p (hdone_mem _ h') hm0 hc hc0
          subst this
          have : act' = act0 := uniq p' act' act0 (hdone_mem _ h') hm0
          subst this
          exact hd0 h'
      obtain ⟨hxA, hyB⟩ := inv.untouched p hpfresh
      have hsrc := srcOK_of_reconcile (get A0 p) (get B0 p) (z p) act (hact p act hmem)
      obtain ⟨l', c, happ, hloc, hpA, hpB, _⟩ :=
        apply_local ge cname (scan A0) (scan B0) l p act (get A0 p) (get B0 p) hxA hyB
          (lookup_scan A0 p) (lookup_scan B0 p) hsrc (by intro ln h; rw [hccnone] at h; cases h)
      have hloc' : ∀ q, q ≠ p → get l'.A q = get l.A q ∧ get l'.B q = get l.B q :=
        fun q hq => hloc q hq (by rw [hccnone]; simp)
      obtain ⟨hwA, hwB⟩ := resolve_weak ge act (get A0 p) (get B0 p) (loser ge xa0 yb0) hx0 hy0
      refine ⟨l', c, happ, ⟨?_, ?_, ?_, ?_⟩⟩
      · intro q hq
        have hq2 : q ≠ p := fun e => hq (Or.inl ⟨act, by simp [e]⟩)
        obtain ⟨h1, h2⟩ := hloc' q hq2
        obtain ⟨h3, h4⟩ := inv.untouched q (touched_append_left ge cname A0 B0 done _ q hq)
        exact ⟨h1.trans h3, h2.trans h4⟩
      · intro p' act' hm' hnc
        rcases List.mem_append.mp hm' with hm | hm
        · have hne : p' ≠ p := fun e => hnc p0 act0 hm0 (by rw [e]; exact hc0)
          obtain ⟨h1, h2⟩ := hloc' p' hne
          obtain ⟨h3, h4⟩ := inv.atPath p' act' hm hnc
          exact ⟨h1.trans h3, h2.trans h4⟩
        · simp only [List.mem_singleton, Prod.mk.injEq] at hm
          exact absurd (by rw [hm.1]; exact hc0) (hnc p0 act0 hm0)
      · intro p' act' ln hm' hc
        rcases List.mem_append.mp hm' with hm | hm
        · obtain ⟨xa, yb, e1, e2, h3, h4⟩ := inv.atCopy p' act' ln hm hc
          have hln : ln ≠ p := by
            intro e
            have := bc.distinct p' act' p0 act0 p (hdone_mem _ hm) hm0 (by rw [← e]; exact hc) hc0
            subst this
            have : act' = act0 := uniq p' act' act0 (hdone_mem _ hm) hm0
            subst this
            exact hd0 hm
          obtain ⟨h1, h2⟩ := hloc' ln hln
          exact ⟨xa, yb, e1, e2, h1.trans h3, h2.trans h4⟩
        · simp only [List.mem_singleton, Prod.mk.injEq] at hm
          rw [hm.1, hm.2, hccnone] at hc; cases hc
      · intro p' act' ln xa yb hm' hnd' hc eA eB
        have hnd1 : (p', act') ∉ done := fun h => hnd' (List.mem_append_left _ h)
        by_cases hln : ln = p
        · subst hln
          have := bc.distinct p0 act0 p' act' ln hm0 hm' hc0 hc
          subst this
          rw [eA0] at eA; rw [eB0] at eB; cases eA; cases eB
          rw [hpA, hpB]; exact ⟨hwA, hwB⟩
        · obtain ⟨h1, h2⟩ := hloc' ln hln
          obtain ⟨h3, h4⟩ := inv.weak p' act' ln xa yb hm' hnd1 hc eA eB
          rw [h1, h2]; exact ⟨h3, h4⟩
  · ----------------------------------------------------------------- an ordinary path
    have hnocc : ∀ p' act', (p', act') ∈ plan → ccName ge cname p' act' (get A0 p') (get B0 p') ≠ some p :=
      fun p' act' hm hc => hcase ⟨p', act', hm, hc⟩
    have hpfresh : ¬ touched ge cname A0 B0 done p := by
      rintro (⟨act', h'⟩ | ⟨p', act', h', hc⟩)
      · exact hnotdone act' h'
      · exact hnocc p' act' (hdone_mem _ h') hc
    obtain ⟨hxA, hyB⟩ := inv.untouched p hpfresh
    have hsrc := srcOK_of_reconcile (get A0 p) (get B0 p) (z p) act (hact p act hmem)
    have hcc : ∀ ln, ccName ge cname p act (get A0 p) (get B0 p) = some ln → ln ≠ p :=
      fun ln hln e => hnocc p act hmem (by rw [e] at hln; exact hln)
    obtain ⟨l', c, happ, hloc, hpA, hpB, hcopy⟩ :=
      apply_local ge cname (scan A0) (scan B0) l p act (get A0 p) (get B0 p) hxA hyB
        (lookup_scan A0 p) (lookup_scan B0 p) hsrc hcc
    refine ⟨l', c, happ, ⟨?_, ?_, ?_, ?_⟩⟩
    · intro q hq
      have hq2 : q ≠ p := fun e => hq (Or.inl ⟨act, by simp [e]⟩)
      have hq3 : ccName ge cname p act (get A0 p) (get B0 p) ≠ some q :=
        fun e => hq (Or.inr ⟨p, act, by simp, e⟩)
      obtain ⟨h1, h2⟩ := hloc q hq2 hq3
      obtain ⟨h3, h4⟩ := inv.untouched q (touched_append_left ge cname A0 B0 done _ q hq)
      exact ⟨h1.trans h3, h2.trans h4⟩
    · intro p' act' hm' hnc
      rcases List.mem_append.mp hm' with hm | hm
      · have hne : p' ≠ p := fun e => hnotdone act' (by rw [← e]; exact hm)
        obtain ⟨h1, h2⟩ := hloc p' hne (hnc p act hmem)
        obtain ⟨h3, h4⟩ := inv.atPath p' act' hm hnc
        exact ⟨h1.trans h3, h2.trans h4⟩
      · simp only [List.mem_singleton, Prod.mk.injEq] at hm
        obtain ⟨rfl, rfl⟩ := hm
        exact ⟨hpA, hpB⟩
    · intro p' act' ln hm' hc
      rcases List.mem_append.mp hm' with hm | hm
      · obtain ⟨xa, yb, e1, e2, h3, h4⟩ := inv.atCopy p' act' ln hm hc
        have hne : ln ≠ p := fun e => hnocc p' act' (hdone_mem _ hm) (by rw [← e]; exact hc)
        have hnc : ccName ge cname p act (get A0 p) (get B0 p) ≠ some ln := by
          intro e
          have := bc.distinct p act p' act' ln hmem (hdone_mem _ hm) e hc
          subst this
          exact hnotdone act' hm
        obtain ⟨h1, h2⟩ := hloc ln hne hnc
        exact ⟨xa, yb, e1, e2, h1.trans h3, h2.trans h4⟩
      · simp only [List.mem_singleton, Prod.mk.injEq] at hm
        obtain ⟨rfl, rfl⟩ := hm
        obtain ⟨xa, yb, e1, e2, e3, e4⟩ := ccName_some ge cname p' act' _ _ ln hc
        obtain ⟨h1, h2⟩ := hcopy ln xa yb e1 e2 e3 e4
        exact ⟨xa, yb, e1, e2, h1, h2⟩
    · intro p' act' ln xa yb hm' hnd' hc eA eB
      have hnd1 : (p', act') ∉ done := fun h => hnd' (List.mem_append_left _ h)
      have hne : ln ≠ p := fun e => hnocc p' act' hm' (by rw [← e]; exact hc)
      have hnc : ccName ge cname p act (get A0 p) (get B0 p) ≠ some ln := by
        intro e
        have := bc.distinct p act p' act' ln hmem hm' e hc
        subst this
        have : act = act' := uniq p act act' hmem hm'
        subst this
        exact hnd' (by simp)
      obtain ⟨h1, h2⟩ := hloc ln hne hnc
      obtain ⟨h3, h4⟩ := inv.weak p' act' ln xa yb hm' hnd1 hc eA eB
      rw [h1, h2]; exact ⟨h3, h4⟩

/-- the whole apply loop under `BenignClash`: it completes and the invariant holds for the whole plan -/
theorem run_planB (ge : C → C → Bool) (cname : P → C → P) (A0 B0 : Tree P C) (z : P → Option (Fp C))
    (plan : List (P × Action))
    (hact : ∀ p act, (p, act) ∈ plan → act = reconcilePath ((get A0 p).map mkFp) ((get B0 p).map mkFp) (z p))
    (hnd : (plan.map (·.1)).Nodup) (bc : BenignClash ge cname A0 B0 plan) :
    ∀ (todo done : List (P × Action)) (l : Live P C) (n : Nat), plan = done ++ todo →
      RunInvB ge cname A0 B0 plan done l →
      ∃ l' n', applyAllPartial ge cname (scan A0) (scan B0) todo l n = (l', n', true) ∧
        RunInvB ge cname A0 B0 plan plan l' := by
  intro todo
  induction todo with
  | nil =>
    intro done l n hp inv
    simp only [List.append_nil] at hp
    subst hp
    exact ⟨l, n, rfl, inv⟩
  | cons e rest ih =>
    intro done l n hp inv
    obtain ⟨p, act⟩ := e
    obtain ⟨l', c, happ, inv'⟩ := run_stepB ge cname A0 B0 z plan hact hnd bc done rest p act l hp inv
    have hstep : applyAllPartial ge cname (scan A0) (scan B0) ((p, act) :: rest) l n =
        applyAllPartial ge cname (scan A0) (scan B0) rest l' (if c then n + 1 else n) := by
      simp [applyAllPartial, happ]
    rw [hstep]
    exact ih (done ++ [(p, act)]) l' _ (by rw [hp]; simp) inv'

/-- the invariant before anything ran -/
theorem runInvB_init (ge : C → C → Bool) (cname : P → C → P) (A0 B0 : Tree P C) (plan : List (P × Action))
    (bc : BenignClash ge cname A0 B0 plan) (m : List (P × Fp C)) :
    RunInvB ge cname A0 B0 plan [] { A := A0, B := B0, common := m } :=
  ⟨fun _ _ => ⟨rfl, rfl⟩, fun _ _ h => by simp at h, fun _ _ _ h => by simp at h,
   fun p' act' ln xa yb hm _ hc eA eB => bc.benign p' act' ln xa yb hm hc eA eB⟩

/-- two live states satisfying the invariant for the same WHOLE plan agree at every path -/
theorem runInvB_unique (ge : C → C → Bool) (cname : P → C → P) (A0 B0 : Tree P C) (plan : List (P × Action))
    (l1 l2 : Live P C) (i1 : RunInvB ge cname A0 B0 plan plan l1) (i2 : RunInvB ge cname A0 B0 plan plan l2) (q : P) :
    get l1.A q = get l2.A q ∧ get l1.B q = get l2.B q := by
  by_cases h2 : ∃ p act, (p, act) ∈ plan ∧ ccName ge cname p act (get A0 p) (get B0 p) = some q
  · obtain ⟨p, act, hm, hc⟩ := h2
    obtain ⟨xa, yb, e1, e2, a1, b1⟩ := i1.atCopy p act q hm hc
    obtain ⟨xa', yb', e1', e2', a2, b2⟩ := i2.atCopy p act q hm hc
    rw [e1] at e1'; rw [e2] at e2'; cases e1'; cases e2'
    exact ⟨a1.trans a2.symm, b1.trans b2.symm⟩
  · have hnc : ∀ p' act', (p', act') ∈ plan → ccName ge cname p' act' (get A0 p') (get B0 p') ≠ some q :=
      fun p' act' hm hc => h2 ⟨p', act', hm, hc⟩
    by_cases h1 : ∃ act, (q, act) ∈ plan
    · obtain ⟨act, hm⟩ := h1
      obtain ⟨a1, b1⟩ := i1.atPath q act hm hnc
      obtain ⟨a2, b2⟩ := i2.atPath q act hm hnc
      exact ⟨a1.trans a2.symm, b1.trans b2.symm⟩
    · have hnt : ¬ touched ge cname A0 B0 plan q := by
        rintro (h | ⟨p, act, hm, hc⟩)
        · exact h1 h
        · exact hnc p act hm hc
      obtain ⟨a1, b1⟩ := i1.untouched q hnt
      obtain ⟨a2, b2⟩ := i2.untouched q hnt
      exact ⟨a1.trans a2.symm, b1.trans b2.symm⟩

/-- the NoNameClash invariant is an instance -/
theorem RunInv.toB {ge : C → C → Bool} {cname : P → C → P} {A0 B0 : Tree P C} {plan : List (P × Action)} {l : Live P C}
    (inv : RunInv ge cname A0 B0 plan l) : RunInvB ge cname A0 B0 plan plan l :=
  ⟨inv.untouched, fun p act hm _ => inv.atPath p act hm, inv.atCopy,
   fun _ _ _ _ _ hm hn _ _ _ => absurd hm hn⟩

end Copia.Bisync
