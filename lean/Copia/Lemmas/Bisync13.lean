import Copia.Lemmas.Bisync11
/-!
# The apply loop under a BENIGN name clash

`NoNameClash` (Bisync4) demands that no conflict-copy name the run writes is live. A run that was
killed inside a conflict action and is started again does not meet it: the copy the first run wrote
is live on one or both sides. What it does meet is `BenignClash`: a conflict-copy name may be live,
provided it holds exactly the losing content this run is going to write there. This file carries the
run invariant through the apply loop under that weaker hypothesis (`run_planB`); the final state is
the same function of the scanned trees and the plan (`RunInvB.final_*`).

The one place where the model's (and the code's) re-validation of a planned delete against the LIVE
other side matters is `apply_stale` below: the entry planned for a conflict-copy name runs after the
conflict action has already written that name on both sides.
-/
namespace Copia.Bisync
open Copia.Reconcile

variable {P C : Type} [DecidableEq P] [DecidableEq C]

/-- A conflict-copy name of this run may be live, but only with the losing content the run writes there. -/
structure BenignClash (ge : C → C → Bool) (cname : P → C → P) (A0 B0 : Tree P C) (plan : List (P × Action)) : Prop where
  benign : ∀ p act ln xa yb, (p, act) ∈ plan → ccName ge cname p act (get A0 p) (get B0 p) = some ln →
    get A0 p = some xa → get B0 p = some yb →
    (get A0 ln = none ∨ get A0 ln = some (loser ge xa yb)) ∧ (get B0 ln = none ∨ get B0 ln = some (loser ge xa yb))
  distinct : ∀ p act p' act' ln, (p, act) ∈ plan → (p', act') ∈ plan →
    ccName ge cname p act (get A0 p) (get B0 p) = some ln →
    ccName ge cname p' act' (get A0 p') (get B0 p') = some ln → p = p'

theorem NoNameClash.toBenign {ge : C → C → Bool} {cname : P → C → P} {A0 B0 : Tree P C} {plan : List (P × Action)}
    (nnc : NoNameClash ge cname A0 B0 plan) : BenignClash ge cname A0 B0 plan :=
  ⟨fun p act ln _ _ hm hc _ _ => by
      obtain ⟨h1, h2⟩ := nnc.notLive p act ln hm hc
      exact ⟨Or.inl h1, Or.inl h2⟩,
   nnc.distinct⟩

/-- state of the live trees after the prefix `done` of `plan`, when conflict-copy names may be plan paths -/
structure RunInvB (ge : C → C → Bool) (cname : P → C → P) (A0 B0 : Tree P C) (plan done : List (P × Action))
    (l : Live P C) : Prop where
  untouched : ∀ q, ¬ touched ge cname A0 B0 done q → get l.A q = get A0 q ∧ get l.B q = get B0 q
  atPath : ∀ p act, (p, act) ∈ done →
    (∀ p' act', (p', act') ∈ plan → ccName ge cname p' act' (get A0 p') (get B0 p') ≠ some p) →
    get l.A p = (resolve ge act (get A0 p) (get B0 p)).1 ∧ get l.B p = (resolve ge act (get A0 p) (get B0 p)).2
  atCopy : ∀ p act ln, (p, act) ∈ done → ccName ge cname p act (get A0 p) (get B0 p) = some ln →
    ∃ xa yb, get A0 p = some xa ∧ get B0 p = some yb ∧
      get l.A ln = some (loser ge xa yb) ∧ get l.B ln = some (loser ge xa yb)
  weak : ∀ p' act' ln xa yb, (p', act') ∈ plan → (p', act') ∉ done →
    ccName ge cname p' act' (get A0 p') (get B0 p') = some ln → get A0 p' = some xa → get B0 p' = some yb →
    (get l.A ln = none ∨ get l.A ln = some (loser ge xa yb)) ∧ (get l.B ln = none ∨ get l.B ln = some (loser ge xa yb))

/-- with a side absent, or both sides equal, `reconcile_path` never answers "both changed" -/
theorem benign_not_both (x y : Option C) (L : C) (hx : x = none ∨ x = some L) (hy : y = none ∨ y = some L)
    (z : Option (Fp C)) : reconcilePath (x.map mkFp) (y.map mkFp) z ≠ .conflict .bothChanged := by
  rcases hx with rfl | rfl <;> rcases hy with rfl | rfl
  · cases z <;> simp [reconcilePath]
  · cases z with
    | none => simp [reconcilePath]
    | some zv => simp only [reconcilePath, Option.map_some, Option.map_none]; split <;> simp
  · cases z with
    | none => simp [reconcilePath]
    | some zv => simp only [reconcilePath, Option.map_some, Option.map_none]; split <;> simp
  · simp only [reconcilePath, Option.map_some, same_mkFp, decide_true, if_true]
    split
    · split <;> simp
    · simp

theorem ccName_none_of_ne (ge : C → C → Bool) (cname : P → C → P) (p : P) (act : Action) (x y : Option C)
    (h : act ≠ .conflict .bothChanged) : ccName ge cname p act x y = none := by
  unfold ccName
  split
  · exact absurd rfl h
  · rfl

/-- each component of what an action leaves at its path is one of the two contents it found there, or nothing -/
theorem resolve_weak (ge : C → C → Bool) (act : Action) (x y : Option C) (L : C)
    (hx : x = none ∨ x = some L) (hy : y = none ∨ y = some L) :
    ((resolve ge act x y).1 = none ∨ (resolve ge act x y).1 = some L) ∧
    ((resolve ge act x y).2 = none ∨ (resolve ge act x y).2 = some L) := by
  rcases hx with rfl | rfl <;> rcases hy with rfl | rfl <;> cases act <;>
    first
    | (simp [resolve, winner]; done)
    | (rename_i k; cases k <;> simp [resolve, winner])

/-- The entry planned for a path that has meanwhile been written (same content `L` on both sides) by
this run: whatever was planned from the stale scan — create, restore, record, or DELETE — leaves `L`
on both sides. For the delete this is the re-validation against the live other side. -/
theorem apply_stale (ge : C → C → Bool) (cname : P → C → P) (a b : List (P × Fp C)) (l : Live P C) (p : P)
    (act : Action) (x y : Option C) (L : C) (hx : x = none ∨ x = some L) (hy : y = none ∨ y = some L)
    (ha : lookup a p = x.map mkFp) (hb : lookup b p = y.map mkFp) (hs : Shape x y act)
    (hnb : act ≠ .conflict .bothChanged) (hlA : get l.A p = some L) (hlB : get l.B p = some L) :
    ∃ l', apply ge cname a b l p act = some (l', false) ∧
      (∀ q, q ≠ p → get l'.A q = get l.A q ∧ get l'.B q = get l.B q) ∧
      get l'.A p = some L ∧ get l'.B p = some L := by
  cases hs with
  | noop => exact ⟨l, rfl, fun _ _ => ⟨rfl, rfl⟩, hlA, hlB⟩
  | conv v h1 h2 => exact ⟨_, rfl, fun _ _ => ⟨rfl, rfl⟩, hlA, hlB⟩
  | ab v h1 =>
    refine ⟨{ l with B := ins l.B p L, common := cInsOpt l.common p (lookup a p) }, ?_, ?_, hlA, by simp [get_ins]⟩
    · simp [apply, copyLive_some _ _ _ _ _ hlA]
    · intro q hq; exact ⟨rfl, by simp [get_ins, hq]⟩
  | ba v h1 =>
    refine ⟨{ l with A := ins l.A p L, common := cInsOpt l.common p (lookup b p) }, ?_, ?_, by simp [get_ins], hlB⟩
    · simp [apply, copyLive_some _ _ _ _ _ hlB]
    · intro q hq; exact ⟨by simp [get_ins, hq], rfl⟩
  | delA h1 => exact ⟨l, by simp [apply, hlB], fun _ _ => ⟨rfl, rfl⟩, hlA, hlB⟩
  | delB h1 => exact ⟨l, by simp [apply, hlA], fun _ _ => ⟨rfl, rfl⟩, hlA, hlB⟩
  | dvmA v h1 h2 =>
    subst h1
    refine ⟨{ l with B := ins l.B p L, common := cInsOpt l.common p (lookup a p) }, ?_, ?_, hlA, by simp [get_ins]⟩
    · simp [apply, ha, copyLive_some _ _ _ _ _ hlA]
    · intro q hq; exact ⟨rfl, by simp [get_ins, hq]⟩
  | dvmB v h1 h2 =>
    subst h1 h2
    refine ⟨{ l with A := ins l.A p L, common := cInsOpt l.common p (lookup b p) }, ?_, ?_, by simp [get_ins], hlB⟩
    · simp [apply, ha, hb, copyLive_some _ _ _ _ _ hlB]
    · intro q hq; exact ⟨by simp [get_ins, hq], rfl⟩
  | both xa yb h1 h2 => exact absurd rfl hnb

/-- paths of a plan are distinct, so a path determines its action -/
theorem act_unique (plan : List (P × Action)) (hnd : (plan.map (·.1)).Nodup) (p : P) (a1 a2 : Action)
    (h1 : (p, a1) ∈ plan) (h2 : (p, a2) ∈ plan) : a1 = a2 := by
  induction plan with
  | nil => simp at h1
  | cons e r ih =>
    simp only [List.map_cons, List.nodup_cons] at hnd
    rcases List.mem_cons.mp h1 with e1 | e1 <;> rcases List.mem_cons.mp h2 with e2 | e2
    · rw [← e1] at e2; cases e2; rfl
    · exfalso; apply hnd.1; rw [← e1]; exact List.mem_map_of_mem (f := (·.1)) e2
    · exfalso; apply hnd.1; rw [← e2]; exact List.mem_map_of_mem (f := (·.1)) e1
    · exact ih hnd.2 e1 e2

end Copia.Bisync
