import Copia.Gen.LoopsDelta
/-!
# `Signature::generate`'s block list and `BlockSignature::compute`, as translated from the source = the model's `sigLoop`

The source maps `BlockSignature::compute(i as u32, chunk)` over the numbered chunks, on the rayon path (> 64 KiB) and
on the sequential path alike; the model (`sigLoop`) is the async engine's fill-a-buffer loop.
-/
namespace Copia.GenEqLoops
open Copia.Delta Copia.DeltaSupport

variable {D : Type}

theorem gen_map_eq (H : List Nat → D) (bs : Nat) :
    ∀ (fuel i : Nat) (l : List Nat), i + fuel ≤ 4294967296 →
      (enumFrom i (chunksFuel bs fuel l)).map (fun x => Copia.Gen.Loops.blockCompute H (x.1 % 4294967296) x.2) =
        sigLoop H bs fuel i l
  | 0, _, _, _ => rfl
  | fuel+1, i, l, h => by
    unfold chunksFuel sigLoop
    cases hl : l.isEmpty
    · simp only [Bool.false_eq_true, if_false, enumFrom, List.map_cons]
      have hi : i % 4294967296 = i := Nat.mod_eq_of_lt (by omega)
      rw [hi, gen_map_eq H bs fuel (i + 1) (l.drop bs) (by omega)]
      rfl
    · simp [enumFrom]

theorem generateBlocks_eq (H : List Nat → D) (bs : Nat) (data : List Nat) (hn : data.length ≤ 4294967296) :
    Copia.Gen.Loops.generateBlocks H bs data = (signature H bs data).blocks := by
  unfold Copia.Gen.Loops.generateBlocks signature enumerate chunks
  simp only [Id.run, bind, pure, ite_self]
  exact gen_map_eq H bs data.length 0 data (by omega)

end Copia.GenEqLoops
