import Copia.Lemmas.Bisync10
namespace Copia.Bisync
open Copia.Reconcile

variable {P C : Type} [DecidableEq P] [DecidableEq C]

/-- `common0` of `bisync` -/
def common0 (s : State P C) : List (P × Fp C) :=
  (s.arch.getD []).filter fun e => (lookup (scan s.A) e.1).isSome || (lookup (scan s.B) e.1).isSome

/-- a whole run under NoNameClash: the apply loop completes, and the live trees and the archive
being built satisfy their invariants for the whole plan -/
theorem bisync_run (le : P → P → Bool)
    (trans : ∀ a b c, le a b → le b c → le a c) (total : ∀ a b, le a b || le b a)
    (antisymm : ∀ a b, le a b → le b a → a = b) (ge : C → C → Bool) (cname : P → C → P) (s : State P C)
    (nnc : NoNameClash ge cname s.A s.B (bisyncPlan le s)) :
    ∃ l n, applyAllPartial ge cname (scan s.A) (scan s.B) (bisyncPlan le s)
        { A := s.A, B := s.B, common := common0 s } 0 = (l, n, true) ∧
      RunInv ge cname s.A s.B (bisyncPlan le s) l ∧
      ArchInv ge cname s.A s.B (common0 s) (bisyncPlan le s) l.common := by
  obtain ⟨hact, hlive, hnd, _⟩ := plan_facts le trans total antisymm s
  have hnn : ∀ p act, (p, act) ∈ bisyncPlan le s → act ≠ .noop := by
    intro p act hm
    exact ((Copia.C18.mem_reconcile le _ _ _ _ p act).mp hm).2.2
  have init : RunInv ge cname s.A s.B [] { A := s.A, B := s.B, common := common0 s } :=
    ⟨fun _ _ => ⟨rfl, rfl⟩, fun _ _ h => by simp at h, fun _ _ _ h => by simp at h⟩
  have initA : ArchInv ge cname s.A s.B (common0 s) [] (common0 s) :=
    ⟨fun _ _ => rfl, fun _ _ h => by simp at h, fun _ _ _ h => by simp at h⟩
  obtain ⟨l', n', hrun, inv⟩ := run_plan ge cname s.A s.B (baseOf s) (bisyncPlan le s) hact hlive hnd nnc
    (bisyncPlan le s) [] _ 0 (by simp) init
  exact ⟨l', n', hrun, inv,
    run_arch ge cname s.A s.B (baseOf s) (common0 s) (bisyncPlan le s) hact hnn hlive hnd nnc
      (bisyncPlan le s) [] _ l' 0 n' (by simp) initA init hrun⟩

theorem bisync_of_run (le : P → P → Bool) (ge : C → C → Bool) (cname : P → C → P) (s : State P C)
    (l : Live P C) (n : Nat)
    (h : applyAllPartial ge cname (scan s.A) (scan s.B) (bisyncPlan le s)
        { A := s.A, B := s.B, common := common0 s } 0 = (l, n, true)) :
    bisync le ge cname s =
      { state := { A := l.A, B := l.B, arch := some l.common }, planLen := (bisyncPlan le s).length,
        nConflicts := n, status := if n = 0 then .ok else .conflicts } := by
  unfold bisyncPlan common0 at h
  unfold bisync bisyncPlan
  simp only [h, if_true]

/-- archive = tree at every path, at the invariant level -/
theorem arch_eq_tree (le : P → P → Bool)
    (trans : ∀ a b c, le a b → le b c → le a c) (total : ∀ a b, le a b || le b a)
    (antisymm : ∀ a b, le a b → le b a → a = b) (ge : C → C → Bool) (cname : P → C → P) (s : State P C)
    (l : Live P C)
    (inv : RunInv ge cname s.A s.B (bisyncPlan le s) l)
    (ainv : ArchInv ge cname s.A s.B (common0 s) (bisyncPlan le s) l.common) (q : P) :
    lookup l.common q = (get l.A q).map mkFp := by
  obtain ⟨_, _, _, hrest⟩ := plan_facts le trans total antisymm s
  by_cases h1 : ∃ act, (q, act) ∈ bisyncPlan le s
  · obtain ⟨act, hm⟩ := h1
    rw [ainv.atPath q act hm, (inv.atPath q act hm).1]
  · by_cases h2 : ∃ p act, (p, act) ∈ bisyncPlan le s ∧ ccName ge cname p act (get s.A p) (get s.B p) = some q
    · obtain ⟨p, act, hm, hc⟩ := h2
      obtain ⟨xa, yb, e1, e2, hA, _⟩ := inv.atCopy p act q hm hc
      obtain ⟨xa', yb', e1', e2', hC⟩ := ainv.atCopy p act q hm hc
      rw [e1] at e1'; rw [e2] at e2'
      cases e1'; cases e2'
      rw [hC, hA]; rfl
    · have hnt : ¬ touched ge cname s.A s.B (bisyncPlan le s) q := by
        rintro (h | h)
        · exact h1 h
        · exact h2 h
      rw [ainv.untouched q hnt, (inv.untouched q hnt).1]
      have hno := hrest q (fun act hm => h1 ⟨act, hm⟩)
      unfold common0
      rw [lookup_filter_key (s.arch.getD []) (fun k => (lookup (scan s.A) k).isSome || (lookup (scan s.B) k).isSome) q]
      rw [lookup_scan, lookup_scan]
      rcases noop_base _ _ _ hno with ⟨ex, ey⟩ | ⟨hsome, hz⟩
      · simp [ex, ey]
      · obtain ⟨v, hv⟩ := Option.isSome_iff_exists.mp hsome
        rw [hv] at hz ⊢
        unfold baseOf at hz
        split at hz
        · simp [hz]
        · cases hz

end Copia.Bisync
