import Copia.Model.HubGetSolo
/-! `soloGet` is an execution of the reader's transition system `HubGet.GStep` (no writer step in between). -/
namespace Copia.HubGet
open Copia.HubConc

theorem greach_trans {S : Sys} {p : Path} {a b c : GState} (h1 : GReach S p a b) (h2 : GReach S p b c) : GReach S p a c := by
  induction h2 with
  | refl => exact h1
  | step _ st ih => exact GReach.step ih st

/-- the first pass: from `acc` (a prefix of the file) to the whole file, one `hashRead` per remaining chunk -/
theorem hash_pass (S : Sys) (p : Path) (s : State) (n : Ino) (len : Nat) :
    ∀ (rest acc : List Chunk), s.ino n = acc ++ rest →
      GReach S p ⟨s, .hashing n len acc⟩ ⟨s, .hashing n len (s.ino n)⟩ := by
  intro rest
  induction rest with
  | nil => intro acc h; rw [h, List.append_nil]; exact GReach.refl _
  | cons x xs ih =>
    intro acc h
    have hx : (s.ino n)[acc.length]? = some x := by rw [h]; simp
    have step : GStep S p ⟨s, .hashing n len acc⟩ ⟨s, .hashing n len (acc ++ [x])⟩ := GStep.hashRead s n len acc x hx
    exact greach_trans (GReach.step (GReach.refl _) step) (ih (acc ++ [x]) (by rw [h]; simp))

/-- the second pass: one `sendRead` per chunk until `len` chunks are out -/
theorem send_pass (S : Sys) (p : Path) (s : State) (n : Ino) (hh : Hash) :
    ∀ (rest sent : List Chunk), s.ino n = sent ++ rest →
      GReach S p ⟨s, .announced n (s.ino n).length hh sent⟩ ⟨s, .announced n (s.ino n).length hh (s.ino n)⟩ := by
  intro rest
  induction rest with
  | nil => intro sent h; rw [h, List.append_nil]; exact GReach.refl _
  | cons x xs ih =>
    intro sent h
    have hx : (s.ino n)[sent.length]? = some x := by rw [h]; simp
    have hl : sent.length < (s.ino n).length := by rw [h]; simp
    have step : GStep S p ⟨s, .announced n (s.ino n).length hh sent⟩ ⟨s, .announced n (s.ino n).length hh (sent ++ [x])⟩ :=
      GStep.sendRead s n _ hh sent x hl hx
    exact greach_trans (GReach.step (GReach.refl _) step) (ih (sent ++ [x]) (by rw [h]; simp))

theorem soloGet_reach (S : Sys) (s : State) (p : Path) : GReach S p ⟨s, .start⟩ ⟨s, (soloGet S s p).1⟩ := by
  unfold soloGet
  cases hd : s.dir p with
  | none => exact GReach.step (GReach.refl _) (GStep.openFail s hd)
  | some n =>
    simp only [List.take_length]
    have r1 : GReach S p ⟨s, .start⟩ ⟨s, .hashing n (s.ino n).length []⟩ :=
      GReach.step (GReach.step (GReach.step (GReach.refl _) (GStep.openOk s n hd)) (GStep.stat s n)) (GStep.hashStart s n _)
    have r2 := hash_pass S p s n (s.ino n).length (s.ino n) [] (by simp)
    have r3 : GStep S p ⟨s, .hashing n (s.ino n).length (s.ino n)⟩ ⟨s, .announced n (s.ino n).length (S.H (s.ino n)) []⟩ :=
      GStep.hashEof s n _ (s.ino n) (by simp)
    have r4 := send_pass S p s n (S.H (s.ino n)) (s.ino n) [] (by simp)
    have r5 : GStep S p ⟨s, .announced n (s.ino n).length (S.H (s.ino n)) (s.ino n)⟩ ⟨s, .replied n (s.ino n).length (S.H (s.ino n)) (s.ino n)⟩ :=
      GStep.sendDone s n _ _ (s.ino n) (Or.inl rfl)
    exact GReach.step (greach_trans (GReach.step (greach_trans r1 r2) r3) r4) r5

end Copia.HubGet
