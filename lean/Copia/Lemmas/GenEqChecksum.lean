import Copia.Gen.Checksum
/-!
# The checksum methods TRANSLATED from `src/checksum.rs` on this run equal the hand-written model

`Copia.Gen.Checksum` is regenerated from the Rust text by `tools/rs2lean_arith.py` on every check run.
Each definition is proved equal to the model the C17 / C16 theorems are stated about, so a change of
the arithmetic in the source (a bias, a missing `+ MOD`, a cast, the normalisation test) breaks a proof
here — before any input is generated.
-/
namespace Copia.GenEqChecksum
open Copia.Checksum Copia.Gen.Checksum

theorem loop_eq_sumLoop (len : Nat) : ∀ (w : List Nat) (i a b : Nat),
    rollingNew.loop len w i a b = sumLoop w (len - i) a b
  | [], _, _, _ => by simp [rollingNew.loop, sumLoop]
  | x :: xs, i, a, b => by
    simp only [rollingNew.loop, sumLoop]
    rw [loop_eq_sumLoop len xs (i + 1), Nat.sub_add_eq]

theorem fastLoop_eq_sumLoop (len : Nat) : ∀ (w : List Nat) (i a b : Nat),
    fastNew.loop len w i a b = sumLoop w (len - i) a b
  | [], _, _, _ => by simp [fastNew.loop, sumLoop]
  | x :: xs, i, a, b => by
    simp only [fastNew.loop, sumLoop]
    rw [fastLoop_eq_sumLoop len xs (i + 1), Nat.sub_add_eq]

theorem rollingNew_eq (w : List Nat) : rollingNew w = Rolling.new w := by
  simp only [rollingNew, Rolling.new, loop_eq_sumLoop, Nat.sub_zero]

theorem rollingRoll_eq (s : Rolling) (o n : Nat) : rollingRoll s o n = s.roll o n := rfl

theorem rollingPush_eq (s : Rolling) (x : Nat) : rollingPush s x = s.push x := rfl

theorem rollingDigest_eq (s : Rolling) : rollingDigest s = s.digest := rfl

theorem fastNew_eq (w : List Nat) : fastNew w = Fast.new w := by
  simp only [fastNew, Fast.new, fastLoop_eq_sumLoop, Nat.sub_zero]

theorem fastRoll_eq (s : Fast) (o n : Nat) : fastRoll s o n = s.roll o n := by
  simp only [fastRoll, Fast.roll, Fast.norm]

theorem fastPush_eq (s : Fast) (x : Nat) : fastPush s x = s.push x := by
  simp only [fastPush, Fast.push, Fast.norm]

theorem fastDigest_eq (s : Fast) : fastDigest s = s.digest := rfl

end Copia.GenEqChecksum
