import Copia.Lemmas.Delta2
import Copia.Lemmas.Checksum3
namespace Copia.Delta
open Copia.Checksum

theorem findMatch_eq_find {D} [DecidableEq D] (H : List Nat → D) (blocks : List (BlockSig D)) (wd : Nat)
    (rest : List Nat) (bs : Nat) :
    findMatch H blocks wd rest bs =
      blocks.find? (fun b => decide (b.weak = wd) && decide (b.strong = H (rest.take bs))) := by
  simp only [findMatch]
  split
  · next he =>
    have : blocks.filter (fun b => decide (b.weak = wd)) = [] := by simpa using he
    symm
    rw [List.find?_eq_none]
    intro b hb
    have hnb : b ∉ blocks.filter (fun b => decide (b.weak = wd)) := by rw [this]; simp
    simp only [List.mem_filter, hb, true_and] at hnb
    simp [hnb]
  · rw [List.find?_filter]
    congr 1
    funext a
    simp

/-- On the signature's block list, "weak and strong hash agree with the window's" picks exactly the
first block whose bytes equal the window — given (i) the weak hash the scan holds *is* the window's
checksum and (ii) `H` does not collide between a block and the window. -/
theorem find_sigLoop {D} [DecidableEq D] (H : List Nat → D) (bs : Nat) (w : List Nat) (wd : Nat)
    (hwd : wd = (Rolling.new w).digest) :
    ∀ (fuel i : Nat) (l : List Nat),
      (∀ m, H ((l.drop (m * bs)).take bs) = H w → (l.drop (m * bs)).take bs = w) →
      ((sigLoop H bs fuel i l).find? (fun b => decide (b.weak = wd) && decide (b.strong = H w))).map (·.index)
        = firstEq bs fuel i l w
  | 0, _, _, _ => by simp [sigLoop, firstEq]
  | fuel+1, i, l, hcf => by
    unfold sigLoop firstEq
    by_cases he : l.isEmpty = true
    · simp [he]
    · have he' : l.isEmpty = false := by simpa using he
      simp only [he', Bool.false_eq_true, if_false]
      have hcf0 := hcf 0
      simp only [Nat.zero_mul, List.drop_zero] at hcf0
      by_cases hw : l.take bs = w
      · simp only [hw, if_true, List.find?_cons]
        simp [hwd]
      · simp only [hw, if_false, List.find?_cons]
        have hs : ¬ (H (l.take bs) = H w) := fun h => hw (hcf0 h)
        simp only [hs, decide_false, Bool.and_false]
        apply find_sigLoop H bs w wd hwd fuel (i + 1) (l.drop bs)
        intro m hm
        have := hcf (m + 1)
        rw [List.drop_drop] at hm ⊢
        rw [Nat.add_mul, Nat.one_mul, Nat.add_comm] at this
        exact this hm

end Copia.Delta

namespace Copia.Delta
open Copia.Checksum

theorem take_succ_of_drop : ∀ (n : Nat) (l : List Nat) (y : Nat) (t : List Nat),
    l.drop n = y :: t → l.take (n + 1) = l.take n ++ [y]
  | 0, l, y, t, h => by simp at h; simp [h]
  | n+1, [], y, t, h => by simp at h
  | n+1, a :: l, y, t, h => by
    simp only [List.drop_succ_cons] at h
    simp only [List.take_succ_cons, List.cons_append]
    rw [take_succ_of_drop n l y t h]

theorem bytes_take {l : List Nat} (h : Bytes l) (n : Nat) : Bytes (l.take n) :=
  fun x hx => h x (List.mem_of_mem_take hx)

theorem bytes_drop {l : List Nat} (h : Bytes l) (n : Nat) : Bytes (l.drop n) :=
  fun x hx => h x (List.mem_of_mem_drop hx)

/-- the weak hash the scan holds, when its invariant holds, is the signature-side checksum of the window -/
theorem weak_of_good (s : Fast) (w : List Nat) (g : Good s w) : s.digest = (Rolling.new w).digest := by
  rw [Fast.digest_good s w g, Rolling.new_eq w g.bytes g.lenle, Rolling.digest_ofWindow]

theorem scan_eq_tscan {D} [DecidableEq D] (H : List Nat → D) (bs : Nat) (hbs : 0 < bs) (hbs2 : bs ≤ 65536)
    (basis src : List Nat) (hsrc : Bytes src) (hcf : CollisionFree H bs basis src) :
    ∀ (fuel k : Nat) (rest ahead : List Nat) (rem : Nat) (rolling : Fast) (rops : List Op),
      rest = src.drop k → ahead = rest.drop bs → rem = rest.length →
      (bs ≤ rem → Good rolling (rest.take bs)) →
      scan H (signature H bs basis).blocks bs fuel rest ahead rem rolling rops = tscan bs basis fuel rest rops
  | 0, _, _, _, _, _, _, _, _, _, _ => by simp [scan, tscan]
  | fuel+1, k, rest, ahead, rem, rolling, rops, hk, ha, hr, hg => by
    unfold scan tscan
    rw [← hr]
    by_cases hle : bs ≤ rem
    · simp only [hle, if_true]
      have g := hg hle
      have hwd := weak_of_good rolling _ g
      have hfe := find_sigLoop H bs (rest.take bs) rolling.digest hwd basis.length 0 basis
        (fun m hm => by rw [hk] at hm ⊢; exact hcf m k hm)
      rw [← findMatch_eq_find] at hfe
      have hsig : (signature H bs basis).blocks = sigLoop H bs basis.length 0 basis := rfl
      rw [← hsig] at hfe
      have hbr : Bytes rest := by rw [hk]; exact bytes_drop hsrc k
      cases hfm : findMatch H (signature H bs basis).blocks rolling.digest rest bs with
      | some sg =>
        rw [hfm] at hfe
        simp only [Option.map_some] at hfe
        rw [← hfe]
        simp only []
        rw [ha]
        apply scan_eq_tscan H bs hbs hbs2 basis src hsrc hcf fuel (k + bs)
        · rw [hk, List.drop_drop]
        · rfl
        · rw [List.length_drop, hr]
        · intro hle2
          simp only [hle2, if_true]
          apply Fast.new_good
          · exact bytes_take (bytes_drop hbr bs) bs
          · show (List.take bs (List.drop bs rest)).length ≤ 65536
            rw [List.length_take]; omega
      | none =>
        rw [hfm] at hfe
        simp only [Option.map_none] at hfe
        rw [← hfe]
        cases hrest : rest with
        | nil => simp [hrest] at hr; omega
        | cons x rest' =>
          simp only []
          apply scan_eq_tscan H bs hbs hbs2 basis src hsrc hcf fuel (k + 1)
          · exact (drop_succ_of_cons (by rw [← hk, hrest])).symm
          · rw [ha, hrest]; exact tail_drop_cons x rest' bs hbs
          · simp [hrest] at hr; omega
          · intro hle2
            have hlt : bs < rem := by omega
            simp only [hlt, if_true]
            -- ahead is non-empty: it starts with rest[bs]
            have hal : ahead.length = rem - bs := by rw [ha, List.length_drop, hr]
            cases hah : ahead with
            | nil => rw [hah] at hal; simp at hal; omega
            | cons y t =>
              simp only []
              obtain ⟨n, rfl⟩ : ∃ n, bs = n + 1 := ⟨bs - 1, by omega⟩
              have hd : rest'.drop n = y :: t := by
                rw [← hah, ha, hrest]; rfl
              have hw0 : rest.take (n + 1) = x :: rest'.take n := by rw [hrest]; rfl
              rw [hw0] at g
              have := (Fast.roll_good rolling x y (rest'.take n) g
                (hbr y (by rw [hrest]; exact List.mem_cons_of_mem _ (List.mem_of_mem_drop (by rw [hd]; exact List.mem_cons_self ..))))).2
              rwa [← take_succ_of_drop n rest' y t hd] at this
    · simp only [hle, if_false]

end Copia.Delta
