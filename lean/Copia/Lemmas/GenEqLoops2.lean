import Copia.Gen.LoopsPlan
import Copia.Lemmas.GlobFuel
/-!
# `glob_match` as translated from the source = the model's matcher

`Copia.Gen.Loops.globMatch fuel` is the source's index loop (`pi`, `ti`, `star`, `mark`; two `while`
loops run for at most `fuel` rounds each). Here: each round of the first loop is one call of the
model's suffix-form `loopO` (`simA`), the second loop is `dropWhile (· == '*')` (`simB`), and with
the fuel the model supplies neither loop runs out (`GlobFuel.loopO_globMatch_fuel`).
-/
namespace Copia.GenEqLoops
open Copia.Plan

/-- at most `n` rounds of a loop body that either ends the loop (`done`) or goes on (`yield`) -/
def iter {σ : Type} (step : σ → ForInStep σ) : Nat → σ → σ
  | 0, s => s
  | n+1, s => match step s with
    | .done s' => s'
    | .yield s' => iter step n s'

theorem forIn_replicate {σ : Type} (step : σ → ForInStep σ) (f : Unit → σ → Id (ForInStep σ))
    (hf : ∀ u s, f u s = pure (step s)) (n : Nat) (s : σ) :
    forIn (m := Id) (List.replicate n ()) s f = pure (iter step n s) := by
  induction n generalizing s with
  | zero => simp [iter]
  | succ n ih =>
    rw [List.replicate_succ, List.forIn_cons, hf]
    simp only [pure_bind, iter]
    cases step s with
    | done s' => rfl
    | yield s' => exact ih s'

theorem drop_cons_get (l : List Char) (i : Nat) (x : Char) (r : List Char) (h : x :: r = l.drop i) :
    i < l.length ∧ l[i]! = x ∧ l.drop (i + 1) = r := by
  have hi : i < l.length := by
    rcases Nat.lt_or_ge i l.length with h1 | h1
    · exact h1
    · rw [List.drop_eq_nil_of_le h1] at h; cases h
  rw [List.drop_eq_getElem_cons hi] at h
  simp only [List.cons.injEq] at h
  exact ⟨hi, by rw [getElem!_pos l i hi]; exact h.1.symm, h.2.symm⟩

theorem drop_nil_ge (l : List Char) (i : Nat) (h : [] = l.drop i) : l.length ≤ i := by
  rcases Nat.lt_or_ge i l.length with h1 | h1
  · rw [List.drop_eq_getElem_cons h1] at h; cases h
  · exact h1

/-- state of the first loop: (early return value, pi, ti, star, mark, "loop condition failed") -/
abbrev St1 := Option (Option Bool) × Nat × Nat × Option Nat × Nat × Bool

def body1 (p t : List Char) (s : St1) : ForInStep St1 :=
  if (!decide (s.2.2.1 < t.length)) = true then .done ⟨none, s.2.1, s.2.2.1, s.2.2.2.1, s.2.2.2.2.1, true⟩
  else if (decide (s.2.1 < p.length) && p[s.2.1]! == '*') = true then
    .yield ⟨none, s.2.1 + 1, s.2.2.1, some s.2.1, s.2.2.1, s.2.2.2.2.2⟩
  else if (decide (s.2.1 < p.length) && (p[s.2.1]! == '?' || p[s.2.1]! == t[s.2.2.1]!)) = true then
    .yield ⟨none, s.2.1 + 1, s.2.2.1 + 1, s.2.2.2.1, s.2.2.2.2.1, s.2.2.2.2.2⟩
  else match s.2.2.2.1 with
    | some s' => .yield ⟨none, s' + 1, s.2.2.2.2.1 + 1, s.2.2.2.1, s.2.2.2.2.1 + 1, s.2.2.2.2.2⟩
    | none => .done ⟨some (some false), s.2.1, s.2.2.1, s.2.2.2.1, s.2.2.2.2.1, s.2.2.2.2.2⟩

/-- index state ↔ suffix state -/
structure Rel (p t : List Char) (pi ti : Nat) (star : Option Nat) (mark : Nat) (ps ts : List Char) (back : Back) : Prop where
  hps : ps = p.drop pi
  hts : ts = t.drop ti
  hpi : pi ≤ p.length
  hti : ti ≤ t.length
  hback : match star with
    | none => back = none
    | some s => back = some (p.drop (s + 1), t.drop mark) ∧ mark ≤ ti ∧ s < p.length

/-- what the first loop's final state says, given how the model's loop ended -/
def Agree (p : List Char) (r : St1) : Option (Option (List Char)) → Prop
  | none => r.1 = none ∧ r.2.2.2.2.2 = false
  | some none => r.1 = some (some false)
  | some (some ps') => r.1 = none ∧ r.2.2.2.2.2 = true ∧ ps' = p.drop r.2.1 ∧ r.2.1 ≤ p.length

theorem simA (p t : List Char) : ∀ (fuel pi ti : Nat) (star : Option Nat) (mark : Nat) (ps ts : List Char) (back : Back),
    Rel p t pi ti star mark ps ts back →
    Agree p (iter (body1 p t) fuel ⟨none, pi, ti, star, mark, false⟩) (loopO fuel ps ts back)
  | 0, pi, ti, star, mark, ps, ts, back, _ => by simp [iter, loopO, Agree]
  | fuel+1, pi, ti, star, mark, ps, [], back, rel => by
    have hge := drop_nil_ge t ti rel.hts
    have hc : (!decide (ti < t.length)) = true := by simp; omega
    simp only [iter, body1, loopO, hc, if_true, Agree]
    exact ⟨trivial, trivial, rel.hps, rel.hpi⟩
  | fuel+1, pi, ti, star, mark, [], c :: ts, back, rel => by
    obtain ⟨hti, hc, hts'⟩ := drop_cons_get t ti c ts rel.hts
    have hge := drop_nil_ge p pi rel.hps
    have h0 : (!decide (ti < t.length)) = false := by simp; omega
    have h1 : decide (pi < p.length) = false := by simp; omega
    simp only [iter, body1, loopO, h0, h1, Bool.false_and, Bool.false_eq_true, if_false]
    have hbk := rel.hback
    cases star with
    | none =>
      simp only at hbk
      subst hbk
      simp [btk, Agree]
    | some s =>
      obtain ⟨hb, hm, hs⟩ := hbk
      have hmk : mark < t.length := by omega
      subst hb
      rw [List.drop_eq_getElem_cons hmk]
      simp only [btk]
      exact simA p t fuel (s + 1) (mark + 1) (some s) (mark + 1) _ _ _
        ⟨rfl, rfl, by omega, by omega, ⟨rfl, Nat.le_refl _, hs⟩⟩
  | fuel+1, pi, ti, star, mark, x :: ps', c :: ts, back, rel => by
    obtain ⟨hti, hc, hts'⟩ := drop_cons_get t ti c ts rel.hts
    obtain ⟨hpi, hx, hps'⟩ := drop_cons_get p pi x ps' rel.hps
    have h0 : (!decide (ti < t.length)) = false := by simp; omega
    have h1 : decide (pi < p.length) = true := by simp; omega
    simp only [iter, body1, loopO, h0, h1, Bool.true_and, Bool.false_eq_true, if_false, hx, hc]
    by_cases e1 : x = '*'
    · have : (x == '*') = true := by simp [e1]
      simp only [this, if_true, e1]
      subst e1
      exact simA p t fuel (pi + 1) ti (some pi) ti ps' (c :: ts) _
        ⟨hps'.symm, rel.hts, by omega, rel.hti, ⟨by rw [hps', ← rel.hts], Nat.le_refl _, hpi⟩⟩
    · have : (x == '*') = false := by simp [e1]
      simp only [this, Bool.false_eq_true, if_false, e1]
      by_cases e2 : x = '?' ∨ x = c
      · have : (x == '?' || x == c) = true := by simpa using e2
        simp only [this, if_true, e2]
        refine simA p t fuel (pi + 1) (ti + 1) star mark ps' ts back
          ⟨hps'.symm, hts'.symm, by omega, by omega, ?_⟩
        have := rel.hback
        cases star with
        | none => exact this
        | some s => exact ⟨this.1, by omega, this.2.2⟩
      · have : (x == '?' || x == c) = false := by simpa using e2
        simp only [this, Bool.false_eq_true, if_false, e2]
        have hbk := rel.hback
        cases star with
        | none =>
          simp only at hbk
          subst hbk
          simp [btk, Agree]
        | some s =>
          obtain ⟨hb, hm, hs⟩ := hbk
          have hmk : mark < t.length := by omega
          subst hb
          rw [List.drop_eq_getElem_cons hmk]
          simp only [btk]
          exact simA p t fuel (s + 1) (mark + 1) (some s) (mark + 1) _ _ _
            ⟨rfl, rfl, by omega, by omega, ⟨rfl, Nat.le_refl _, hs⟩⟩

/-- state of the second loop: (pi, "loop condition failed") -/
abbrev St2 := Nat × Bool

def body2 (p : List Char) (s : St2) : ForInStep St2 :=
  if (!(decide (s.1 < p.length) && p[s.1]! == '*')) = true then .done ⟨s.1, true⟩
  else .yield ⟨s.1 + 1, s.2⟩

/-- the second loop skips the stars that are left -/
theorem simB (p : List Char) : ∀ (fuel pi : Nat), pi ≤ p.length → p.length - pi < fuel →
    (iter (body2 p) fuel ⟨pi, false⟩).2 = true ∧ (iter (body2 p) fuel ⟨pi, false⟩).1 ≤ p.length ∧
      p.drop (iter (body2 p) fuel ⟨pi, false⟩).1 = (p.drop pi).dropWhile (· == '*')
  | 0, pi, _, h => by omega
  | fuel+1, pi, hpi, hf => by
    cases hd : p.drop pi with
    | nil =>
      have hge := drop_nil_ge p pi hd.symm
      have h1 : decide (pi < p.length) = false := by simp; omega
      simp only [iter, body2, h1, Bool.false_and, Bool.not_false, if_true]
      exact ⟨trivial, hpi, by rw [hd]; rfl⟩
    | cons x r =>
      obtain ⟨hlt, hx, hr⟩ := drop_cons_get p pi x r hd.symm
      have h1 : decide (pi < p.length) = true := by simp; omega
      simp only [iter, body2, h1, Bool.true_and, hx]
      by_cases e : x = '*'
      · have : (!(x == '*')) = false := by simp [e]
        simp only [this, Bool.false_eq_true, if_false]
        obtain ⟨a, b, c⟩ := simB p fuel (pi + 1) (by omega) (by omega)
        refine ⟨a, b, ?_⟩
        rw [c, hr, List.dropWhile_cons]
        simp [e]
      · have : (!(x == '*')) = true := by simp [e]
        simp only [this, if_true]
        refine ⟨trivial, hpi, ?_⟩
        rw [hd, List.dropWhile_cons]
        simp [e]

theorem fuel_ge (p t : List Char) : p.length < (t.length + 2) * (p.length + t.length + 2) := by
  have : 1 * (p.length + t.length + 2) ≤ (t.length + 2) * (p.length + t.length + 2) :=
    Nat.mul_le_mul_right _ (by omega)
  omega

/-- **`glob_match` as written in plan.rs = the model's `globMatch`**, and both of its `while` loops end
within the model's fuel. -/
theorem globMatch_eq (p t : List Char) :
    Copia.Gen.Loops.globMatch ((t.length + 2) * (p.length + t.length + 2)) p t = some (Copia.Plan.globMatch p t) := by
  unfold Copia.Gen.Loops.globMatch
  have e1 := forIn_replicate (body1 p t)
  have e2 := forIn_replicate (body2 p)
  simp only [Id.run, bind, pure] at e1 e2 ⊢
  rw [e1]
  rotate_left
  · intro _ s
    unfold body1
    cases h : s.2.2.2.1 <;> simp only [h]
  rw [e2]
  rotate_left
  · intro _ _; rfl
  have hA := simA p t ((t.length + 2) * (p.length + t.length + 2)) 0 0 none 0 p t none
    ⟨rfl, rfl, Nat.zero_le _, Nat.zero_le _, rfl⟩
  have hT := loopO_globMatch_fuel p t
  have hL := loop_of_loopO ((t.length + 2) * (p.length + t.length + 2)) p t none
  unfold Copia.Plan.globMatch
  generalize iter (body1 p t) ((t.length + 2) * (p.length + t.length + 2)) ⟨none, 0, 0, none, 0, false⟩ = r1 at hA ⊢
  cases hO : loopO ((t.length + 2) * (p.length + t.length + 2)) p t none with
  | none => exact absurd hO hT
  | some o =>
    rw [hL o hO]
    rw [hO] at hA
    cases o with
    | none =>
      simp only [Agree] at hA
      simp [hA, outcome]
    | some ps' =>
      obtain ⟨a1, a2, a3, a4⟩ := hA
      obtain ⟨b1, b2, b3⟩ := simB p ((t.length + 2) * (p.length + t.length + 2)) r1.2.1 a4
        (by have := fuel_ge p t; omega)
      simp only [a1, a2, b1, outcome, a3, ← b3]
      generalize (iter (body2 p) ((t.length + 2) * (p.length + t.length + 2)) ⟨r1.2.1, false⟩).1 = k at b2 ⊢
      have hk : (k == p.length) = (List.drop k p).isEmpty := by
        rw [Bool.eq_iff_iff, List.isEmpty_iff, List.drop_eq_nil_iff]
        simp only [beq_iff_eq]
        omega
      simp [hk]

end Copia.GenEqLoops
