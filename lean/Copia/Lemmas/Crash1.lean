import Copia.Props.C08
import Copia.Lemmas.Bisync2
namespace Copia.Crash
open Copia.Reconcile Copia.Bisync

variable {P C : Type} [DecidableEq P] [DecidableEq C]

/-- the unit of delivery: one `copy_atomic` or one unlink -/
inductive Group (P C : Type)
  | copy (sd : Side) (p : P) (c : C)
  | unlink (sd : Side) (p : P)

def Group.steps : Group P C → List (FsStep P C)
  | .copy sd p c => copySteps sd p c
  | .unlink sd p => [.unlink sd p]

def actionGroups (ge : C → C → Bool) (cname : P → C → P) (a b : List (P × Fp C)) (p : P) :
    Action → List (Group P C)
  | .noop | .convergeIdentical => []
  | .propagateAtoB => match lookup a p with | some f => [.copy .B p f.digest] | none => []
  | .propagateBtoA => match lookup b p with | some f => [.copy .A p f.digest] | none => []
  | .deleteA => [.unlink .A p]
  | .deleteB => [.unlink .B p]
  | .conflict .deleteVsModify =>
    match lookup a p, lookup b p with
    | some f, _ => [.copy .B p f.digest]
    | none, some f => [.copy .A p f.digest]
    | none, none => []
  | .conflict .bothChanged =>
    match lookup a p, lookup b p with
    | some fa, some fb =>
      if ge fa.digest fb.digest then
        [.copy .B (cname p fb.digest) fb.digest, .copy .A (cname p fb.digest) fb.digest, .copy .B p fa.digest]
      else
        [.copy .A (cname p fa.digest) fa.digest, .copy .B (cname p fa.digest) fa.digest, .copy .A p fb.digest]
    | _, _ => []

theorem actionSteps_eq (ge : C → C → Bool) (cname : P → C → P) (a b : List (P × Fp C)) (p : P) (act : Action) :
    actionSteps ge cname a b p act = (actionGroups ge cname a b p act).flatMap Group.steps := by
  cases act with
  | conflict k =>
    cases k with
    | deleteVsModify =>
      simp only [actionSteps, actionGroups]
      cases lookup a p <;> cases lookup b p <;> simp [Group.steps]
    | bothChanged =>
      simp only [actionSteps, actionGroups]
      cases lookup a p <;> cases lookup b p <;> simp [Group.steps]
      split <;> simp [Group.steps]
  | propagateAtoB => simp only [actionSteps, actionGroups]; cases lookup a p <;> simp [Group.steps]
  | propagateBtoA => simp only [actionSteps, actionGroups]; cases lookup b p <;> simp [Group.steps]
  | _ => simp [actionSteps, actionGroups, Group.steps]

/-- every content a group of this plan moves is the scanned content of some path -/
theorem actionGroups_content (ge : C → C → Bool) (cname : P → C → P) (a b : List (P × Fp C)) (p : P) (act : Action)
    (sd : Side) (q : P) (c : C) (h : Group.copy sd q c ∈ actionGroups ge cname a b p act) :
    (∃ f, lookup a p = some f ∧ f.digest = c) ∨ (∃ f, lookup b p = some f ∧ f.digest = c) := by
  cases act with
  | conflict k =>
    cases k with
    | deleteVsModify =>
      simp only [actionGroups] at h
      cases ha : lookup a p <;> cases hb : lookup b p <;> simp [ha, hb] at h
      · exact Or.inr ⟨_, rfl, h.2.2.symm⟩
      · exact Or.inl ⟨_, rfl, h.2.2.symm⟩
      · exact Or.inl ⟨_, rfl, h.2.2.symm⟩
    | bothChanged =>
      simp only [actionGroups] at h
      cases ha : lookup a p <;> cases hb : lookup b p <;> simp [ha, hb] at h
      split at h <;> simp at h
      · rcases h with h | h | h
        · exact Or.inr ⟨_, rfl, h.2.2.symm⟩
        · exact Or.inr ⟨_, rfl, h.2.2.symm⟩
        · exact Or.inl ⟨_, rfl, h.2.2.symm⟩
      · rcases h with h | h | h
        · exact Or.inl ⟨_, rfl, h.2.2.symm⟩
        · exact Or.inl ⟨_, rfl, h.2.2.symm⟩
        · exact Or.inr ⟨_, rfl, h.2.2.symm⟩
  | propagateAtoB =>
    simp only [actionGroups] at h
    cases ha : lookup a p <;> simp [ha] at h
    exact Or.inl ⟨_, rfl, h.2.2.symm⟩
  | propagateBtoA =>
    simp only [actionGroups] at h
    cases hb : lookup b p <;> simp [hb] at h
    exact Or.inr ⟨_, rfl, h.2.2.symm⟩
  | noop => simp [actionGroups] at h
  | convergeIdentical => simp [actionGroups] at h
  | deleteA => simp [actionGroups] at h
  | deleteB => simp [actionGroups] at h

/-- a prefix of a concatenation of groups = some complete groups and a proper prefix of the next -/
theorem take_flatMap {α β : Type} (f : α → List β) :
    ∀ (gs : List α) (k : Nat), k < (gs.flatMap f).length →
      ∃ done g rest j, gs = done ++ g :: rest ∧ j < (f g).length ∧
        (gs.flatMap f).take k = done.flatMap f ++ (f g).take j
  | [], k, h => by simp at h
  | g :: gs, k, h => by
    by_cases hk : k < (f g).length
    · refine ⟨[], g, gs, k, rfl, hk, ?_⟩
      simp only [List.flatMap_cons, List.flatMap_nil, List.nil_append]
      rw [List.take_append_of_le_length (by omega)]
    · simp only [List.flatMap_cons, List.length_append] at h
      obtain ⟨done, g', rest, j, e, hj, ht⟩ := take_flatMap f gs (k - (f g).length) (by omega)
      refine ⟨g :: done, g', rest, j, by rw [e]; rfl, hj, ?_⟩
      simp only [List.flatMap_cons]
      rw [List.take_append, ht, List.take_of_length_le (by omega)]
      simp

end Copia.Crash
