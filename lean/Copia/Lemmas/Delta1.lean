import Copia.Spec.Delta
namespace Copia.Delta
open Copia.Checksum

/-- what an accumulator (reversed ops, reversed literal data) denotes -/
def renderR (basis : List Nat) : List Op → List Nat
  | [] => []
  | .copy off len :: t => renderR basis t ++ (basis.drop off).take len
  | .literal d :: t => renderR basis t ++ d.reverse

theorem render_append (basis : List Nat) (a b : List Op) :
    render basis (a ++ b) = render basis a ++ render basis b := by
  induction a with
  | nil => rfl
  | cons x t ih => simp [render, ih]

theorem render_finish (basis : List Nat) (rops : List Op) :
    render basis (finish rops) = renderR basis rops := by
  induction rops with
  | nil => rfl
  | cons x t ih =>
    unfold finish at ih ⊢
    simp only [List.reverse_cons, List.map_append, List.map_cons, List.map_nil, render_append, ih]
    cases x <;> simp [renderR, render, renderOp]

theorem mem_finish_copy (rops : List Op) (off len : Nat) :
    Op.copy off len ∈ finish rops ↔ Op.copy off len ∈ rops := by
  unfold finish
  simp only [List.mem_map, List.mem_reverse]
  constructor
  · rintro ⟨x, hx, he⟩
    cases x with
    | copy o l => simp at he; obtain ⟨rfl, rfl⟩ := he; exact hx
    | literal d => simp at he
  · intro h; exact ⟨_, h, rfl⟩

theorem applyOps_render (basis : List Nat) (ops : List Op) (acc : List Nat) (h : InB basis ops) :
    applyOps basis ops acc = (true, acc ++ render basis ops) := by
  induction ops generalizing acc with
  | nil => simp [applyOps, render]
  | cons op t ih =>
    have ht : InB basis t := fun o l hm => h o l (List.mem_cons_of_mem _ hm)
    cases op with
    | copy o l =>
      have := h o l (List.mem_cons_self ..)
      simp [applyOps, this, ih _ ht, render, renderOp, List.append_assoc]
    | literal d => simp [applyOps, ih _ ht, render, renderOp, List.append_assoc]

/-! ### the three `push_*` functions preserve meaning and bounds -/

theorem renderR_pushLiteralByte (basis : List Nat) (rops : List Op) (b : Nat) :
    renderR basis (pushLiteralByte rops b) = renderR basis rops ++ [b] := by
  unfold pushLiteralByte
  split <;> simp [renderR, List.append_assoc]

theorem renderR_pushLiteral (basis : List Nat) (rops : List Op) (d : List Nat) :
    renderR basis (pushLiteral rops d) = renderR basis rops ++ d := by
  unfold pushLiteral
  split
  · next h => simp at h; simp [h]
  · split <;> simp [renderR, List.append_assoc]

theorem take_add_drop (l : List Nat) (a b c : Nat) :
    (l.drop a).take (b + c) = (l.drop a).take b ++ (l.drop (a + b)).take c := by
  rw [List.take_add, List.drop_drop]

theorem renderR_pushCopy (basis : List Nat) (rops : List Op) (off len : Nat) :
    renderR basis (pushCopy rops off len) = renderR basis rops ++ (basis.drop off).take len := by
  unfold pushCopy
  split
  · next poff plen t =>
    split
    · next h =>
      obtain ⟨h1, _⟩ := h
      subst h1
      simp [renderR, take_add_drop, List.append_assoc]
    · simp [renderR]
  · simp [renderR]

theorem copy_mem_pushLiteralByte (rops : List Op) (b off len : Nat)
    (h : Op.copy off len ∈ pushLiteralByte rops b) : Op.copy off len ∈ rops := by
  unfold pushLiteralByte at h
  split at h
  · next d t => simp at h; exact List.mem_cons_of_mem _ h
  · simp at h; exact h

theorem copy_mem_pushLiteral (rops : List Op) (d : List Nat) (off len : Nat)
    (h : Op.copy off len ∈ pushLiteral rops d) : Op.copy off len ∈ rops := by
  unfold pushLiteral at h
  split at h
  · exact h
  · split at h
    · next d' t => simp at h; exact List.mem_cons_of_mem _ h
    · simp at h; exact h

theorem InB_pushCopy (basis : List Nat) (rops : List Op) (off len : Nat) (h : InB basis rops)
    (hb : off + len ≤ basis.length) : InB basis (pushCopy rops off len) := by
  unfold pushCopy
  split
  · next poff plen t =>
    split
    · next hm =>
      intro o l hmem
      rcases List.mem_cons.mp hmem with he | hm'
      · cases he; omega
      · exact h o l (List.mem_cons_of_mem _ hm')
    · intro o l hmem
      rcases List.mem_cons.mp hmem with he | hm'
      · cases he; exact hb
      · exact h o l hm'
  · intro o l hmem
    rcases List.mem_cons.mp hmem with he | hm'
    · cases he; exact hb
    · exact h o l hm'

/-! ### the signature loop -/

theorem mem_sigLoop {D} (H : List Nat → D) (bs : Nat) (hbs : 0 < bs) :
    ∀ (fuel i : Nat) (l : List Nat) (sg : BlockSig D), sg ∈ sigLoop H bs fuel i l →
      ∃ j, sg.index = i + j ∧ (l.drop (j * bs)) ≠ [] ∧
        sg.strong = H ((l.drop (j * bs)).take bs) ∧
        sg.weak = (Rolling.new ((l.drop (j * bs)).take bs)).digest
  | 0, _, _, _, h => by simp [sigLoop] at h
  | fuel+1, i, l, sg, h => by
    unfold sigLoop at h
    split at h
    · simp at h
    · next hne =>
      rcases List.mem_cons.mp h with he | hm
      · subst he
        exact ⟨0, by simp, by simpa using hne, by simp, by simp⟩
      · obtain ⟨j, h1, h2, h3, h4⟩ := mem_sigLoop H bs hbs fuel (i + 1) (l.drop bs) sg hm
        refine ⟨j + 1, by omega, ?_, ?_, ?_⟩
        · rw [List.drop_drop] at h2; rwa [Nat.add_mul, Nat.one_mul, Nat.add_comm]
        · rw [List.drop_drop] at h3; rwa [Nat.add_mul, Nat.one_mul, Nat.add_comm]
        · rw [List.drop_drop] at h4; rwa [Nat.add_mul, Nat.one_mul, Nat.add_comm]

theorem mem_findMatch {D} [DecidableEq D] (H : List Nat → D) (blocks : List (BlockSig D)) (weak : Nat)
    (rest : List Nat) (bs : Nat) (sg : BlockSig D) (h : findMatch H blocks weak rest bs = some sg) :
    sg ∈ blocks ∧ sg.weak = weak ∧ sg.strong = H (rest.take bs) := by
  simp only [findMatch] at h
  split at h
  · simp at h
  · have hm := List.mem_of_find?_eq_some h
    have hp := List.find?_some h
    obtain ⟨h1, h2⟩ := List.mem_filter.mp hm
    exact ⟨h1, by simpa using h2, by simpa using hp⟩

end Copia.Delta
