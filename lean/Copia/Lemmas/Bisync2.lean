import Copia.Lemmas.Bisync1
import Copia.Lemmas.ReconcileTable
namespace Copia.Bisync
open Copia.Reconcile

variable {P C : Type} [DecidableEq P]

def mkFp (c : C) : Fp C := { digest := c, ftype := .file }

theorem lookup_scan (t : Tree P C) (p : P) : lookup (scan t) p = (get t p).map mkFp := by
  induction t with
  | nil => simp [scan, lookup, get]
  | cons e r ih =>
    obtain ⟨k, v⟩ := e
    unfold scan at ih ⊢
    unfold get at ih ⊢
    by_cases hk : k = p
    · simp [lookup, hk, mkFp]
    · simp [lookup, hk, ih]

theorem get_del (t : Tree P C) (p q : P) : get (del t p) q = if q = p then none else get t q := by
  induction t with
  | nil => simp [del, get, lookup]
  | cons e r ih =>
    obtain ⟨k, v⟩ := e
    unfold del get at ih ⊢
    by_cases hk : k = p
    · subst hk
      simp only [List.filter_cons, ne_eq, not_true_eq_false, decide_false, Bool.false_eq_true, if_false, ih]
      by_cases h : q = k
      · simp [h]
      · have h' : ¬ k = q := fun e => h e.symm
        simp [lookup, h, h']
    · simp only [List.filter_cons, ne_eq, hk, not_false_eq_true, decide_true, if_true]
      by_cases hq : k = q
      · subst hq; simp [lookup, hk]
      · simp only [lookup, hq, if_false]; exact ih

theorem copyLive_some (src dst : Tree P C) (sp dp : P) (c : C) (h : get src sp = some c) :
    copyLive src sp dst dp = some (ins dst dp c) := by
  simp [copyLive, h]

end Copia.Bisync
