import Copia.Lemmas.Crash7
/-!
# Running `bisync` again from a crash state

`recovery_from_crashInv`: from any `CrashInv` state with the OLD record, the next run completes and
leaves, at every path and on both sides, what the uninterrupted run would have left.
`recovery_converged`: from a state whose two sides already agree everywhere, a run with ANY record
(old, absent, new, foreign) changes nothing.
-/
namespace Copia.Crash
open Copia.Reconcile Copia.Bisync

variable {P C : Type} [DecidableEq P] [DecidableEq C]

theorem baseOf_congr (s T : State P C) (h : T.arch = s.arch) (p : P) : baseOf T p = baseOf s p := by
  unfold baseOf; rw [h]

/-- the state a killed run leaves is at worst a BENIGN clash for the next run -/
theorem benign_of_crashInv (le : P → P → Bool)
    (trans : ∀ a b c, le a b → le b c → le a c) (total : ∀ a b, le a b || le b a)
    (antisymm : ∀ a b, le a b → le b a → a = b) (ge : C → C → Bool) (cname : P → C → P) (s : State P C)
    (nnc : NoNameClash ge cname s.A s.B (bisyncPlan le s))
    (done todo : List (P × Action)) (hplan : bisyncPlan le s = done ++ todo)
    (T : State P C) (harch : T.arch = s.arch)
    (inv : CrashInv ge cname s.A s.B (bisyncPlan le s) done T.A T.B) :
    BenignClash ge cname T.A T.B (bisyncPlan le T) := by
  obtain ⟨hactS, hliveS, hndS, hrestS⟩ := plan_facts le trans total antisymm s
  obtain ⟨hactT, hliveT, hndT, hrestT⟩ := plan_facts le trans total antisymm T
  have uniqS := act_unique (bisyncPlan le s) hndS
  have hsub : ∀ x, x ∈ done → x ∈ bisyncPlan le s := fun x hx => by rw [hplan]; exact List.mem_append_left _ hx
  -- a path of the plan is live before the run, hence no conflict-copy name of the run
  have notCC_of_planS : ∀ p act, (p, act) ∈ bisyncPlan le s →
      ∀ p' act', (p', act') ∈ bisyncPlan le s → ccName ge cname p' act' (get s.A p') (get s.B p') ≠ some p := by
    intro p act hm p' act' hm' hc
    obtain ⟨n1, n2⟩ := nnc.notLive p' act' p hm' hc
    rcases hliveS p act hm with h | h
    · exact h n1
    · exact h n2
  -- K: two different contents at a path of the crash state: the crashed run has not touched it
  have K : ∀ p xa yb, get T.A p = some xa → get T.B p = some yb → xa ≠ yb →
      (∀ act, (p, act) ∉ done) ∧
      (∀ p' act', (p', act') ∈ bisyncPlan le s → ccName ge cname p' act' (get s.A p') (get s.B p') ≠ some p) ∧
      get T.A p = get s.A p ∧ get T.B p = get s.B p := by
    intro p xa yb eA eB hne
    have h1 : ∀ act, (p, act) ∉ done := by
      intro act hm
      obtain ⟨a1, b1⟩ := inv.atPath p act hm
      have := resolve_eq ge (get s.A p) (get s.B p) (baseOf s p) act (hactS p act (hsub _ hm))
      rw [← a1, ← b1, eA, eB] at this
      exact hne (Option.some.inj this)
    have h2 : ∀ p' act', (p', act') ∈ bisyncPlan le s → ccName ge cname p' act' (get s.A p') (get s.B p') ≠ some p := by
      intro p' act' hm' hc
      by_cases hd : (p', act') ∈ done
      · obtain ⟨xa', yb', _, _, a1, b1⟩ := inv.atCopy p' act' p hd hc
        rw [eA] at a1; rw [eB] at b1
        exact hne ((Option.some.inj a1).trans (Option.some.inj b1).symm)
      · obtain ⟨xa', yb', e1, e2, _, _⟩ := ccName_some ge cname p' act' _ _ p hc
        obtain ⟨w1, w2⟩ := inv.weak p' act' p xa' yb' hm' hd hc e1 e2
        rw [eA] at w1; rw [eB] at w2
        rcases w1 with w1 | w1
        · cases w1
        · rcases w2 with w2 | w2
          · cases w2
          · exact hne ((Option.some.inj w1).trans (Option.some.inj w2).symm)
    have hnt : ¬ touched ge cname s.A s.B done p := by
      rintro (⟨a', h'⟩ | ⟨p', a', h', hc⟩)
      · exact h1 a' h'
      · exact h2 p' a' (hsub _ h') hc
    obtain ⟨u1, u2⟩ := inv.untouched p hnt h2
    exact ⟨h1, h2, u1, u2⟩
  -- L2: a conflict entry of the recovery plan is a pending conflict entry of the crashed run
  have L2 : ∀ p act ln, (p, act) ∈ bisyncPlan le T → ccName ge cname p act (get T.A p) (get T.B p) = some ln →
      (p, act) ∈ bisyncPlan le s ∧ (p, act) ∉ done ∧ get T.A p = get s.A p ∧ get T.B p = get s.B p := by
    intro p act ln hm hc
    obtain ⟨xa, yb, eA, eB, hne, _, _⟩ := conflict_entry_differs le T trans total antisymm ge cname p act ln hm hc
    obtain ⟨k1, _, k3, k4⟩ := K p xa yb eA eB hne
    refine ⟨?_, k1 act, k3, k4⟩
    obtain ⟨_, m2, m3⟩ := (mem_plan_iff le T p act).mp hm
    rw [mem_plan_iff]
    refine ⟨Or.inl (by rw [← k3, eA]; simp), ?_, m3⟩
    rw [m2, k3, k4, baseOf_congr s T harch]
  -- L2': a pending entry of the crashed run is an entry of the recovery plan, with the same contents
  have L2' : ∀ p act, (p, act) ∈ bisyncPlan le s → (p, act) ∉ done →
      (p, act) ∈ bisyncPlan le T ∧ get T.A p = get s.A p ∧ get T.B p = get s.B p := by
    intro p act hm hnd
    have hnc := notCC_of_planS p act hm
    have hnt : ¬ touched ge cname s.A s.B done p := by
      rintro (⟨a', h'⟩ | ⟨p', a', h', hc⟩)
      · have : a' = act := uniqS p a' act (hsub _ h') hm
        subst this; exact hnd h'
      · exact hnc p' a' (hsub _ h') hc
    obtain ⟨u1, u2⟩ := inv.untouched p hnt hnc
    obtain ⟨m1, m2, m3⟩ := (mem_plan_iff le s p act).mp hm
    refine ⟨?_, u1, u2⟩
    rw [mem_plan_iff]
    refine ⟨by rw [u1, u2]; exact m1, ?_, m3⟩
    rw [u1, u2, baseOf_congr s T harch]; exact m2
  -- the recovery run's clash, if any, is benign
  have bc : BenignClash ge cname T.A T.B (bisyncPlan le T) := by
    refine ⟨?_, ?_⟩
    · intro p act ln xa yb hm hc eA eB
      obtain ⟨hmS, hndS', k3, k4⟩ := L2 p act ln hm hc
      rw [k3, k4] at hc
      exact inv.weak p act ln xa yb hmS hndS' hc (by rw [← k3]; exact eA) (by rw [← k4]; exact eB)
    · intro p act p' act' ln hm hm' hc hc'
      obtain ⟨hmS, _, k3, k4⟩ := L2 p act ln hm hc
      obtain ⟨hmS', _, k3', k4'⟩ := L2 p' act' ln hm' hc'
      rw [k3, k4] at hc; rw [k3', k4'] at hc'
      exact nnc.distinct p act p' act' ln hmS hmS' hc hc'
  exact bc

theorem recovery_from_crashInv (le : P → P → Bool)
    (trans : ∀ a b c, le a b → le b c → le a c) (total : ∀ a b, le a b || le b a)
    (antisymm : ∀ a b, le a b → le b a → a = b) (ge : C → C → Bool) (cname : P → C → P) (s : State P C)
    (nnc : NoNameClash ge cname s.A s.B (bisyncPlan le s))
    (done todo : List (P × Action)) (hplan : bisyncPlan le s = done ++ todo)
    (T : State P C) (harch : T.arch = s.arch)
    (inv : CrashInv ge cname s.A s.B (bisyncPlan le s) done T.A T.B) :
    (bisync le ge cname T).status ≠ .ioError ∧
    ∀ q, get (bisync le ge cname T).state.A q = get (bisync le ge cname s).state.A q ∧
         get (bisync le ge cname T).state.B q = get (bisync le ge cname s).state.B q := by
  obtain ⟨hactS, hliveS, hndS, hrestS⟩ := plan_facts le trans total antisymm s
  obtain ⟨hactT, hliveT, hndT, hrestT⟩ := plan_facts le trans total antisymm T
  have uniqS := act_unique (bisyncPlan le s) hndS
  have hsub : ∀ x, x ∈ done → x ∈ bisyncPlan le s := fun x hx => by rw [hplan]; exact List.mem_append_left _ hx
  -- a path of the plan is live before the run, hence no conflict-copy name of the run
  have notCC_of_planS : ∀ p act, (p, act) ∈ bisyncPlan le s →
      ∀ p' act', (p', act') ∈ bisyncPlan le s → ccName ge cname p' act' (get s.A p') (get s.B p') ≠ some p := by
    intro p act hm p' act' hm' hc
    obtain ⟨n1, n2⟩ := nnc.notLive p' act' p hm' hc
    rcases hliveS p act hm with h | h
    · exact h n1
    · exact h n2
  -- K: two different contents at a path of the crash state: the crashed run has not touched it
  have K : ∀ p xa yb, get T.A p = some xa → get T.B p = some yb → xa ≠ yb →
      (∀ act, (p, act) ∉ done) ∧
      (∀ p' act', (p', act') ∈ bisyncPlan le s → ccName ge cname p' act' (get s.A p') (get s.B p') ≠ some p) ∧
      get T.A p = get s.A p ∧ get T.B p = get s.B p := by
    intro p xa yb eA eB hne
    have h1 : ∀ act, (p, act) ∉ done := by
      intro act hm
      obtain ⟨a1, b1⟩ := inv.atPath p act hm
      have := resolve_eq ge (get s.A p) (get s.B p) (baseOf s p) act (hactS p act (hsub _ hm))
      rw [← a1, ← b1, eA, eB] at this
      exact hne (Option.some.inj this)
    have h2 : ∀ p' act', (p', act') ∈ bisyncPlan le s → ccName ge cname p' act' (get s.A p') (get s.B p') ≠ some p := by
      intro p' act' hm' hc
      by_cases hd : (p', act') ∈ done
      · obtain ⟨xa', yb', _, _, a1, b1⟩ := inv.atCopy p' act' p hd hc
        rw [eA] at a1; rw [eB] at b1
        exact hne ((Option.some.inj a1).trans (Option.some.inj b1).symm)
      · obtain ⟨xa', yb', e1, e2, _, _⟩ := ccName_some ge cname p' act' _ _ p hc
        obtain ⟨w1, w2⟩ := inv.weak p' act' p xa' yb' hm' hd hc e1 e2
        rw [eA] at w1; rw [eB] at w2
        rcases w1 with w1 | w1
        · cases w1
        · rcases w2 with w2 | w2
          · cases w2
          · exact hne ((Option.some.inj w1).trans (Option.some.inj w2).symm)
    have hnt : ¬ touched ge cname s.A s.B done p := by
      rintro (⟨a', h'⟩ | ⟨p', a', h', hc⟩)
      · exact h1 a' h'
      · exact h2 p' a' (hsub _ h') hc
    obtain ⟨u1, u2⟩ := inv.untouched p hnt h2
    exact ⟨h1, h2, u1, u2⟩
  -- L2: a conflict entry of the recovery plan is a pending conflict entry of the crashed run
  have L2 : ∀ p act ln, (p, act) ∈ bisyncPlan le T → ccName ge cname p act (get T.A p) (get T.B p) = some ln →
      (p, act) ∈ bisyncPlan le s ∧ (p, act) ∉ done ∧ get T.A p = get s.A p ∧ get T.B p = get s.B p := by
    intro p act ln hm hc
    obtain ⟨xa, yb, eA, eB, hne, _, _⟩ := conflict_entry_differs le T trans total antisymm ge cname p act ln hm hc
    obtain ⟨k1, _, k3, k4⟩ := K p xa yb eA eB hne
    refine ⟨?_, k1 act, k3, k4⟩
    obtain ⟨_, m2, m3⟩ := (mem_plan_iff le T p act).mp hm
    rw [mem_plan_iff]
    refine ⟨Or.inl (by rw [← k3, eA]; simp), ?_, m3⟩
    rw [m2, k3, k4, baseOf_congr s T harch]
  -- L2': a pending entry of the crashed run is an entry of the recovery plan, with the same contents
  have L2' : ∀ p act, (p, act) ∈ bisyncPlan le s → (p, act) ∉ done →
      (p, act) ∈ bisyncPlan le T ∧ get T.A p = get s.A p ∧ get T.B p = get s.B p := by
    intro p act hm hnd
    have hnc := notCC_of_planS p act hm
    have hnt : ¬ touched ge cname s.A s.B done p := by
      rintro (⟨a', h'⟩ | ⟨p', a', h', hc⟩)
      · have : a' = act := uniqS p a' act (hsub _ h') hm
        subst this; exact hnd h'
      · exact hnc p' a' (hsub _ h') hc
    obtain ⟨u1, u2⟩ := inv.untouched p hnt hnc
    obtain ⟨m1, m2, m3⟩ := (mem_plan_iff le s p act).mp hm
    refine ⟨?_, u1, u2⟩
    rw [mem_plan_iff]
    refine ⟨by rw [u1, u2]; exact m1, ?_, m3⟩
    rw [u1, u2, baseOf_congr s T harch]; exact m2
  -- the recovery run's clash, if any, is benign
  have bc : BenignClash ge cname T.A T.B (bisyncPlan le T) := by
    refine ⟨?_, ?_⟩
    · intro p act ln xa yb hm hc eA eB
      obtain ⟨hmS, hndS', k3, k4⟩ := L2 p act ln hm hc
      rw [k3, k4] at hc
      exact inv.weak p act ln xa yb hmS hndS' hc (by rw [← k3]; exact eA) (by rw [← k4]; exact eB)
    · intro p act p' act' ln hm hm' hc hc'
      obtain ⟨hmS, _, k3, k4⟩ := L2 p act ln hm hc
      obtain ⟨hmS', _, k3', k4'⟩ := L2 p' act' ln hm' hc'
      rw [k3, k4] at hc; rw [k3', k4'] at hc'
      exact nnc.distinct p act p' act' ln hmS hmS' hc hc'
  obtain ⟨hstat, lT, invT, eTA, eTB⟩ := bisync_runB le trans total antisymm ge cname T bc
  obtain ⟨_, lS, invS, eSA, eSB⟩ := bisync_runInv le trans total antisymm ge cname s nnc
  refine ⟨hstat, ?_⟩
  intro q
  rw [eTA, eTB, eSA, eSB]
  by_cases ha : ∃ p act, (p, act) ∈ bisyncPlan le T ∧ ccName ge cname p act (get T.A p) (get T.B p) = some q
  · -- (a) q is a conflict-copy name of the recovery run
    obtain ⟨p, act, hm, hc⟩ := ha
    obtain ⟨hmS, _, k3, k4⟩ := L2 p act q hm hc
    obtain ⟨xa, yb, e1, e2, a1, b1⟩ := invT.atCopy p act q hm hc
    rw [k3, k4] at hc
    obtain ⟨xa', yb', e1', e2', a2, b2⟩ := invS.atCopy p act q hmS hc
    rw [k3, e1'] at e1; rw [k4, e2'] at e2; cases e1; cases e2
    exact ⟨a1.trans a2.symm, b1.trans b2.symm⟩
  · have hncT : ∀ p' act', (p', act') ∈ bisyncPlan le T → ccName ge cname p' act' (get T.A p') (get T.B p') ≠ some q :=
      fun p' act' hm hc => ha ⟨p', act', hm, hc⟩
    by_cases hb : ∃ p act, (p, act) ∈ bisyncPlan le s ∧ ccName ge cname p act (get s.A p) (get s.B p) = some q
    · -- (b1) a conflict-copy name the crashed run had already written on both sides
      obtain ⟨p, act, hm, hc⟩ := hb
      have hd : (p, act) ∈ done := by
        apply Classical.byContradiction
        intro hnd
        obtain ⟨hmT, u1, u2⟩ := L2' p act hm hnd
        exact hncT p act hmT (by rw [u1, u2]; exact hc)
      obtain ⟨xa, yb, e1, e2, a1, b1⟩ := inv.atCopy p act q hd hc
      obtain ⟨xa', yb', e1', e2', a2, b2⟩ := invS.atCopy p act q hm hc
      rw [e1] at e1'; rw [e2] at e2'; cases e1'; cases e2'
      obtain ⟨r1, r2⟩ := equal_sides_stay ge cname le T trans total antisymm lT invT q _ a1 b1 hncT
      exact ⟨r1.trans a2.symm, r2.trans b2.symm⟩
    · have hncS : ∀ p' act', (p', act') ∈ bisyncPlan le s → ccName ge cname p' act' (get s.A p') (get s.B p') ≠ some q :=
        fun p' act' hm hc => hb ⟨p', act', hm, hc⟩
      by_cases hp : ∃ act, (q, act) ∈ bisyncPlan le s
      · obtain ⟨act, hm⟩ := hp
        obtain ⟨s1, s2⟩ := invS.atPath q act hm
        by_cases hd : (q, act) ∈ done
        · -- (b2) a path the crashed run had already settled
          obtain ⟨a1, b1⟩ := inv.atPath q act hd
          have heq := resolve_eq ge (get s.A q) (get s.B q) (baseOf s q) act (hactS q act hm)
          obtain ⟨r1, r2⟩ := equal_sides_stay ge cname le T trans total antisymm lT invT q _ a1 (b1.trans heq.symm) hncT
          rw [r1, r2, s1, s2, ← heq]; exact ⟨rfl, rfl⟩
        · -- (b3) a pending entry: planned and executed again exactly as before
          obtain ⟨hmT, u1, u2⟩ := L2' q act hm hd
          obtain ⟨t1, t2⟩ := invT.atPath q act hmT hncT
          rw [t1, t2, s1, s2, u1, u2]; exact ⟨rfl, rfl⟩
      · -- (b4) a path neither run has anything to do with
        have hnp : ∀ act, (q, act) ∉ bisyncPlan le s := fun act hm => hp ⟨act, hm⟩
        have hntD : ¬ touched ge cname s.A s.B done q := by
          rintro (⟨a', h'⟩ | ⟨p', a', h', hc⟩)
          · exact hnp a' (hsub _ h')
          · exact hncS p' a' (hsub _ h') hc
        obtain ⟨u1, u2⟩ := inv.untouched q hntD hncS
        have hntS : ¬ touched ge cname s.A s.B (bisyncPlan le s) q := by
          rintro (⟨a', h'⟩ | ⟨p', a', h', hc⟩)
          · exact hnp a' h'
          · exact hncS p' a' h' hc
        obtain ⟨s1, s2⟩ := invS.untouched q hntS
        have hnpT : ∀ act, (q, act) ∉ bisyncPlan le T := by
          intro act hm
          obtain ⟨_, m2, m3⟩ := (mem_plan_iff le T q act).mp hm
          rw [u1, u2, baseOf_congr s T harch, hrestS q hnp] at m2
          exact m3 m2
        have hntT : ¬ touched ge cname T.A T.B (bisyncPlan le T) q := by
          rintro (⟨a', h'⟩ | ⟨p', a', h', hc⟩)
          · exact hnpT a' h'
          · exact hncT p' a' h' hc
        obtain ⟨t1, t2⟩ := invT.untouched q hntT
        rw [t1, t2, s1, s2, u1, u2]; exact ⟨rfl, rfl⟩

/-- from a state whose two sides agree at every path, a run — whatever record it finds — changes nothing -/
theorem recovery_converged (le : P → P → Bool)
    (trans : ∀ a b c, le a b → le b c → le a c) (total : ∀ a b, le a b || le b a)
    (antisymm : ∀ a b, le a b → le b a → a = b) (ge : C → C → Bool) (cname : P → C → P) (T : State P C)
    (hconv : ∀ q, get T.A q = get T.B q) :
    (bisync le ge cname T).status ≠ .ioError ∧
    ∀ q, get (bisync le ge cname T).state.A q = get T.A q ∧ get (bisync le ge cname T).state.B q = get T.B q := by
  have nocc : ∀ p act ln, (p, act) ∈ bisyncPlan le T → ccName ge cname p act (get T.A p) (get T.B p) ≠ some ln := by
    intro p act ln hm hc
    obtain ⟨xa, yb, eA, eB, hne, _, _⟩ := conflict_entry_differs le T trans total antisymm ge cname p act ln hm hc
    rw [hconv p, eB] at eA
    exact hne (Option.some.inj eA).symm
  have bc : BenignClash ge cname T.A T.B (bisyncPlan le T) :=
    ⟨fun p act ln _ _ hm hc _ _ => absurd hc (nocc p act ln hm),
     fun p act _ _ ln hm _ hc _ => absurd hc (nocc p act ln hm)⟩
  obtain ⟨hstat, lT, invT, eTA, eTB⟩ := bisync_runB le trans total antisymm ge cname T bc
  refine ⟨hstat, fun q => ?_⟩
  rw [eTA, eTB]
  obtain ⟨r1, r2⟩ := equal_sides_stay ge cname le T trans total antisymm lT invT q (get T.A q) rfl (hconv q).symm
    (fun p' act' hm => nocc p' act' q hm)
  exact ⟨r1, r2.trans (hconv q)⟩

end Copia.Crash
