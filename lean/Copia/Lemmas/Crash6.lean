import Copia.Lemmas.Crash5
import Copia.Lemmas.Bisync15
/-!
# The state a killed run leaves behind (`CrashInv`)

After ANY prefix of the data calls of a run, the live trees are: the plan entries of a prefix `done`
of the plan fully executed, and — when the next entry is a both-changed conflict — possibly the first
one or two of its three copies (the conflict copy on one or on both sides). `CrashInv` states this
path by path, relative to the pre-run trees.
-/
namespace Copia.Crash
open Copia.Reconcile Copia.Bisync

variable {P C : Type} [DecidableEq P] [DecidableEq C]

/-- where a prefix of a concatenation ends: inside the image of exactly one element -/
theorem flatMap_split {α β : Type} (f : α → List β) :
    ∀ (xs : List α) (pre : List β) (g : β) (post : List β), xs.flatMap f = pre ++ g :: post →
      ∃ done x rest dg rg, xs = done ++ x :: rest ∧ f x = dg ++ g :: rg ∧ pre = done.flatMap f ++ dg
  | [], pre, g, post, h => by simp at h
  | x :: xs, pre, g, post, h => by
    simp only [List.flatMap_cons] at h
    rcases List.append_eq_append_iff.mp h with ⟨a', e1, e2⟩ | ⟨c', e1, e2⟩
    · -- pre = f x ++ a'
      obtain ⟨done, y, rest, dg, rg, h1, h2, h3⟩ := flatMap_split f xs a' g post e2
      exact ⟨x :: done, y, rest, dg, rg, by rw [h1]; rfl, h2, by rw [e1, h3]; simp⟩
    · cases c' with
      | nil =>
        simp only [List.nil_append, List.append_nil] at e1 e2
        obtain ⟨done, y, rest, dg, rg, h1, h2, h3⟩ := flatMap_split f xs [] g post e2.symm
        refine ⟨x :: done, y, rest, dg, rg, by rw [h1]; rfl, h2, ?_⟩
        rw [← e1]
        simp only [List.flatMap_cons, List.append_assoc]
        rw [← h3]; simp
      | cons c cs =>
        simp only [List.cons_append, List.cons.injEq] at e2
        obtain ⟨rfl, _⟩ := e2
        exact ⟨[], x, xs, pre, cs, rfl, e1, by simp⟩

/-- the live trees of a crashed run, path by path, relative to the pre-run trees `A0`, `B0` -/
structure CrashInv (ge : C → C → Bool) (cname : P → C → P) (A0 B0 : Tree P C) (plan done : List (P × Action))
    (A B : Tree P C) : Prop where
  untouched : ∀ q, ¬ touched ge cname A0 B0 done q →
    (∀ p' act', (p', act') ∈ plan → ccName ge cname p' act' (get A0 p') (get B0 p') ≠ some q) →
    get A q = get A0 q ∧ get B q = get B0 q
  atPath : ∀ p act, (p, act) ∈ done →
    get A p = (resolve ge act (get A0 p) (get B0 p)).1 ∧ get B p = (resolve ge act (get A0 p) (get B0 p)).2
  atCopy : ∀ p act ln, (p, act) ∈ done → ccName ge cname p act (get A0 p) (get B0 p) = some ln →
    ∃ xa yb, get A0 p = some xa ∧ get B0 p = some yb ∧
      get A ln = some (loser ge xa yb) ∧ get B ln = some (loser ge xa yb)
  weak : ∀ p' act' ln xa yb, (p', act') ∈ plan → (p', act') ∉ done →
    ccName ge cname p' act' (get A0 p') (get B0 p') = some ln → get A0 p' = some xa → get B0 p' = some yb →
    (get A ln = none ∨ get A ln = some (loser ge xa yb)) ∧ (get B ln = none ∨ get B ln = some (loser ge xa yb))

/-- between two plan entries the crash state is the run invariant of the executed prefix -/
theorem crashInv_of_runInv (ge : C → C → Bool) (cname : P → C → P) (A0 B0 : Tree P C)
    (plan done : List (P × Action)) (nnc : NoNameClash ge cname A0 B0 plan)
    (hlive : ∀ p act, (p, act) ∈ plan → get A0 p ≠ none ∨ get B0 p ≠ none)
    (hnd : (plan.map (·.1)).Nodup) (hsub : ∀ x, x ∈ done → x ∈ plan)
    (l : Live P C) (inv : RunInv ge cname A0 B0 done l) : CrashInv ge cname A0 B0 plan done l.A l.B := by
  refine ⟨fun q hq _ => inv.untouched q hq, inv.atPath, inv.atCopy, ?_⟩
  intro p' act' ln xa yb hm hnd' hc _ _
  obtain ⟨n1, n2⟩ := nnc.notLive p' act' ln hm hc
  have hnt : ¬ touched ge cname A0 B0 done ln := by
    rintro (⟨a', h'⟩ | ⟨p2, a2, h2, hc2⟩)
    · rcases hlive ln a' (hsub _ h') with h | h
      · exact h n1
      · exact h n2
    · have := nnc.distinct p2 a2 p' act' ln (hsub _ h2) hm hc2 hc
      subst this
      have : a2 = act' := act_unique plan hnd p2 a2 act' (hsub _ h2) hm
      subst this
      exact hnd' h2
  obtain ⟨h1, h2⟩ := inv.untouched ln hnt
  exact ⟨Or.inl (h1.trans n1), Or.inl (h2.trans n2)⟩

/-- writing the losing content of the NEXT plan entry at its conflict-copy name, on either side, keeps `CrashInv` -/
theorem crashInv_write_cc (ge : C → C → Bool) (cname : P → C → P) (A0 B0 : Tree P C)
    (plan done : List (P × Action)) (nnc : NoNameClash ge cname A0 B0 plan)
    (hlive : ∀ p act, (p, act) ∈ plan → get A0 p ≠ none ∨ get B0 p ≠ none)
    (hnd : (plan.map (·.1)).Nodup) (hsub : ∀ x, x ∈ done → x ∈ plan)
    (p0 : P) (act0 : Action) (ln : P) (xa0 yb0 : C) (hm0 : (p0, act0) ∈ plan) (hnd0 : (p0, act0) ∉ done)
    (hc0 : ccName ge cname p0 act0 (get A0 p0) (get B0 p0) = some ln)
    (eA0 : get A0 p0 = some xa0) (eB0 : get B0 p0 = some yb0)
    (A B A' B' : Tree P C) (inv : CrashInv ge cname A0 B0 plan done A B)
    (hA' : ∀ q, get A' q = get A q ∨ (q = ln ∧ get A' q = some (loser ge xa0 yb0)))
    (hB' : ∀ q, get B' q = get B q ∨ (q = ln ∧ get B' q = some (loser ge xa0 yb0))) :
    CrashInv ge cname A0 B0 plan done A' B' := by
  obtain ⟨n1, n2⟩ := nnc.notLive p0 act0 ln hm0 hc0
  have frameA : ∀ q, q ≠ ln → get A' q = get A q := fun q hq => by
    rcases hA' q with h | ⟨h, _⟩
    · exact h
    · exact absurd h hq
  have frameB : ∀ q, q ≠ ln → get B' q = get B q := fun q hq => by
    rcases hB' q with h | ⟨h, _⟩
    · exact h
    · exact absurd h hq
  refine ⟨?_, ?_, ?_, ?_⟩
  · intro q hq hnc
    have hne : q ≠ ln := fun e => hnc p0 act0 hm0 (by rw [e]; exact hc0)
    rw [frameA q hne, frameB q hne]
    exact inv.untouched q hq hnc
  · intro p act hm
    have hne : p ≠ ln := by
      intro e
      rcases hlive p act (hsub _ hm) with h | h
      · exact h (by rw [e]; exact n1)
      · exact h (by rw [e]; exact n2)
    rw [frameA p hne, frameB p hne]
    exact inv.atPath p act hm
  · intro p act ln' hm hc
    have hne : ln' ≠ ln := by
      intro e
      have := nnc.distinct p act p0 act0 ln (hsub _ hm) hm0 (by rw [← e]; exact hc) hc0
      subst this
      have : act = act0 := act_unique plan hnd p act act0 (hsub _ hm) hm0
      subst this
      exact hnd0 hm
    rw [frameA ln' hne, frameB ln' hne]
    exact inv.atCopy p act ln' hm hc
  · intro p' act' ln' xa yb hm hnd' hc eA eB
    by_cases e : ln' = ln
    · subst e
      have := nnc.distinct p' act' p0 act0 ln' hm hm0 hc hc0
      subst this
      rw [eA0] at eA; rw [eB0] at eB; cases eA; cases eB
      obtain ⟨w1, w2⟩ := inv.weak p' act' ln' xa0 yb0 hm hnd' hc eA0 eB0
      constructor
      · rcases hA' ln' with h | ⟨_, h⟩
        · rw [h]; exact w1
        · exact Or.inr h
      · rcases hB' ln' with h | ⟨_, h⟩
        · rw [h]; exact w2
        · exact Or.inr h
    · rw [frameA ln' e, frameB ln' e]
      exact inv.weak p' act' ln' xa yb hm hnd' hc eA eB

end Copia.Crash
