import Copia.Model.Shell
/-! An all-`&&` list runs a stage iff every earlier stage succeeded, and succeeds iff all did. -/
namespace Copia.Shell

/-- after a failure an all-`&&` tail runs nothing -/
theorem evalFrom_failed (ok : Nat → Bool) : ∀ (cs : List Conn) (i : Nat) (ran : List Nat), AllAnd cs →
    evalFrom ok i cs (ran, false) = (ran, false)
  | [], _, _, _ => rfl
  | c :: cs, i, ran, h => by
    obtain ⟨hc, h⟩ := h
    subst hc
    simp only [evalFrom]
    exact evalFrom_failed ok cs (i + 1) ran h

theorem evalFrom_allAnd (ok : Nat → Bool) : ∀ (cs : List Conn) (i : Nat) (ran : List Nat), AllAnd cs →
    (evalFrom ok i cs (ran, true)).2 = ((List.range cs.length).all fun k => ok (i + k)) ∧
    ∀ j, j ∈ (evalFrom ok i cs (ran, true)).1 ↔
      j ∈ ran ∨ (i ≤ j ∧ j < i + cs.length ∧ ∀ k, i ≤ k → k < j → ok k = true)
  | [], i, ran, _ => by
    simp only [evalFrom, List.length_nil, List.range_zero, List.all_nil, true_and, Nat.add_zero]
    intro j
    constructor
    · exact Or.inl
    · rintro (h | ⟨a, b, _⟩)
      · exact h
      · omega
  | c :: cs, i, ran, h => by
    obtain ⟨hc, h⟩ := h
    subst hc
    simp only [evalFrom]
    cases hi : ok i with
    | false =>
      simp only [BEq.rfl, Bool.and_true, Bool.or_true, Bool.true_or, if_true]
      rw [evalFrom_failed ok cs (i + 1) (ran ++ [i]) h]
      refine ⟨?_, fun j => ?_⟩
      · symm
        rw [List.all_eq_false]
        exact ⟨0, by simp, by simp [hi]⟩
      · simp only [List.mem_append, List.mem_singleton, List.length_cons]
        constructor
        · rintro (h1 | h1)
          · exact Or.inl h1
          · subst h1; exact Or.inr ⟨Nat.le_refl _, by omega, fun k h1 h2 => by omega⟩
        · rintro (h1 | ⟨a, b, d⟩)
          · exact Or.inl h1
          · by_cases e : j = i
            · exact Or.inr e
            · have := d i (Nat.le_refl _) (by omega)
              rw [hi] at this; cases this
    | true =>
      simp only [BEq.rfl, Bool.and_true, Bool.or_true, Bool.true_or, if_true]
      obtain ⟨a, b⟩ := evalFrom_allAnd ok cs (i + 1) (ran ++ [i]) h
      refine ⟨?_, fun j => ?_⟩
      · rw [a, Bool.eq_iff_iff]
        simp only [List.all_eq_true, List.mem_range, List.length_cons]
        constructor
        · intro hh k hk
          by_cases e : k = 0
          · subst e; simpa using hi
          · have := hh (k - 1) (by omega)
            rwa [show i + 1 + (k - 1) = i + k by omega] at this
        · intro hh k hk
          have := hh (k + 1) (by omega)
          rwa [show i + (k + 1) = i + 1 + k by omega] at this
      · rw [b j]
        simp only [List.mem_append, List.mem_singleton, List.length_cons]
        constructor
        · rintro ((h1 | h1) | ⟨a1, b1, d1⟩)
          · exact Or.inl h1
          · subst h1; exact Or.inr ⟨Nat.le_refl _, by omega, fun k h1 h2 => by omega⟩
          · refine Or.inr ⟨by omega, by omega, fun k h1 h2 => ?_⟩
            by_cases e : k = i
            · subst e; exact hi
            · exact d1 k (by omega) h2
        · rintro (h1 | ⟨a1, b1, d1⟩)
          · exact Or.inl (Or.inl h1)
          · by_cases e : j = i
            · exact Or.inl (Or.inr e)
            · exact Or.inr ⟨by omega, by omega, fun k h1 h2 => d1 k (by omega) h2⟩

/-- `s0 && s1 && … && sn`: stage `j` runs iff all earlier stages succeeded; exit status 0 iff all succeeded -/
theorem allAnd_chain (ok : Nat → Bool) (cs : List Conn) (h : AllAnd cs) :
    (eval ok (0 :: cs)).2 = ((List.range (cs.length + 1)).all fun k => ok k) ∧
    ∀ j, j ∈ (eval ok (0 :: cs)).1 ↔ (j < cs.length + 1 ∧ ∀ k, k < j → ok k = true) := by
  have key := evalFrom_allAnd ok (1 :: cs) 0 [] ⟨rfl, h⟩
  have e : eval ok (0 :: cs) = evalFrom ok 0 (1 :: cs) ([], true) := by
    simp [eval, evalFrom]
  rw [e]
  refine ⟨?_, fun j => ?_⟩
  · rw [key.1]; simp
  · rw [key.2 j]
    simp only [List.not_mem_nil, false_or, Nat.zero_le, true_and, Nat.zero_add, List.length_cons, true_implies]

end Copia.Shell
