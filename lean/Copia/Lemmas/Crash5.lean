import Copia.Lemmas.Crash4
namespace Copia.Crash
open Copia.Reconcile Copia.Bisync

variable {P C : Type} [DecidableEq P] [DecidableEq C]

theorem run_groups (ge : C → C → Bool) (cname : P → C → P) (A0 B0 : Tree P C) (z : P → Option (Fp C))
    (plan : List (P × Action))
    (hact : ∀ p act, (p, act) ∈ plan → act = reconcilePath ((get A0 p).map mkFp) ((get B0 p).map mkFp) (z p))
    (hlive : ∀ p act, (p, act) ∈ plan → get A0 p ≠ none ∨ get B0 p ≠ none)
    (hnd : (plan.map (·.1)).Nodup) (nnc : NoNameClash ge cname A0 B0 plan) :
    ∀ (todo done : List (P × Action)) (st : CState P C), plan = done ++ todo →
      RunInv ge cname A0 B0 done { A := st.A, B := st.B, common := [] } →
      RunInv ge cname A0 B0 plan
        { A := ((todo.flatMap fun pa => (actionGroups ge cname (scan A0) (scan B0) pa.1 pa.2).flatMap Group.steps).foldl exec st).A,
          B := ((todo.flatMap fun pa => (actionGroups ge cname (scan A0) (scan B0) pa.1 pa.2).flatMap Group.steps).foldl exec st).B,
          common := [] } := by
  intro todo
  induction todo with
  | nil =>
    intro done st hp inv
    simp only [List.append_nil] at hp
    subst hp
    simpa using inv
  | cons e rest ih =>
    intro done st hp inv
    obtain ⟨p, act⟩ := e
    have hmem : (p, act) ∈ plan := by rw [hp]; simp
    have hdone_mem : ∀ x, x ∈ done → x ∈ plan := fun x hx => by rw [hp]; exact List.mem_append_left _ hx
    -- p is a fresh path
    have hpfresh : ¬ touched ge cname A0 B0 done p := by
      rintro (⟨act', h'⟩ | ⟨p', act', h', hc⟩)
      · rw [hp, List.map_append, List.nodup_append] at hnd
        exact hnd.2.2 p (List.mem_map_of_mem (f := (·.1)) h') p (by simp) rfl
      · have := nnc.notLive p' act' p (hdone_mem _ h') hc
        rcases hlive p act hmem with h1 | h1
        · exact h1 this.1
        · exact h1 this.2
    obtain ⟨hxA, hyB⟩ := inv.untouched p hpfresh
    have hs : Shape (get A0 p) (get B0 p) act := by rw [hact p act hmem]; exact shape_of_reconcile _ _ _
    have hcc : ∀ ln, ccName ge cname p act (get A0 p) (get B0 p) = some ln → ln ≠ p := by
      intro ln hln e
      have := nnc.notLive p act ln hmem hln
      rw [e] at this
      rcases hlive p act hmem with h1 | h1
      · exact h1 this.1
      · exact h1 this.2
    obtain ⟨hloc, hpA, hpB, hcopy⟩ :=
      groups_local ge cname (scan A0) (scan B0) st p act (get A0 p) (get B0 p) hxA hyB
        (lookup_scan A0 p) (lookup_scan B0 p) hs hcc
    simp only [List.flatMap_cons, List.foldl_append]
    apply ih (done ++ [(p, act)]) _ (by rw [hp]; simp)
    refine ⟨?_, ?_, ?_⟩
    · -- untouched
      intro q hq
      have hq1 : ¬ touched ge cname A0 B0 done q := by
        rintro (⟨a', h'⟩ | ⟨p', a', h', hc⟩)
        · exact hq (Or.inl ⟨a', List.mem_append_left _ h'⟩)
        · exact hq (Or.inr ⟨p', a', List.mem_append_left _ h', hc⟩)
      have hq2 : q ≠ p := fun e => hq (Or.inl ⟨act, by simp [e]⟩)
      have hq3 : ccName ge cname p act (get A0 p) (get B0 p) ≠ some q :=
        fun e => hq (Or.inr ⟨p, act, by simp, e⟩)
      obtain ⟨h1, h2⟩ := hloc q hq2 hq3
      obtain ⟨h3, h4⟩ := inv.untouched q hq1
      exact ⟨h1.trans h3, h2.trans h4⟩
    · -- atPath
      intro p' act' hm0
      rcases List.mem_append.mp hm0 with hm | hm
      · have hne : p' ≠ p := by
          intro e; rw [e] at hm; exact hpfresh (Or.inl ⟨act', hm⟩)
        have hnc : ccName ge cname p act (get A0 p) (get B0 p) ≠ some p' := by
          intro e
          have := nnc.notLive p act p' hmem e
          rcases hlive p' act' (hdone_mem _ hm) with h1 | h1
          · exact h1 this.1
          · exact h1 this.2
        obtain ⟨h1, h2⟩ := hloc p' hne hnc
        obtain ⟨h3, h4⟩ := inv.atPath p' act' hm
        exact ⟨h1.trans h3, h2.trans h4⟩
      · simp only [List.mem_singleton, Prod.mk.injEq] at hm
        obtain ⟨rfl, rfl⟩ := hm
        exact ⟨hpA, hpB⟩
    · -- atCopy
      intro p' act' ln hm0 hc
      rcases List.mem_append.mp hm0 with hm | hm
      · obtain ⟨xa, yb, e1, e2, h3, h4⟩ := inv.atCopy p' act' ln hm hc
        have hne : ln ≠ p := by
          intro e
          have := nnc.notLive p' act' ln (hdone_mem _ hm) hc
          rw [e] at this
          rcases hlive p act hmem with h1 | h1
          · exact h1 this.1
          · exact h1 this.2
        have hnc : ccName ge cname p act (get A0 p) (get B0 p) ≠ some ln := by
          intro e
          have := nnc.distinct p act p' act' ln hmem (hdone_mem _ hm) e hc
          rw [← this] at hm
          exact hpfresh (Or.inl ⟨act', hm⟩)
        obtain ⟨h1, h2⟩ := hloc ln hne hnc
        exact ⟨xa, yb, e1, e2, h1.trans h3, h2.trans h4⟩
      · simp only [List.mem_singleton, Prod.mk.injEq] at hm
        obtain ⟨rfl, rfl⟩ := hm
        obtain ⟨xa, yb, e1, e2, e3, e4⟩ := ccName_some ge cname p' act' _ _ ln hc
        obtain ⟨h1, h2⟩ := hcopy ln xa yb e1 e2 e3 e4
        exact ⟨xa, yb, e1, e2, h1, h2⟩


/-- two live states that both satisfy the run invariant for the same whole plan agree at every path -/
theorem runInv_unique (ge : C → C → Bool) (cname : P → C → P) (A0 B0 : Tree P C) (plan : List (P × Action))
    (l1 l2 : Live P C) (i1 : RunInv ge cname A0 B0 plan l1) (i2 : RunInv ge cname A0 B0 plan l2) (q : P) :
    get l1.A q = get l2.A q ∧ get l1.B q = get l2.B q := by
  by_cases h1 : ∃ act, (q, act) ∈ plan
  · obtain ⟨act, hm⟩ := h1
    obtain ⟨a1, b1⟩ := i1.atPath q act hm
    obtain ⟨a2, b2⟩ := i2.atPath q act hm
    exact ⟨a1.trans a2.symm, b1.trans b2.symm⟩
  · by_cases h2 : ∃ p act, (p, act) ∈ plan ∧ ccName ge cname p act (get A0 p) (get B0 p) = some q
    · obtain ⟨p, act, hm, hc⟩ := h2
      obtain ⟨xa, yb, e1, e2, a1, b1⟩ := i1.atCopy p act q hm hc
      obtain ⟨xa', yb', e1', e2', a2, b2⟩ := i2.atCopy p act q hm hc
      rw [e1] at e1'; rw [e2] at e2'; cases e1'; cases e2'
      exact ⟨a1.trans a2.symm, b1.trans b2.symm⟩
    · have hnt : ¬ touched ge cname A0 B0 plan q := by
        rintro (h | h)
        · exact h1 h
        · exact h2 h
      obtain ⟨a1, b1⟩ := i1.untouched q hnt
      obtain ⟨a2, b2⟩ := i2.untouched q hnt
      exact ⟨a1.trans a2.symm, b1.trans b2.symm⟩

end Copia.Crash
