import Copia.Model.Reconcile
/-! Helper lemmas for C18 (and the bisync properties): `dedupAdj`, `unionKeys`, `lookup`. -/
namespace Copia.Reconcile

theorem Fp.same_iff {D} [DecidableEq D] (a b : Fp D) : Fp.same a b = true ↔ a = b := by
  cases a; cases b; simp [Fp.same]

theorem Fp.same_eq_decide {D} [DecidableEq D] (a b : Fp D) : Fp.same a b = decide (a = b) := by
  by_cases h : a = b
  · simp [h, (Fp.same_iff b b).mpr rfl]
  · have : Fp.same a b ≠ true := fun hs => h ((Fp.same_iff a b).mp hs)
    simp [h, this]

theorem mem_dedupAdj {K} [DecidableEq K] (x : K) : ∀ l : List K, x ∈ dedupAdj l ↔ x ∈ l
  | [] => by simp [dedupAdj]
  | [y] => by simp [dedupAdj]
  | y :: z :: t => by
    have ih := mem_dedupAdj x (z :: t)
    unfold dedupAdj
    split
    · next h => subst h; rw [ih]; simp
    · simp [ih]

/-- On a `le`-sorted list (antisymmetric `le`), adjacent dedup yields a strictly sorted list. -/
theorem pairwise_dedupAdj {K} [DecidableEq K] (le : K → K → Bool)
    (antisymm : ∀ a b, le a b → le b a → a = b) :
    ∀ l : List K, l.Pairwise (fun a b => le a b) →
      (dedupAdj l).Pairwise (fun a b => le a b = true ∧ a ≠ b)
  | [], _ => by simp [dedupAdj]
  | [y], _ => by simp [dedupAdj]
  | y :: z :: t, h => by
    have hyz : ∀ w ∈ z :: t, le y w = true := (List.pairwise_cons.mp h).1
    have htl : (z :: t).Pairwise (fun a b => le a b) := (List.pairwise_cons.mp h).2
    have ih := pairwise_dedupAdj le antisymm (z :: t) htl
    unfold dedupAdj
    split
    · exact ih
    · next hne =>
      refine List.pairwise_cons.mpr ⟨?_, ih⟩
      intro w hw
      have hw' : w ∈ z :: t := (mem_dedupAdj w _).mp hw
      refine ⟨hyz w hw', ?_⟩
      intro hyw
      subst hyw
      -- y ∈ z :: t, y ≠ z, so y ∈ t; then le z y and le y z give y = z
      rcases List.mem_cons.mp hw' with h1 | h1
      · exact hne h1
      · have hzy : le z y = true := (List.pairwise_cons.mp htl).1 y h1
        have hyz' : le y z = true := hyz z (List.mem_cons_self ..)
        exact hne (antisymm _ _ hyz' hzy)

theorem mem_unionKeys {K V} [DecidableEq K] (le : K → K → Bool) (a b : List (K × V)) (p : K) :
    p ∈ unionKeys le a b ↔ p ∈ a.map (·.1) ∨ p ∈ b.map (·.1) := by
  unfold unionKeys
  rw [mem_dedupAdj, List.mem_mergeSort, List.mem_append]

theorem unionKeys_sorted {K V} [DecidableEq K] (le : K → K → Bool)
    (trans : ∀ a b c, le a b → le b c → le a c) (total : ∀ a b, le a b || le b a)
    (antisymm : ∀ a b, le a b → le b a → a = b) (a b : List (K × V)) :
    (unionKeys le a b).Pairwise (fun x y => le x y = true ∧ x ≠ y) :=
  pairwise_dedupAdj le antisymm _ (List.pairwise_mergeSort trans total _)

theorem lookup_isSome_iff {K V} [DecidableEq K] (m : List (K × V)) (k : K) :
    (lookup m k).isSome ↔ k ∈ m.map (·.1) := by
  induction m with
  | nil => simp [lookup]
  | cons h t ih =>
    obtain ⟨k', v⟩ := h
    unfold lookup
    by_cases hk : k' = k
    · simp [hk]
    · simp [hk, ih]; exact fun h => absurd h.symm hk

end Copia.Reconcile
