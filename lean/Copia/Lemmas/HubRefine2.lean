import Copia.Lemmas.HubLInv
namespace Copia.HubConc

/-- C03 core: every step of the interleaved system is invisible to clients (a stutter of the
abstract map) or is exactly ONE atomic `specPut` / `specDel` of the stepping process's request. -/
theorem step_refines {S init s s'} (wf : WF S) (inv : Inv S init s) (li : LInv S s) (st : Step S s s') :
    abs S s' = abs S s ∨ (∃ i, abs S s' = specPut S (abs S s) (S.req i)) ∨
      (∃ i, abs S s' = specDel S (abs S s) (S.req i)) := by
  cases st with
  | createFresh i h hn =>
    left; funext p
    simp only [abs]
    split
    · rfl
    · next hp =>
      have hp' : S.staging p = false := by simpa using hp
      have hne : p ≠ S.tmpOf i (S.req i).dst := by
        intro e; rw [e, wf.tmp_staging] at hp'; cases hp'
      simp only [upd, hne, if_false]
      cases hd : s.dir p with
      | none => rfl
      | some n =>
        have hne2 : n ≠ s.next := Nat.ne_of_lt (inv.fresh _ _ hd)
        simp [upd, hne2]
  | createTrunc i n h hn =>
    left; funext p
    simp only [abs]
    split
    · rfl
    · next hp =>
      have hp' : S.staging p = false := by simpa using hp
      cases hd : s.dir p with
      | none => rfl
      | some m =>
        have hne : m ≠ n := by
          intro e; subst e
          have := inv.inj _ _ _ hd hn
          rw [this, wf.tmp_staging] at hp'; cases hp'
        simp [upd, hne]
  | write i fd k c h hc => left; exact abs_stutter_write wf inv c h
  | verifyOk i fd k h hk hh => left; rfl
  | verifyBad i fd k h hk hh =>
    left; funext p
    simp only [abs]
    split
    · rfl
    · next hp =>
      have hp' : S.staging p = false := by simpa using hp
      have hne : p ≠ S.tmpOf i (S.req i).dst := by
        intro e; rw [e, wf.tmp_staging] at hp'; cases hp'
      simp [upd, hne]
  | lock i fd h hl => left; rfl
  | readCur i fd h => left; rfl
  | commit i fd cur h hc => right; left; exact ⟨i, commit_refines wf inv li h hc⟩
  | conflict i fd cur h hc => right; left; exact ⟨i, conflict_refines wf inv li h hc⟩
  | dLock i h hl => left; rfl
  | dRead i h => left; rfl
  | dUnlink i cur h hc => right; right; exact ⟨i, dunlink_refines wf inv li h hc⟩
  | dKeep i cur h hc => right; right; exact ⟨i, dkeep_refines wf inv li h hc⟩
  | unlock i h => left; rfl
  | kill i => left; rfl

/-- reachability (any interleaving, any kills) -/
inductive Reach (S : Sys) : State → State → Prop
  | refl (s) : Reach S s s
  | step {s t u} : Reach S s t → Step S t u → Reach S s u

theorem reach_inv {S init s0 s} (wf : WF S) (h0 : Inv S init s0) (l0 : LInv S s0) (r : Reach S s0 s) :
    Inv S init s ∧ LInv S s := by
  induction r with
  | refl => exact ⟨h0, l0⟩
  | step _ st ih => exact ⟨step_inv wf ih.1 st, linv_step wf ih.1 ih.2 st⟩

/-- an inode no staging name points to, below the fresh counter, is never written again -/
structure Sealed (S : Sys) (s : State) (n : Ino) (c : List Chunk) : Prop where
  content : s.ino n = c
  old : n < s.next
  noStaging : ∀ q, S.staging q = true → s.dir q ≠ some n

theorem sealed_step {S init s s' n c} (wf : WF S) (inv : Inv S init s) (sl : Sealed S s n c) (st : Step S s s') :
    Sealed S s' n c := by
  have notfd : ∀ i fd, fdOf (s.pc i) = some fd → fd ≠ n := by
    intro i fd h e; subst e
    exact sl.noStaging _ (wf.tmp_staging i (S.req i).dst) (inv.own i _ h)
  cases st with
  | createFresh i h hn =>
    refine ⟨?_, Nat.lt_succ_of_lt sl.old, ?_⟩
    · have : n ≠ s.next := Nat.ne_of_lt sl.old
      simp [upd, this, sl.content]
    · intro q hq
      simp only [upd]
      split
      · intro e; cases e; exact absurd sl.old (Nat.lt_irrefl _)
      · exact sl.noStaging q hq
  | createTrunc i m h hn =>
    have hne : n ≠ m := by
      intro e; subst e; exact sl.noStaging _ (wf.tmp_staging i (S.req i).dst) hn
    exact ⟨by simp [upd, hne, sl.content], sl.old, sl.noStaging⟩
  | write i fd k ch h hc =>
    have hne : n ≠ fd := Ne.symm (notfd i fd (by rw [h]; rfl))
    exact ⟨by simp [upd, hne, sl.content], sl.old, sl.noStaging⟩
  | verifyOk i fd k h hk hh => exact ⟨sl.content, sl.old, sl.noStaging⟩
  | verifyBad i fd k h hk hh =>
    refine ⟨sl.content, sl.old, ?_⟩
    intro q hq; simp only [upd]; split
    · simp
    · exact sl.noStaging q hq
  | lock i fd h hl => exact ⟨sl.content, sl.old, sl.noStaging⟩
  | readCur i fd h => exact ⟨sl.content, sl.old, sl.noStaging⟩
  | commit i fd cur h hc =>
    refine ⟨sl.content, sl.old, ?_⟩
    intro q hq; simp only [upd]; split
    · simp
    · split
      · next e => rw [e, wf.dst_ns i] at hq; cases hq
      · exact sl.noStaging q hq
  | conflict i fd cur h hc =>
    refine ⟨sl.content, sl.old, ?_⟩
    intro q hq; simp only [upd]; split
    · simp
    · split
      · next e => rw [e, wf.cname_ns _ _ _ (wf.dst_ns i)] at hq; cases hq
      · exact sl.noStaging q hq
  | unlock i h => exact ⟨sl.content, sl.old, sl.noStaging⟩
  | kill i => exact ⟨sl.content, sl.old, sl.noStaging⟩
  | dLock i h hl => exact ⟨sl.content, sl.old, sl.noStaging⟩
  | dRead i h => exact ⟨sl.content, sl.old, sl.noStaging⟩
  | dUnlink i cur h hc =>
    refine ⟨sl.content, sl.old, ?_⟩
    intro q hq; simp only [upd]; split
    · simp
    · exact sl.noStaging q hq
  | dKeep i cur h hc => exact ⟨sl.content, sl.old, sl.noStaging⟩

theorem reach_trans {S : Sys} {a b c : State} (r1 : Reach S a b) (r2 : Reach S b c) : Reach S a c := by
  induction r2 with
  | refl => exact r1
  | step _ st ih => exact Reach.step ih st

theorem sealed_reach {S init s0 s t n c} (wf : WF S) (h0 : Inv S init s0) (l0 : LInv S s0)
    (r0 : Reach S s0 s) (sl : Sealed S s n c) (r : Reach S s t) : Sealed S t n c := by
  induction r with
  | refl => exact sl
  | step r' st ih => exact sealed_step wf (reach_inv wf h0 l0 (reach_trans r0 r')).1 ih st

/-- a published inode is sealed -/
theorem published_sealed {S init s} (wf : WF S) (inv : Inv S init s) (p : Path) (n : Ino)
    (hp : S.staging p = false) (hd : s.dir p = some n) : Sealed S s n (s.ino n) :=
  ⟨rfl, inv.fresh _ _ hd, fun q hq e => by
    have := inv.inj _ _ _ e hd
    rw [this, hp] at hq; cases hq⟩

end Copia.HubConc
