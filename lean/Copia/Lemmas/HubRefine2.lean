import Copia.Lemmas.HubLInv
namespace Copia.HubConc

/-- C03 core: every step of the interleaved system is invisible to clients (a stutter of the
abstract map) or is exactly ONE atomic `specPut` of the stepping process's request. -/
theorem step_refines {S init s s'} (wf : WF S) (inv : Inv S init s) (li : LInv S s) (st : Step S s s') :
    abs S s' = abs S s ∨ ∃ i, abs S s' = specPut S (abs S s) (S.req i) := by
  cases st with
  | createFresh i h hn =>
    left; funext p
    simp only [abs]
    split
    · rfl
    · next hp =>
      have hp' : S.staging p = false := by simpa using hp
      have hne : p ≠ S.tmpOf i (S.req i).dst := by
        intro e; rw [e, wf.tmp_staging] at hp'; cases hp'
      simp only [upd, hne, if_false]
      cases hd : s.dir p with
      | none => rfl
      | some n =>
        have hne2 : n ≠ s.next := Nat.ne_of_lt (inv.fresh _ _ hd)
        simp [upd, hne2]
  | createTrunc i n h hn =>
    left; funext p
    simp only [abs]
    split
    · rfl
    · next hp =>
      have hp' : S.staging p = false := by simpa using hp
      cases hd : s.dir p with
      | none => rfl
      | some m =>
        have hne : m ≠ n := by
          intro e; subst e
          have := inv.inj _ _ _ hd hn
          rw [this, wf.tmp_staging] at hp'; cases hp'
        simp [upd, hne]
  | write i fd k c h hc => left; exact abs_stutter_write wf inv c h
  | verifyOk i fd k h hk hh => left; rfl
  | verifyBad i fd k h hk hh =>
    left; funext p
    simp only [abs]
    split
    · rfl
    · next hp =>
      have hp' : S.staging p = false := by simpa using hp
      have hne : p ≠ S.tmpOf i (S.req i).dst := by
        intro e; rw [e, wf.tmp_staging] at hp'; cases hp'
      simp [upd, hne]
  | lock i fd h hl => left; rfl
  | readCur i fd h => left; rfl
  | commit i fd cur h hc => right; exact ⟨i, commit_refines wf inv li h hc⟩
  | conflict i fd cur h hc => right; exact ⟨i, conflict_refines wf inv li h hc⟩
  | unlock i h => left; rfl
  | kill i => left; rfl

/-- reachability (any interleaving, any kills) -/
inductive Reach (S : Sys) : State → State → Prop
  | refl (s) : Reach S s s
  | step {s t u} : Reach S s t → Step S t u → Reach S s u

theorem reach_inv {S init s0 s} (wf : WF S) (h0 : Inv S init s0) (l0 : LInv S s0) (r : Reach S s0 s) :
    Inv S init s ∧ LInv S s := by
  induction r with
  | refl => exact ⟨h0, l0⟩
  | step _ st ih => exact ⟨step_inv wf ih.1 st, linv_step wf ih.1 ih.2 st⟩

end Copia.HubConc
