import Copia.Lemmas.HubInv
/-! Refinement of the decisive steps of the interleaved hub to the atomic CAS map. -/
namespace Copia.HubConc

/-- what clients can observe: non-staging paths and their complete contents -/
def abs (S : Sys) (s : State) : Path → Option (List Chunk) :=
  fun p => if S.staging p then none else (s.dir p).map s.ino

/-- the atomic specification of a Put -/
def specPut (S : Sys) (m : Path → Option (List Chunk)) (r : Req) : (Path → Option (List Chunk)) :=
  if (m r.dst).map S.H = r.expected then upd m r.dst (some r.chunks)
  else upd m (S.cname m r.dst r.declared) (some r.chunks)

/-- the atomic specification of a Delete -/
def specDel (S : Sys) (m : Path → Option (List Chunk)) (r : Req) : (Path → Option (List Chunk)) :=
  if (m r.dst).map S.H = r.expected then upd m r.dst none else m

/-- inside the critical section -/
def holds : Pc → Bool
  | .locked _ => true
  | .decided _ _ => true
  | .renamed => true
  | .dlocked => true
  | .ddecided _ => true
  | _ => false

/-- lock discipline + the value read under the lock is still current -/
structure LInv (S : Sys) (s : State) : Prop where
  holder : ∀ i, holds (s.pc i) = true → s.lock = some i
  cur : ∀ i fd c, s.pc i = .decided fd c → c = ((s.dir (S.req i).dst).map (fun n => S.H (s.ino n)))
  dcur : ∀ i c, s.pc i = .ddecided c → c = ((s.dir (S.req i).dst).map (fun n => S.H (s.ino n)))

theorem abs_stutter_write {S init s} (wf : WF S) (inv : Inv S init s) {i fd k} (c : Chunk)
    (h : s.pc i = .writing fd k) :
    abs S { s with ino := upd s.ino fd (s.ino fd ++ [c]), pc := upd s.pc i (.writing fd (k+1)) } = abs S s := by
  funext p
  simp only [abs]
  split
  · rfl
  · next hp =>
    have hp' : S.staging p = false := by simpa using hp
    cases hd : s.dir p with
    | none => simp
    | some n =>
      have : n ≠ fd := by
        intro e; subst e
        exact fd_not_pub wf inv (i := i) (by rw [h]; rfl) hp' hd
      simp [upd, this]

theorem commit_refines {S init s} (wf : WF S) (inv : Inv S init s) (linv : LInv S s) {i fd cur}
    (h : s.pc i = .decided fd cur) (hc : cur = (S.req i).expected) :
    abs S { s with dir := upd (upd s.dir (S.req i).dst (s.dir (S.tmpOf i (S.req i).dst)))
                                (S.tmpOf i (S.req i).dst) none,
                   pc := upd s.pc i .renamed } = specPut S (abs S s) (S.req i) := by
  have hown := inv.own i fd (by rw [h]; rfl)
  have hfull := inv.full i fd (by rw [h]; rfl)
  have hdst := wf.dst_ns i
  have hts := wf.tmp_staging i (S.req i).dst
  have hcur := linv.cur i fd cur h
  have hexp : ((abs S s) (S.req i).dst).map S.H = (S.req i).expected := by
    simp only [abs, hdst]
    rw [← hc, hcur]
    cases s.dir (S.req i).dst <;> simp
  have hsp : specPut S (abs S s) (S.req i) = upd (abs S s) (S.req i).dst (some (S.req i).chunks) := by
    unfold specPut; rw [if_pos hexp]
  rw [hsp]
  have hne : (S.req i).dst ≠ S.tmpOf i (S.req i).dst := by
    intro e; rw [← e, hdst] at hts; cases hts
  funext p
  by_cases e1 : p = S.tmpOf i (S.req i).dst
  · subst e1; simp [abs, upd, hts, Ne.symm hne]
  · by_cases e2 : p = (S.req i).dst
    · subst e2; simp [abs, upd, hdst, e1, hown, hfull.1]
    · simp [abs, upd, e1, e2]

theorem conflict_refines {S init s} (wf : WF S) (inv : Inv S init s) (linv : LInv S s) {i fd cur}
    (h : s.pc i = .decided fd cur) (hc : cur ≠ (S.req i).expected) :
    abs S { s with dir := upd (upd s.dir (S.cname (view S s) (S.req i).dst (S.req i).declared)
                                    (s.dir (S.tmpOf i (S.req i).dst)))
                                (S.tmpOf i (S.req i).dst) none,
                   pc := upd s.pc i .renamed } = specPut S (abs S s) (S.req i) := by
  have hown := inv.own i fd (by rw [h]; rfl)
  have hfull := inv.full i fd (by rw [h]; rfl)
  have hdst := wf.dst_ns i
  have hcn := wf.cname_ns (view S s) _ (S.req i).declared hdst
  have hts := wf.tmp_staging i (S.req i).dst
  have hcur := linv.cur i fd cur h
  have hexp : ¬ ((abs S s) (S.req i).dst).map S.H = (S.req i).expected := by
    simp only [abs, hdst]
    intro e; apply hc; rw [hcur, ← e]
    cases s.dir (S.req i).dst <;> simp
  have hsp : specPut S (abs S s) (S.req i)
      = upd (abs S s) (S.cname (view S s) (S.req i).dst (S.req i).declared) (some (S.req i).chunks) := by
    unfold specPut; rw [if_neg hexp]; rfl
  rw [hsp]
  have hne : S.cname (view S s) (S.req i).dst (S.req i).declared ≠ S.tmpOf i (S.req i).dst := by
    intro e; rw [← e, hcn] at hts; cases hts
  funext p
  by_cases e1 : p = S.tmpOf i (S.req i).dst
  · subst e1; simp [abs, upd, hts, Ne.symm hne]
  · by_cases e2 : p = S.cname (view S s) (S.req i).dst (S.req i).declared
    · subst e2; simp [abs, upd, hcn, e1, hown, hfull.1]
    · simp [abs, upd, e1, e2]

theorem dunlink_refines {S init s} (wf : WF S) (inv : Inv S init s) (linv : LInv S s) {i cur}
    (h : s.pc i = .ddecided cur) (hc : cur = (S.req i).expected) :
    abs S { s with dir := upd s.dir (S.req i).dst none, pc := upd s.pc i .renamed } = specDel S (abs S s) (S.req i) := by
  have hdst := wf.dst_ns i
  have hcur := linv.dcur i cur h
  have hexp : ((abs S s) (S.req i).dst).map S.H = (S.req i).expected := by
    simp only [abs, hdst]
    rw [← hc, hcur]
    cases s.dir (S.req i).dst <;> simp
  unfold specDel; rw [if_pos hexp]
  funext p
  by_cases e2 : p = (S.req i).dst
  · subst e2; simp [abs, upd, hdst]
  · simp [abs, upd, e2]

theorem dkeep_refines {S init s} (wf : WF S) (_inv : Inv S init s) (linv : LInv S s) {i cur}
    (h : s.pc i = .ddecided cur) (hc : cur ≠ (S.req i).expected) :
    abs S { s with pc := upd s.pc i .renamed } = specDel S (abs S s) (S.req i) := by
  have hdst := wf.dst_ns i
  have hcur := linv.dcur i cur h
  have hexp : ¬ ((abs S s) (S.req i).dst).map S.H = (S.req i).expected := by
    simp only [abs, hdst]
    intro e; apply hc; rw [hcur, ← e]
    cases s.dir (S.req i).dst <;> simp
  unfold specDel; rw [if_neg hexp]; rfl

#print axioms commit_refines
#print axioms conflict_refines
end Copia.HubConc
