import Copia.Lemmas.ReconcileTable
import Copia.Model.Bisync
/-! Decision-level safety of `reconcile_path` (used by C02). -/
namespace Copia.PathSafe
open Copia.Reconcile Copia.Bisync Copia.C18

/-- the version (if any) that executing `act` at a path overwrites or removes on side A / side B -/
def discardsA {D} (act : Action) (a : Option (Fp D)) : Option (Fp D) :=
  match act with
  | .propagateBtoA | .deleteA => a
  | _ => none

def discardsB {D} (act : Action) (b : Option (Fp D)) : Option (Fp D) :=
  match act with
  | .propagateAtoB | .deleteB => b
  | _ => none

/-- C02 (decision level, every path, every triple): the only version a non-conflict action ever
discards is one that **equals the base** while the other side **differs from it** (changed or
deleted) — never one side of a divergent edit, never the survivor of delete-vs-modify, never a file
created on one side only. Conflicts, convergence and no-ops discard nothing at the path. -/
theorem path_safe {D} [DecidableEq D] (a b z : Option (Fp D)) :
    (∀ v, discardsA (reconcilePath a b z) a = some v → z = some v ∧ b ≠ some v) ∧
    (∀ v, discardsB (reconcilePath a b z) b = some v → z = some v ∧ a ≠ some v) := by
  cases a with
  | none =>
    cases b with
    | none => cases z <;> simp [reconcilePath, discardsA, discardsB]
    | some bv =>
      cases z with
      | none => simp [reconcilePath, discardsA, discardsB]
      | some zv =>
        by_cases h : bv = zv <;> simp [reconcilePath, discardsA, discardsB, Fp.same_eq_decide, h]
  | some av =>
    cases b with
    | none =>
      cases z with
      | none => simp [reconcilePath, discardsA, discardsB]
      | some zv =>
        by_cases h : av = zv <;> simp [reconcilePath, discardsA, discardsB, Fp.same_eq_decide, h]
    | some bv =>
      cases z with
      | none =>
        by_cases h : av = bv <;> simp [reconcilePath, discardsA, discardsB, Fp.same_eq_decide, h]
      | some zv =>
        by_cases h1 : av = bv <;> by_cases h2 : av = zv <;> by_cases h3 : bv = zv <;>
          simp_all [reconcilePath, discardsA, discardsB, Fp.same_eq_decide]

end Copia.PathSafe
