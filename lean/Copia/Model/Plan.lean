/-!
# Model of `src/bin/copia/plan.rs`

* `globMatch` — `glob_match`, in *suffix form*: the index loop's `(pi, ti)` become the remaining
  pattern/text, `(star, mark)` becomes an optional backtrack pair (pattern after the star, text from
  the mark). Branch order is the order in the source: `*` test first, then `?`/literal, then
  backtrack. The loop takes fuel; `globMatch` supplies `(|t|+2)·(|p|+|t|+2)`, proved sufficient.
* `isExcluded`, `needsTransfer`, `buildPlan` — line by line; maps are association lists.
-/
namespace Copia.Plan

abbrev Back := Option (List Char × List Char)

/-- `pi = s + 1; mark += 1; ti = mark` — restart after the last star, one text character later. -/
def btk : Back → Option (List Char × List Char)
  | some (bp, _ :: bt') => some (bp, bt')
  | _ => none

def loop : Nat → List Char → List Char → Back → Bool
  | 0, _, _, _ => false
  | _+1, ps, [], _ => (ps.dropWhile (· == '*')).isEmpty      -- `while pi < p.len() && p[pi]=='*'`; `pi == p.len()`
  | fuel+1, [], _ :: _, back =>
    match btk back with
    | some (bp, bt') => loop fuel bp bt' (some (bp, bt'))
    | none => false
  | fuel+1, x :: ps', c :: ts, back =>
    if x = '*' then loop fuel ps' (c :: ts) (some (ps', c :: ts))
    else if x = '?' ∨ x = c then loop fuel ps' ts back
    else
      match btk back with
      | some (bp, bt') => loop fuel bp bt' (some (bp, bt'))
      | none => false

/-- `glob_match(pat, text)` on `char` vectors. -/
def globMatch (p t : List Char) : Bool :=
  loop ((t.length + 2) * (p.length + t.length + 2)) p t none

/-- `pat.trim_end_matches('/')`. -/
def trimEndSlash (p : List Char) : List Char := (p.reverse.dropWhile (· == '/')).reverse

/-- Split on `/` (the `Normal` components of a normalised relative path). -/
def splitSlash : List Char → List (List Char)
  | [] => [[]]
  | c :: cs =>
    match splitSlash cs with
    | [] => [[]]   -- unreachable: splitSlash never returns []
    | h :: t => if c = '/' then [] :: h :: t else (c :: h) :: t

/-- `is_excluded(rel, excludes)`; `rel` a normalised relative path (no empty, `.` or `..` component). -/
def isExcluded (rel : List Char) (excludes : List (List Char)) : Bool :=
  excludes.any fun pat =>
    let pat := trimEndSlash pat
    if pat.isEmpty then false
    else if pat.contains '/' then globMatch pat rel
    else (splitSlash rel).any fun comp => globMatch pat comp

structure FileMeta where
  size : Nat
  mtime : Int
  deriving DecidableEq, Repr

/-- `needs_transfer`. -/
def needsTransfer (src : FileMeta) (dst : Option FileMeta) : Bool :=
  match dst with
  | none => true
  | some d => src.size ≠ d.size || src.mtime ≠ d.mtime

def lookup {K V} [DecidableEq K] (m : List (K × V)) (k : K) : Option V :=
  match m with
  | [] => none
  | (k', v) :: t => if k' = k then some v else lookup t k

structure SyncPlan (K : Type) where
  transfer : List K
  skipped : Nat
  delete : List K
  deriving Repr

/-- `build_plan(src, dst, excludes, with_delete)`; `excl` is `is_excluded(·, excludes)` on keys,
`le` the key order used by `sort`. -/
def buildPlan {K} [DecidableEq K] (le : K → K → Bool) (excl : K → Bool)
    (src dst : List (K × FileMeta)) (withDelete : Bool) : SyncPlan K :=
  let cand := src.filter fun pm => !excl pm.1
  let transfer := (cand.filter fun pm => needsTransfer pm.2 (lookup dst pm.1)).map (·.1)
  let skipped := (cand.filter fun pm => !needsTransfer pm.2 (lookup dst pm.1)).length
  let delete :=
    if withDelete then
      (dst.map (·.1)).filter fun p => (lookup src p).isNone && !excl p
    else []
  { transfer := transfer.mergeSort le, skipped := skipped, delete := delete.mergeSort le }

end Copia.Plan
