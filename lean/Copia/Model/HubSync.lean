import Copia.Model.Hub
/-!
# Model of `hub.rs::hub_sync` over the sequential hub semantics

The client lists the hub once, then for every local file (in path order) either skips it (the
listing shows the same hash) or sends a CAS-Put carrying the listed hash as `expected`. Between any
two of its requests other clients may have changed the hub (`env`), so the listing can be stale.
Keys are resolved paths (component lists); `casPut` is the hub's Put at key level (what
`Copia.Hub.handle` does for an accepted path whose content matches its declared hash).
-/
namespace Copia.HubSync
open Copia.Hub

variable {H : Type} [DecidableEq H]

/-- hub-side Put at key level: commit iff the current hash equals `expected`, else store a conflict-copy
(at a name the hub picks by looking at the tree: D13 repair) -/
def casPut (hash : Bytes → H) (cname : HTree → List (List Char) → H → List (List Char))
    (t : HTree) (k : List (List Char)) (expected : Option H) (c : Bytes) : HTree × Bool :=
  if (hget t k).map hash = expected then (hins t k c, true)
  else (hins t (cname t k (hash c)) c, false)

structure Counters where
  sent : Nat := 0
  skipped : Nat := 0
  conflicts : Nat := 0
  deriving DecidableEq, Repr

/-- one iteration of the push loop, against a (possibly stale) listing -/
def syncFile (hash : Bytes → H) (cname : HTree → List (List Char) → H → List (List Char))
    (listing : List (List Char) → Option H) (st : HTree × Counters) (f : List (List Char) × Bytes) : HTree × Counters :=
  let expected := listing f.1
  if expected = some (hash f.2) then (st.1, { st.2 with skipped := st.2.skipped + 1 })
  else
    let r := casPut hash cname st.1 f.1 expected f.2
    if r.2 then (r.1, { st.2 with sent := st.2.sent + 1 }) else (r.1, { st.2 with conflicts := st.2.conflicts + 1 })

/-- `hub_sync` without interference: listing = the hub's own state at the start -/
def hubSync (hash : Bytes → H) (cname : HTree → List (List Char) → H → List (List Char))
    (t : HTree) (localFiles : List (List (List Char) × Bytes)) : HTree × Counters :=
  localFiles.foldl (syncFile hash cname (fun k => (hget t k).map hash)) (t, {})

/-- what `HubClient` hands to the hub's stdin, in order -/
inductive Sent (P H : Type)
  | putFrame (path : P) (expected : Option H) (len : Nat) (hash : H)   -- `write_frame(&Request::Put { … })`
  | raw (bytes : Bytes)                                                 -- `io::copy(file, w)`: the content, unframed
  | flush
  deriving DecidableEq, Repr

end Copia.HubSync
