/-!
# Interleaved model of N hub server processes (`serve.rs::handle_put`) over an inode-level file system

Each process executes one Put (or one Delete, see `dLock`) as the sequence of file-system calls the code makes: create/truncate
its staging file, write the content chunk by chunk (as the client delivers it), verify the hash of
the bytes IT streamed, take the commit lock (`flock`), read the current hash of the destination,
rename the staging file onto the destination (commit) or onto the conflict-copy name (stale CAS),
unlock. `Step` is the interleaving relation: any enabled process may move; `kill i` removes process
`i` at any point (the kernel releases its lock). Paths, inodes, chunks, hashes are abstract (`Nat`).

`tmpOf i p` is the staging name process `i` uses for destination `p`
(`<p>.<pid>.copia-tmp`); `WF.tmp_inj` says it is injective in the process — the property the
pinned code lacked (one shared `<p>.copia-tmp`), which is exactly where the invariant proof breaks.
-/
namespace Copia.HubConc

abbrev Pid := Nat
abbrev Path := Nat
abbrev Ino := Nat
abbrev Chunk := Nat
abbrev Hash := Nat

structure Req where
  dst : Path
  expected : Option Hash
  chunks : List Chunk
  declared : Hash

inductive Pc
  | start                      -- nothing done
  | writing (fd : Ino) (k : Nat)   -- staging created, k chunks written
  | verified (fd : Ino)        -- all chunks written, hash test passed
  | locked (fd : Ino)          -- holds the commit lock
  | decided (fd : Ino) (cur : Option Hash)
  | renamed                    -- rename / unlink / no-op done, still holds lock
  | dlocked                    -- a Delete: holds the commit lock (no staging file)
  | ddecided (cur : Option Hash)   -- a Delete: current hash read under the lock
  | done
  | dead
  deriving DecidableEq

structure State where
  dir : Path → Option Ino
  ino : Ino → List Chunk
  next : Ino                    -- fresh inode counter
  lock : Option Pid
  pc : Pid → Pc

structure Sys where
  H : List Chunk → Hash
  staging : Path → Bool
  tmpOf : Pid → Path → Path
  cname : (Path → Option (List Chunk)) → Path → Hash → Path   -- the conflict-copy name, chosen by looking at what clients can see (D13 repair)
  req : Pid → Req

def upd {α} (f : Nat → α) (k : Nat) (v : α) : Nat → α := fun x => if x = k then v else f x

/-- what clients can observe: non-staging paths and their complete contents -/
def view (S : Sys) (s : State) : Path → Option (List Chunk) :=
  fun p => if S.staging p then none else (s.dir p).map s.ino

inductive Step (S : Sys) : State → State → Prop
  | createFresh (s i) (h : s.pc i = .start) (hn : s.dir (S.tmpOf i (S.req i).dst) = none) :
      Step S s { s with dir := upd s.dir (S.tmpOf i (S.req i).dst) (some s.next),
                        ino := upd s.ino s.next [], next := s.next + 1,
                        pc := upd s.pc i (.writing s.next 0) }
  | createTrunc (s i n) (h : s.pc i = .start) (hn : s.dir (S.tmpOf i (S.req i).dst) = some n) :
      Step S s { s with ino := upd s.ino n [], pc := upd s.pc i (.writing n 0) }
  | write (s i fd k c) (h : s.pc i = .writing fd k) (hc : (S.req i).chunks[k]? = some c) :
      Step S s { s with ino := upd s.ino fd (s.ino fd ++ [c]), pc := upd s.pc i (.writing fd (k+1)) }
  | verifyOk (s i fd k) (h : s.pc i = .writing fd k) (hk : k = (S.req i).chunks.length)
      (hh : S.H (S.req i).chunks = (S.req i).declared) :
      Step S s { s with pc := upd s.pc i (.verified fd) }
  | verifyBad (s i fd k) (h : s.pc i = .writing fd k) (hk : k = (S.req i).chunks.length)
      (hh : S.H (S.req i).chunks ≠ (S.req i).declared) :
      Step S s { s with dir := upd s.dir (S.tmpOf i (S.req i).dst) none, pc := upd s.pc i .done }
  | lock (s i fd) (h : s.pc i = .verified fd) (hl : s.lock = none) :
      Step S s { s with lock := some i, pc := upd s.pc i (.locked fd) }
  | readCur (s i fd) (h : s.pc i = .locked fd) :
      Step S s { s with pc := upd s.pc i (.decided fd ((s.dir (S.req i).dst).map (fun n => S.H (s.ino n)))) }
  | commit (s i fd cur) (h : s.pc i = .decided fd cur) (hc : cur = (S.req i).expected) :
      Step S s { s with dir := upd (upd s.dir (S.req i).dst (s.dir (S.tmpOf i (S.req i).dst)))
                                  (S.tmpOf i (S.req i).dst) none,
                        pc := upd s.pc i .renamed }
  | conflict (s i fd cur) (h : s.pc i = .decided fd cur) (hc : cur ≠ (S.req i).expected) :
      Step S s { s with dir := upd (upd s.dir (S.cname (view S s) (S.req i).dst (S.req i).declared)
                                    (s.dir (S.tmpOf i (S.req i).dst)))
                                  (S.tmpOf i (S.req i).dst) none,
                        pc := upd s.pc i .renamed }
  -- `handle_delete`: the same CAS under the same lock, no staging. A process is a Put if its first
  -- step creates its staging file and a Delete if its first step takes the lock; of `req i` a Delete
  -- uses `dst` and `expected` only.
  | dLock (s i) (h : s.pc i = .start) (hl : s.lock = none) :
      Step S s { s with lock := some i, pc := upd s.pc i .dlocked }
  | dRead (s i) (h : s.pc i = .dlocked) :
      Step S s { s with pc := upd s.pc i (.ddecided ((s.dir (S.req i).dst).map (fun n => S.H (s.ino n)))) }
  | dUnlink (s i cur) (h : s.pc i = .ddecided cur) (hc : cur = (S.req i).expected) :
      Step S s { s with dir := upd s.dir (S.req i).dst none, pc := upd s.pc i .renamed }
  | dKeep (s i cur) (h : s.pc i = .ddecided cur) (hc : cur ≠ (S.req i).expected) :
      Step S s { s with pc := upd s.pc i .renamed }
  | unlock (s i) (h : s.pc i = .renamed) :
      Step S s { s with lock := none, pc := upd s.pc i .done }
  | kill (s i) :
      Step S s { s with lock := if s.lock = some i then none else s.lock, pc := upd s.pc i .dead }

end Copia.HubConc
