/-!
# Support for the translation of the local scans of `meta.rs`
-/
namespace Copia.ScanSupport

/-- what `std::fs::metadata(path)` gives for a file the walker listed -/
inductive StatRes (M : Type)
  | ok (m : M)
  | notFound          -- gone between the walk and the stat
  | otherError        -- any other failure (a path longer than PATH_MAX, an I/O error, …)

/-- `BTreeMap::insert` on a map kept as an association list: replace the entry of the key, or append it -/
def mapIns {K V : Type} [DecidableEq K] : List (K × V) → K → V → List (K × V)
  | [], k, v => [(k, v)]
  | (k', v') :: r, k, v => if k' = k then (k, v) :: r else (k', v') :: mapIns r k v

def mapGet {K V : Type} [DecidableEq K] : List (K × V) → K → Option V
  | [], _ => none
  | (k', v') :: r, k => if k' = k then some v' else mapGet r k


/-- what `DirEntry::file_type()` reports (the entry's OWN type: a symlink is a symlink) -/
inductive FT
  | dir | file | symlink | other
  deriving DecidableEq, Repr

/-- a directory entry as the walker uses it: its path and its own type (none = `file_type()` fails) -/
structure Ent (P : Type) where
  path : P
  ft : Option FT

/-- a file's modification time relative to the epoch, as `SystemTime::duration_since(UNIX_EPOCH)` presents it -/
inductive MTime
  | err                                  -- `modified()` is not available
  | after (secs nanos : Nat)             -- at or after the epoch
  | before (secs nanos : Nat)            -- before the epoch: the distance to it
  deriving DecidableEq, Repr

/-- `i64::try_from(n).unwrap_or(i64::MAX)` -/
def toI64OrMax (n : Nat) : Int := if n ≤ 9223372036854775807 then (n : Int) else 9223372036854775807

/-- `Path::parent` on a relative path kept as its components: `None` for the empty path, else the path without its last component -/
def parentOf (p : List String) : Option (List String) := if p.isEmpty then none else some p.dropLast

/-- `BTreeSet::insert` on a set kept as a duplicate-free list -/
def setIns {α : Type} [DecidableEq α] (s : List α) (x : α) : List α := if x ∈ s then s else s ++ [x]

end Copia.ScanSupport
