/-!
# Support for the translation of the local scans of `meta.rs`
-/
namespace Copia.ScanSupport

/-- what `std::fs::metadata(path)` gives for a file the walker listed -/
inductive StatRes (M : Type)
  | ok (m : M)
  | notFound          -- gone between the walk and the stat
  | otherError        -- any other failure (a path longer than PATH_MAX, an I/O error, …)

/-- `BTreeMap::insert` on a map kept as an association list: replace the entry of the key, or append it -/
def mapIns {K V : Type} [DecidableEq K] : List (K × V) → K → V → List (K × V)
  | [], k, v => [(k, v)]
  | (k', v') :: r, k, v => if k' = k then (k, v) :: r else (k', v') :: mapIns r k v

def mapGet {K V : Type} [DecidableEq K] : List (K × V) → K → Option V
  | [], _ => none
  | (k', v') :: r, k => if k' = k then some v' else mapGet r k

end Copia.ScanSupport
