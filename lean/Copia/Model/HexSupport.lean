/-!
# `write!(out, "{b:02x}")` for a byte
-/
namespace Copia.HexSupport

def hexDigit (n : Nat) : Char :=
  match n with
  | 0 => '0' | 1 => '1' | 2 => '2' | 3 => '3' | 4 => '4' | 5 => '5' | 6 => '6' | 7 => '7'
  | 8 => '8' | 9 => '9' | 10 => 'a' | 11 => 'b' | 12 => 'c' | 13 => 'd' | 14 => 'e' | _ => 'f'

/-- two lowercase hex digits, zero-padded: what `{b:02x}` prints for a `u8` -/
def hex2 (b : Nat) : List Char := [hexDigit (b / 16 % 16), hexDigit (b % 16)]

end Copia.HexSupport
