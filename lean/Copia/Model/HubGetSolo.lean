import Copia.Model.HubGet
/-!
# One Get when nobody else moves (`soloGet`)

The calls `serve.rs::handle_get` makes on its one open handle, in program order, and the reply it ends in, when no writer
takes a step in between — an execution of `HubGet.GStep` (`Lemmas/HubGetSolo.soloGet_reach`), as `HubConc.soloPut` is one
of `HubConc.Step`. Chunks of the `Content` reply are `Nat`s as everywhere in `HubConc`.
-/
namespace Copia.HubGet
open Copia.HubConc

inductive GCall
  | open | stat | hashStart | hashRead | hashEof | sendRead | sendDone
  deriving DecidableEq, Repr

/-- where a Get of `p` ends when nobody else moves, and the calls it makes -/
def soloGet (S : Sys) (s : State) (p : Path) : GPc × List GCall :=
  match s.dir p with
  | none => (.notFound, [.open])
  | some n =>
    (.replied n (s.ino n).length (S.H (s.ino n)) ((s.ino n).take (s.ino n).length),
     [.open, .stat, .hashStart] ++ (s.ino n).map (fun _ => GCall.hashRead) ++ [.hashEof] ++
       ((s.ino n).take (s.ino n).length).map (fun _ => GCall.sendRead) ++ [.sendDone])

end Copia.HubGet
