import Copia.Gen.Constants
/-!
# Model of remote-path quoting (`$'…'`) — dir_sync.rs, meta.rs, single_sync.rs, transfer.rs

* `escape` — the `str::replace` chain the sources apply to a remote path before interpolating it
  between `$'` and `'`. The chain (characters, replacement strings, ORDER) is regenerated from the
  source on every run (`Gen.escapePairs`; all four files must use the same chain).
* `ansiC` — bash's scanner for an ANSI-C quoted word, started just after `$'`: it decodes up to the
  closing quote and returns what follows. Named escapes are decoded; numeric / control escapes
  (`\nnn`, `\xHH`, `\uHHHH`, `\UHHHHHHHH`, `\cx`) are outside the model (`none`) — the theorem shows
  an escaped path never contains one. Any other `\c` keeps both characters, as bash does.
-/
namespace Copia.Quote

/-- `str::replace(c, r)` for a one-character pattern -/
def replaceChar (c : Char) (r : List Char) (s : List Char) : List Char :=
  s.flatMap fun x => if x = c then r else [x]

/-- the replace chain of the sources, applied left to right -/
def escape (s : List Char) : List Char :=
  Copia.Gen.escapePairs.foldl (fun acc pr => replaceChar (Char.ofNat pr.1) (pr.2.map Char.ofNat) acc) s

def namedEscape (c : Char) : Option (Option Char) :=
  -- some (some x): decodes to x; some none: outside the model; none: not an escape (backslash kept)
  if c = '\\' then some (some '\\') else if c = '\'' then some (some '\'') else if c = '"' then some (some '"')
  else if c = '?' then some (some '?') else if c = 'n' then some (some '\n') else if c = 't' then some (some '\t')
  else if c = 'r' then some (some '\r') else if c = 'a' then some (some (Char.ofNat 7))
  else if c = 'b' then some (some (Char.ofNat 8)) else if c = 'e' ∨ c = 'E' then some (some (Char.ofNat 27))
  else if c = 'f' then some (some (Char.ofNat 12)) else if c = 'v' then some (some (Char.ofNat 11))
  else if c = 'x' ∨ c = 'u' ∨ c = 'U' ∨ c = 'c' ∨ ('0' ≤ c ∧ c ≤ '7') then some none
  else none

/-- scan an ANSI-C quoted word from just after `$'`: (decoded text, input after the closing quote);
`none` = unterminated, or an escape outside the model -/
def ansiC : List Char → Option (List Char × List Char)
  | [] => none
  | c :: r =>
    if c = '\'' then some ([], r)
    else if c = '\\' then
      match r with
      | [] => none                  -- a lone backslash at the end of input: unterminated
      | e :: r' =>
        match namedEscape e with
        | some (some x) => (ansiC r').map fun (d, k) => (x :: d, k)
        | some none => none
        | none => (ansiC r').map fun (d, k) => ('\\' :: e :: d, k)
    else (ansiC r).map fun (d, k) => (c :: d, k)

end Copia.Quote
