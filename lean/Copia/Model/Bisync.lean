import Copia.Model.Reconcile
/-!
# Model of `bidir.rs::run_bisync` / `apply` (with `reconcile.rs`, `archive.rs`)

State: two trees of regular files and the archive for the pair. A tree maps a path to a *content*
`C` (in the driver: the BLAKE3 hex of the bytes — contents are identified with their digests, which
is the collision-freeness assumption; the order on `C` is the byte order of digests, used by the
winner rule). `apply` runs over the plan with the **scanned** maps `a`/`b` (possibly stale by the
time an action runs) and the **live** trees, exactly like the code; a copy whose live source has
vanished is an I/O error that stops the run before the archive is written.

Domain: regular files only, no file/directory clashes, names not ending in the staging suffix.
-/
namespace Copia.Bisync
open Copia.Reconcile

variable {P C : Type} [DecidableEq P] [DecidableEq C]

abbrev Tree (P C : Type) := List (P × C)

def get (t : Tree P C) (p : P) : Option C := lookup t p

def del (t : Tree P C) (p : P) : Tree P C := t.filter (fun e => e.1 ≠ p)

/-- insert-or-replace -/
def ins (t : Tree P C) (p : P) (c : C) : Tree P C :=
  match t with
  | [] => [(p, c)]
  | (q, d) :: r => if q = p then (p, c) :: r else (q, d) :: ins r p c

/-- `discover_local_fingerprints`: every file with its content fingerprint (all regular files). -/
def scan (t : Tree P C) : List (P × Fp C) := t.map fun e => (e.1, { digest := e.2, ftype := .file })

structure Live (P C : Type) where
  A : Tree P C
  B : Tree P C
  common : List (P × Fp C)      -- the archive entries being built (`common` in `run_bisync`)

/-- `copy_atomic(src_root/sp, dst_root/dp)` on live trees; `none` = the source does not exist (I/O error). -/
def copyLive (src : Tree P C) (sp : P) (dst : Tree P C) (dp : P) : Option (Tree P C) :=
  (get src sp).map (ins dst dp)

/-- `common.insert(rel, fp)` / `common.remove(rel)` -/
def cIns (m : List (P × Fp C)) (p : P) (f : Fp C) : List (P × Fp C) :=
  match m with
  | [] => [(p, f)]
  | (q, d) :: r => if q = p then (p, f) :: r else (q, d) :: cIns r p f

def cDel (m : List (P × Fp C)) (p : P) : List (P × Fp C) := m.filter (fun e => e.1 ≠ p)

def cInsOpt (m : List (P × Fp C)) (p : P) (f : Option (Fp C)) : List (P × Fp C) :=
  match f with
  | some f => cIns m p f
  | none => m

/-- `bidir.rs::apply` for one plan entry. `a`, `b` are the scanned maps; `ge` is `≥` on digests
(`fa.blake3 >= fb.blake3`); `cname p c` is `<p>.conflict-<host>-<short_hex(c)>`. Returns the new live
state and whether the path is reported as a conflict; `none` = stopped on an I/O error. -/
def apply (ge : C → C → Bool) (cname : P → C → P) (a b : List (P × Fp C)) (l : Live P C) (p : P) :
    Action → Option (Live P C × Bool)
  | .noop => some (l, false)
  | .convergeIdentical => some ({ l with common := cInsOpt l.common p (lookup a p) }, false)
  | .propagateAtoB =>
    (copyLive l.A p l.B p).map fun B' => ({ l with B := B', common := cInsOpt l.common p (lookup a p) }, false)
  | .propagateBtoA =>
    (copyLive l.B p l.A p).map fun A' => ({ l with A := A', common := cInsOpt l.common p (lookup b p) }, false)
  -- a planned delete is re-validated against the LIVE other side (D16 repair): if this run has put a
  -- file there meanwhile (a conflict-copy carrying this name), nothing is removed and nothing recorded
  | .deleteA =>
    if (get l.B p).isSome then some (l, false)
    else some ({ l with A := del l.A p, common := cDel l.common p }, false)
  | .deleteB =>
    if (get l.A p).isSome then some (l, false)
    else some ({ l with B := del l.B p, common := cDel l.common p }, false)
  | .conflict .deleteVsModify =>
    if (lookup a p).isSome then
      (copyLive l.A p l.B p).map fun B' => ({ l with B := B', common := cInsOpt l.common p (lookup a p) }, false)
    else if (lookup b p).isSome then
      (copyLive l.B p l.A p).map fun A' => ({ l with A := A', common := cInsOpt l.common p (lookup b p) }, false)
    else some (l, false)
  | .conflict .bothChanged =>
    match lookup a p, lookup b p with
    | some fa, some fb =>
      if ge fa.digest fb.digest then
        -- A wins: loser = B. B/p → B/ln, B/p → A/ln, then A/p → B/p
        let ln := cname p fb.digest
        match copyLive l.B p l.B ln with
        | none => none
        | some B1 =>
          match copyLive B1 p l.A ln with
          | none => none
          | some A1 =>
            match copyLive A1 p B1 p with
            | none => none
            | some B2 => some ({ A := A1, B := B2, common := cIns (cIns l.common p fa) ln fb }, true)
      else
        let ln := cname p fa.digest
        match copyLive l.A p l.A ln with
        | none => none
        | some A1 =>
          match copyLive A1 p l.B ln with
          | none => none
          | some B1 =>
            match copyLive B1 p A1 p with
            | none => none
            | some A2 => some ({ A := A2, B := B1, common := cIns (cIns l.common p fb) ln fa }, true)
    | _, _ => some (l, false)

/-- the `for (path, act) in &plan { apply(...)? }` loop; counts conflicts -/
def applyAll (ge : C → C → Bool) (cname : P → C → P) (a b : List (P × Fp C)) :
    List (P × Action) → Live P C → Nat → Option (Live P C × Nat)
  | [], l, n => some (l, n)
  | (p, act) :: rest, l, n =>
    match apply ge cname a b l p act with
    | none => none
    | some (l', c) => applyAll ge cname a b rest l' (if c then n + 1 else n)

structure State (P C : Type) where
  A : Tree P C
  B : Tree P C
  arch : Option (List (P × Fp C))     -- `Archive::load`: trusted entries, or none

inductive Status | ok | conflicts | ioError
  deriving DecidableEq, Repr

structure Outcome (P C : Type) where
  state : State P C
  planLen : Nat
  nConflicts : Nat
  status : Status

/-- one `copia bisync A B` (not dry-run). On an I/O error the partial live state is returned and the
archive is left as it was. -/
def bisyncPlan (le : P → P → Bool) (s : State P C) : List (P × Action) :=
  reconcile le (scan s.A) (scan s.B) (s.arch.getD []) s.arch.isSome

/-- as `applyAll` but keeps the partial state reached when an action fails -/
def applyAllPartial (ge : C → C → Bool) (cname : P → C → P) (a b : List (P × Fp C)) :
    List (P × Action) → Live P C → Nat → (Live P C × Nat × Bool)
  | [], l, n => (l, n, true)
  | (p, act) :: rest, l, n =>
    match apply ge cname a b l p act with
    | none => (l, n, false)
    | some (l', c) => applyAllPartial ge cname a b rest l' (if c then n + 1 else n)

def bisync (le : P → P → Bool) (ge : C → C → Bool) (cname : P → C → P) (s : State P C) : Outcome P C :=
  let a := scan s.A
  let b := scan s.B
  let base := s.arch.getD []
  let plan := reconcile le a b base s.arch.isSome
  -- `common.retain(|p, _| a.contains_key(p) || b.contains_key(p))`: entries for paths gone from both sides are dropped
  let common0 := base.filter fun e => (lookup a e.1).isSome || (lookup b e.1).isSome
  let r := applyAllPartial ge cname a b plan { A := s.A, B := s.B, common := common0 } 0
  if r.2.2 then
    { state := { A := r.1.A, B := r.1.B, arch := some r.1.common }, planLen := plan.length, nConflicts := r.2.1,
      status := if r.2.1 = 0 then .ok else .conflicts }
  else
    { state := { A := r.1.A, B := r.1.B, arch := s.arch }, planLen := plan.length, nConflicts := r.2.1, status := .ioError }

end Copia.Bisync
