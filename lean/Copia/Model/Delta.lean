import Copia.Model.Checksum
/-!
# Model of the delta engine: `signature.rs`, `delta.rs`, `sync.rs` (`CopiaSync::{signature,delta,patch}`)
# (`async_sync.rs` holds a second copy of the same loops; the correspondence ties both to this model)

Bytes are `Nat`s (`< 256`). The strong hash is a parameter `H : List Nat → D` (BLAKE3 is not modelled).
The scan is written in *two-cursor suffix form*: `rest = source[pos..]`, `ahead = source[pos+bs..]`,
`rem = |rest|`, so one slide is O(1) and the model runs on megabyte inputs; `ops` are kept reversed
(`head` = `ops.last_mut()`).
Domain: `0 < bs < 2^32` (`block_size as u32`), fewer than `2^32` blocks (`i as u32`), sizes `< 2^64`.
-/
namespace Copia.Delta
open Copia.Checksum

structure BlockSig (D : Type) where
  index : Nat
  weak : Nat
  strong : D
  deriving Repr

structure Signature (D : Type) where
  blockSize : Nat
  fileSize : Nat
  blocks : List (BlockSig D)
  deriving Repr

inductive Op
  | copy (off len : Nat)
  | literal (data : List Nat)
  deriving DecidableEq, Repr

structure Delta (D : Type) where
  blockSize : Nat
  sourceSize : Nat
  basisSize : Nat
  ops : List Op
  checksum : D
  deriving Repr

/-- `data.chunks(bs).enumerate().map(|(i, chunk)| BlockSignature::compute(i, chunk))` as one loop
(this is literally the async engine's fill-a-buffer loop; the rayon path computes the same map).
Fuel = number of bytes (each round consumes ≥ 1 byte when `bs > 0`). -/
def sigLoop {D} (H : List Nat → D) (bs : Nat) : Nat → Nat → List Nat → List (BlockSig D)
  | 0, _, _ => []
  | fuel+1, i, l =>
    if l.isEmpty then [] else
    { index := i, weak := (Rolling.new (l.take bs)).digest, strong := H (l.take bs) }
      :: sigLoop H bs fuel (i + 1) (l.drop bs)

/-- `Signature::generate` / `AsyncCopiaSync::signature`. -/
def signature {D} (H : List Nat → D) (bs : Nat) (basis : List Nat) : Signature D :=
  { blockSize := bs, fileSize := basis.length, blocks := sigLoop H bs basis.length 0 basis }

/-- `u32::MAX` for `prev_len.checked_add(len)`. -/
def U32MAX : Nat := 4294967295

/-- `Delta::push_copy` on the reversed op list. -/
def pushCopy (rops : List Op) (off len : Nat) : List Op :=
  match rops with
  | .copy poff plen :: t =>
    if poff + plen = off ∧ plen + len ≤ U32MAX then .copy poff (plen + len) :: t
    else .copy off len :: rops
  | _ => .copy off len :: rops

/-- `Delta::push_literal_byte`. In the accumulator (`rops`) literal data is kept **reversed**, so that
appending one byte is O(1); `finish` restores the order. -/
def pushLiteralByte (rops : List Op) (b : Nat) : List Op :=
  match rops with
  | .literal d :: t => .literal (b :: d) :: t
  | _ => .literal [b] :: rops

/-- `Delta::push_literal` (accumulator form, see `pushLiteralByte`). -/
def pushLiteral (rops : List Op) (data : List Nat) : List Op :=
  if data.isEmpty then rops else
  match rops with
  | .literal d :: t => .literal (data.reverse ++ d) :: t
  | _ => .literal data.reverse :: rops

/-- accumulator → `Delta.ops`: reverse the op list and each literal's bytes. -/
def finish (rops : List Op) : List Op :=
  rops.reverse.map fun
    | .literal d => .literal d.reverse
    | op => op

/-- `has_weak_match` + `find_match`: candidates = blocks with this weak hash, in block order; the
strong hash of the window is computed only if there is a candidate; first candidate with equal
strong hash wins. -/
def findMatch {D} [DecidableEq D] (H : List Nat → D) (blocks : List (BlockSig D)) (weak : Nat)
    (rest : List Nat) (bs : Nat) : Option (BlockSig D) :=
  let cands := blocks.filter (·.weak = weak)
  if cands.isEmpty then none else
  let strong := H (rest.take bs)
  cands.find? (·.strong = strong)

/-- the `while pos + block_size <= source_data.len()` loop and the tail literal. -/
def scan {D} [DecidableEq D] (H : List Nat → D) (blocks : List (BlockSig D)) (bs : Nat) :
    Nat → List Nat → List Nat → Nat → Fast → List Op → List Op
  | 0, rest, _, _, _, rops => pushLiteral rops rest
  | fuel+1, rest, ahead, rem, rolling, rops =>
    if bs ≤ rem then
      match findMatch H blocks rolling.digest rest bs with
      | some sig =>
        let rops := pushCopy rops (sig.index * bs) bs
        let rem' := rem - bs
        let rolling' := if bs ≤ rem' then Fast.new (ahead.take bs) else rolling
        scan H blocks bs fuel ahead (ahead.drop bs) rem' rolling' rops
      | none =>
        match rest with
        | [] => rops
        | x :: rest' =>
          let rops := pushLiteralByte rops x
          let rolling' := if bs < rem then
              (match ahead with | y :: _ => rolling.roll x y | [] => rolling) else rolling
          scan H blocks bs fuel rest' ahead.tail (rem - 1) rolling' rops
    else pushLiteral rops rest

/-- `CopiaSync::delta` / `AsyncCopiaSync::delta`. -/
def delta {D} [DecidableEq D] (H : List Nat → D) (sig : Signature D) (src : List Nat) : Delta D :=
  let bs := sig.blockSize
  let rops :=
    if src.isEmpty then []
    else if sig.blocks.isEmpty then pushLiteral [] src
    else scan H sig.blocks bs (src.length + 1) src (src.drop bs) src.length
      (Fast.new (src.take (min bs src.length))) []
  { blockSize := bs % 4294967296, sourceSize := src.length, basisSize := sig.fileSize,
    ops := finish rops, checksum := H src }

inductive PatchResult | ok | invalidCopyBounds | io | checksumMismatch
  deriving DecidableEq, Repr

/-- `Delta::validate` (`saturating_add` against the *declared* basis size). -/
def validate {D} (δ : Delta D) : Bool :=
  δ.ops.all fun
    | .copy off len => min (off + len) 18446744073709551615 ≤ δ.basisSize
    | .literal _ => true

/-- the op loop: bytes written so far, or stop on a short read (`read_exact` → `UnexpectedEof`). -/
def applyOps (basis : List Nat) : List Op → List Nat → Bool × List Nat
  | [], out => (true, out)
  | .copy off len :: t, out =>
    if off + len ≤ basis.length then applyOps basis t (out ++ (basis.drop off).take len)
    else (false, out)
  | .literal d :: t, out => applyOps basis t (out ++ d)

/-- `patch` (both engines): verdict and the bytes written to the output (the real code writes
before it verifies). -/
def patch {D} [DecidableEq D] (H : List Nat → D) (verify : Bool) (basis : List Nat) (δ : Delta D) :
    PatchResult × List Nat :=
  if !validate δ then (.invalidCopyBounds, []) else
  match applyOps basis δ.ops [] with
  | (false, out) => (.io, out)
  | (true, out) => if verify && H out ≠ δ.checksum then (.checksumMismatch, out) else (.ok, out)

/-- `Delta::bytes_literal` / `bytes_matched`. -/
def literalBytes : List Op → Nat
  | [] => 0
  | .literal d :: t => d.length + literalBytes t
  | .copy _ _ :: t => literalBytes t

def matchedBytes : List Op → Nat
  | [] => 0
  | .literal _ :: t => matchedBytes t
  | .copy _ len :: t => len + matchedBytes t

end Copia.Delta
