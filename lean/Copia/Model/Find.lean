import Copia.Model.Meta
import Copia.Gen.Constants
/-!
# Model of the remote listing command `find . -type f -printf '<fmt>'` (meta.rs)

`Entry` is one regular file as `find` sees it; `findPrintf` interprets the directives and escapes the
format string uses; `renderBody`/`render` are the closed form the parser theorems are stated about
(`source_format_is_modelled` proves that the format string in the source produces it).
-/
namespace Copia.Meta
open Copia.Plan

/-! ## rendering: what `find . -type f -printf '%s\t%T@\t%p\0'` writes -/

def digitChar (d : Nat) : Char := Char.ofNat (48 + d)

/-- decimal digits of `n`, most significant first (`%s`, and the integer part of `%T@`) -/
def decimal (n : Nat) : List Char :=
  if n < 10 then [digitChar n] else decimal (n / 10) ++ [digitChar (n % 10)]
termination_by n
decreasing_by omega

def renderInt (i : Int) : List Char :=
  if i < 0 then '-' :: decimal i.natAbs else decimal i.natAbs

structure Entry where
  path : List Char     -- relative path as `find` prints it after "./"
  size : Nat
  secs : Int
  frac : List Char     -- what follows the '.' of `%T@`

/-- one record without its NUL terminator -/
def renderBody (e : Entry) : List Char :=
  decimal e.size ++ ('\t' :: ((renderInt e.secs ++ '.' :: e.frac) ++ ('\t' :: '.' :: '/' :: e.path)))

def render (es : List Entry) : List Char := es.flatMap fun e => renderBody e ++ ['\x00']

def Entry.WF (e : Entry) : Prop :=
  e.path ≠ [] ∧ '\x00' ∉ e.path ∧ e.size ≤ 18446744073709551615 ∧
  -9223372036854775808 ≤ e.secs ∧ e.secs ≤ 9223372036854775807 ∧
  (∀ c ∈ e.frac, c ≠ '\t' ∧ c ≠ '\x00')

/-- GNU `find -printf` for the directives and escapes the listing command uses: `%s` size in bytes,
`%T@` modification time as seconds '.' fraction, `%p` the path as found (under `.`: "./" ++ rel),
`\t`, `\0`; any other character is copied. -/
def findPrintf : List Char → Entry → List Char
  | '%' :: 's' :: r, e => decimal e.size ++ findPrintf r e
  | '%' :: 'T' :: '@' :: r, e => (renderInt e.secs ++ '.' :: e.frac) ++ findPrintf r e
  | '%' :: 'p' :: r, e => '.' :: '/' :: (e.path ++ findPrintf r e)
  | '\\' :: 't' :: r, e => '\t' :: findPrintf r e
  | '\\' :: '0' :: r, e => '\x00' :: findPrintf r e
  | c :: r, e => c :: findPrintf r e
  | [], _ => []

end Copia.Meta
