import Copia.Model.Meta
/-!
# Model of the command-line location parsers

* `parseLocation` — `main.rs::FileLocation::parse` (`sync SRC DST`): `host:path` is remote when the
  text before the FIRST colon is longer than one byte (a single letter may be a Windows drive) and
  contains no `/` or `\`; everything else is a local path.
* `splitTarget` — `hub.rs::split_target` (`hub-sync LOCAL TARGET`): `host:root` when the text before
  the first colon is non-empty and contains no `/`.
Strings are character lists; `len()` in the Rust code counts UTF-8 bytes (`utf8Len`).
-/
namespace Copia.Target
open Copia.Meta (cut)

inductive Loc
  | localPath (p : List Char)
  | remote (host path : List Char)
  deriving DecidableEq, Repr

def utf8Len (s : List Char) : Nat := (s.map fun c => c.utf8Size).sum

def parseLocation (s : List Char) : Loc :=
  match cut ':' s with
  | some (before, after) =>
    if utf8Len before > 1 ∧ '/' ∉ before ∧ '\\' ∉ before then .remote before after else .localPath s
  | none => .localPath s

def splitTarget (t : List Char) : Option (List Char × List Char) :=
  match cut ':' t with
  | some (host, root) => if host.isEmpty ∨ '/' ∈ host then none else some (host, root)
  | none => none

end Copia.Target
