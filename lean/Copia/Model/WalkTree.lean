import Copia.Model.ScanSupport
/-!
# A directory tree as the walker sees it, and what a complete listing of it is

Leaves: regular files, symlinks that resolve to a regular file, other symlinks (dangling, to a directory, …), other kinds
(fifo, socket, device), and entries whose `file_type()` fails. A directory is readable or not (`read_dir` fails); its entry
stream may yield an error (`bad`) in place of an entry.
-/
namespace Copia.WalkTree
open Copia.ScanSupport

inductive Kind
  | file | linkFile | linkOther | other | badType
  deriving DecidableEq, Repr

mutual
inductive Node
  | leaf (k : Kind)
  | dir (readable : Bool) (es : Entries)
inductive Entries
  | nil
  | cons (name : String) (n : Node) (rest : Entries)
  | bad (rest : Entries)
end

/-- a path of the tree, together with what is there -/
abbrev Loc := List String × Node

def ftOf : Node → Option FT
  | .leaf .file => some FT.file
  | .leaf .linkFile => some FT.symlink
  | .leaf .linkOther => some FT.symlink
  | .leaf .other => some FT.other
  | .leaf .badType => none
  | .dir _ _ => some FT.dir

/-- `Path::is_file`: the path, FOLLOWED, is a regular file -/
def isFileT (p : Loc) : Bool :=
  match p.2 with
  | .leaf .file => true
  | .leaf .linkFile => true
  | _ => false

def entsOf (pre : List String) : Entries → List (Option (Ent Loc))
  | .nil => []
  | .cons nm n r => some ⟨(pre ++ [nm], n), ftOf n⟩ :: entsOf pre r
  | .bad r => none :: entsOf pre r

def readDirT (p : Loc) : Option (List (Option (Ent Loc))) :=
  match p.2 with
  | .dir true es => some (entsOf p.1 es)
  | _ => none

/-- paths are kept relative to the root, so `strip_prefix(root)` is the identity on them -/
def stripT (p : Loc) : Option (List String) := some p.1

mutual
/-- nothing below this node makes a system call of the walk fail -/
def clean : Node → Bool
  | .leaf k => k != Kind.badType
  | .dir r es => r && cleanEs es
def cleanEs : Entries → Bool
  | .nil => true
  | .cons _ n r => clean n && cleanEs r
  | .bad _ => false
end

mutual
/-- the regular files (and symlinks to regular files) below a node, as relative paths -/
def files (p : List String) : Node → List (List String)
  | .leaf k => if k = Kind.file ∨ k = Kind.linkFile then [p] else []
  | .dir _ es => filesEs p es
def filesEs (p : List String) : Entries → List (List String)
  | .nil => []
  | .cons nm n r => files (p ++ [nm]) n ++ filesEs p r
  | .bad r => filesEs p r
end

mutual
def dirCount : Node → Nat
  | .leaf _ => 0
  | .dir _ es => 1 + dirCountEs es
def dirCountEs : Entries → Nat
  | .nil => 0
  | .cons _ n r => dirCount n + dirCountEs r
  | .bad r => dirCountEs r
end

end Copia.WalkTree
