/-!
# A POSIX and-or list (`a && b || c …`) — the shape of the remote push command

`transfer.rs::transfer_file_to_remote` hands the remote shell ONE and-or list: stages joined by `&&`
/ `||`, evaluated left to right with equal precedence; a stage runs iff the status so far is success
(`&&`) resp. failure (`||`); a skipped stage leaves the status as it is; the list's exit status is the
last status. `tools/gen_constants.py` splits the command string of the current source into its stages
and connectives (`Gen.pushStages`, `Gen.pushConns`); this file is the evaluator the C09 / C04
theorems about that command are stated with.
-/
namespace Copia.Shell

/-- connective in front of a stage: 0 = none (first stage), 1 = `&&`, 2 = `||` -/
abbrev Conn := Nat

/-- run the list: which stages ran (by index), and the exit status (`true` = 0). `ok i` = stage `i` succeeds when run. -/
def evalFrom (ok : Nat → Bool) : Nat → List Conn → List Nat × Bool → List Nat × Bool
  | _, [], acc => acc
  | i, c :: cs, (ran, st) =>
    if c == 0 || (c == 1 && st) || (c == 2 && !st) then evalFrom ok (i + 1) cs (ran ++ [i], ok i) else evalFrom ok (i + 1) cs (ran, st)

def eval (ok : Nat → Bool) (conns : List Conn) : List Nat × Bool := evalFrom ok 0 conns ([], true)

/-- an all-`&&` list after its first stage -/
def AllAnd : List Conn → Prop
  | [] => True
  | c :: cs => c = 1 ∧ AllAnd cs

end Copia.Shell
