import Copia.Model.Plan
/-!
# Model of `incremental.rs` (`run_local` / `run_remote`): one recursive one-way sync run

A tree maps a relative path to an entry: opaque content id, size, modification time split into whole
seconds (`mt`, what the quick check reads: `floor`, negative before 1970) and a sub-second part (`ns`). A transfer delivers
the source's content and sets the destination's mtime to the source's **whole seconds** (all three
writers do that: `set_local_mtime`, `touch -d @secs`).

The three directions share this semantics; what differs (remote commands, quoting, staging) is tied
by the black-box correspondence. Transfers run as concurrent tasks: the model applies them in list
order and C04 proves the result does not depend on the order.
-/
namespace Copia.OneWay
open Copia.Plan

structure Entry (C : Type) where
  content : C
  size : Nat
  mt : Int
  ns : Nat
  deriving DecidableEq, Repr

abbrev Tree (K C : Type) := List (K × Entry C)

variable {K C : Type} [DecidableEq K]

def metaOf (t : Tree K C) : List (K × FileMeta) := t.map fun e => (e.1, { size := e.2.size, mtime := e.2.mt })

def tins (t : Tree K C) (p : K) (e : Entry C) : Tree K C :=
  match t with
  | [] => [(p, e)]
  | (q, d) :: r => if q = p then (p, e) :: r else (q, d) :: tins r p e

def tdel (t : Tree K C) (p : K) : Tree K C := t.filter (fun e => e.1 ≠ p)

/-- deliver one file: destination gets the source bytes, the source's whole-second mtime, no sub-second part -/
def deliver (S : Tree K C) (D : Tree K C) (p : K) : Tree K C :=
  match lookup S p with
  | some e => tins D p { e with ns := 0 }
  | none => D           -- the source vanished: reported as a failed transfer, destination untouched

structure Result (K C : Type) where
  dest : Tree K C
  plan : SyncPlan K
  ranPlan : Bool         -- false: "No files found." early return (plan not even computed)

/-- one run of `sync -r SRC DST` (not dry-run). -/
def oneWay (le : K → K → Bool) (excl : K → Bool) (withDelete : Bool) (S D : Tree K C) : Result K C :=
  if S.isEmpty && !withDelete then { dest := D, plan := { transfer := [], skipped := 0, delete := [] }, ranPlan := false }
  else
    let plan := buildPlan le excl (metaOf S) (metaOf D) withDelete
    let D1 := plan.transfer.foldl (deliver S) D
    let D2 := plan.delete.foldl tdel D1
    { dest := D2, plan := plan, ranPlan := true }

/-- dry run: identity on the destination; prints the plan -/
def oneWayDry (le : K → K → Bool) (excl : K → Bool) (withDelete : Bool) (S D : Tree K C) : Result K C :=
  { (oneWay le excl withDelete S D) with dest := D }

end Copia.OneWay
