import Copia.Model.Delta
/-! Vocabulary of the loop translator for the delta scan (`sync.rs` / `async_sync.rs`): the two lookups of
`SignatureTable` — `has_weak_match(weak)`: is there a block with this weak hash; `find_match(weak, data)`: the
first such block, in block order, whose strong hash is the strong hash of `data`. -/
namespace Copia.DeltaSupport
open Copia.Delta

def hasWeak {D} (blocks : List (BlockSig D)) (weak : Nat) : Bool := !(blocks.filter (·.weak = weak)).isEmpty

def findStrong {D} [DecidableEq D] (H : List Nat → D) (blocks : List (BlockSig D)) (weak : Nat) (data : List Nat) :
    Option (BlockSig D) :=
  (blocks.filter (·.weak = weak)).find? (·.strong = H data)

/-- `data.chunks(bs)` / `data.par_chunks(bs)` (rayon's `collect` keeps the order): consecutive blocks of `bs` bytes, the
last one possibly shorter. Fuel = number of bytes. -/
def chunksFuel (bs : Nat) : Nat → List Nat → List (List Nat)
  | 0, _ => []
  | fuel+1, l => if l.isEmpty then [] else l.take bs :: chunksFuel bs fuel (l.drop bs)

def chunks (data : List Nat) (bs : Nat) : List (List Nat) := chunksFuel bs data.length data

/-- `.enumerate()` -/
def enumFrom {α : Type} : Nat → List α → List (Nat × α)
  | _, [] => []
  | i, x :: t => (i, x) :: enumFrom (i + 1) t

def enumerate {α : Type} (l : List α) : List (Nat × α) := enumFrom 0 l

/-- `u32::checked_add` -/
def checkedAdd32 (a b : Nat) : Option Nat := if a + b ≤ 4294967295 then some (a + b) else none

/-- `weak_index.entry(k).or_default().push(i)` on the index kept as an association list (insertion order of the keys) -/
def idxPush : List (Nat × List Nat) → Nat → Nat → List (Nat × List Nat)
  | [], k, i => [(k, [i])]
  | (k', is) :: r, k, i => if k' = k then (k', is ++ [i]) :: r else (k', is) :: idxPush r k i

/-- `weak_index.get(&k)` -/
def idxGet : List (Nat × List Nat) → Nat → Option (List Nat)
  | [], _ => none
  | (k', is) :: r, k => if k' = k then some is else idxGet r k

/-- An input that hands out its bytes in reads of its own choosing (a pipe, a socket, `ssh cat`): what it still holds, and for
each coming `read` how many bytes it is willing to deliver at most (`c` stands for `c + 1`: a read with room never returns 0
before the end of the input; when the list is used up every read fills the room). -/
abbrev Reader := List Nat × List Nat

/-- `reader.read(&mut buf[..room])`: the bytes delivered, and the reader afterwards -/
def readInto (r : Reader) (room : Nat) : List Nat × Reader :=
  let cap := match r.2 with
    | [] => room
    | c :: _ => c + 1
  (r.1.take (min (min room cap) r.1.length), (r.1.drop (min (min room cap) r.1.length), r.2.tail))

end Copia.DeltaSupport
