import Copia.Model.Delta
/-! Vocabulary of the loop translator for the delta scan (`sync.rs` / `async_sync.rs`): the two lookups of
`SignatureTable` — `has_weak_match(weak)`: is there a block with this weak hash; `find_match(weak, data)`: the
first such block, in block order, whose strong hash is the strong hash of `data`. -/
namespace Copia.DeltaSupport
open Copia.Delta

def hasWeak {D} (blocks : List (BlockSig D)) (weak : Nat) : Bool := !(blocks.filter (·.weak = weak)).isEmpty

def findStrong {D} [DecidableEq D] (H : List Nat → D) (blocks : List (BlockSig D)) (weak : Nat) (data : List Nat) :
    Option (BlockSig D) :=
  (blocks.filter (·.weak = weak)).find? (·.strong = H data)

/-- `data.chunks(bs)` / `data.par_chunks(bs)` (rayon's `collect` keeps the order): consecutive blocks of `bs` bytes, the
last one possibly shorter. Fuel = number of bytes. -/
def chunksFuel (bs : Nat) : Nat → List Nat → List (List Nat)
  | 0, _ => []
  | fuel+1, l => if l.isEmpty then [] else l.take bs :: chunksFuel bs fuel (l.drop bs)

def chunks (data : List Nat) (bs : Nat) : List (List Nat) := chunksFuel bs data.length data

/-- `.enumerate()` -/
def enumFrom {α : Type} : Nat → List α → List (Nat × α)
  | _, [] => []
  | i, x :: t => (i, x) :: enumFrom (i + 1) t

def enumerate {α : Type} (l : List α) : List (Nat × α) := enumFrom 0 l

/-- `u32::checked_add` -/
def checkedAdd32 (a b : Nat) : Option Nat := if a + b ≤ 4294967295 then some (a + b) else none

end Copia.DeltaSupport
