import Copia.Model.Delta
/-! Vocabulary of the loop translator for the delta scan (`sync.rs` / `async_sync.rs`): the two lookups of
`SignatureTable` — `has_weak_match(weak)`: is there a block with this weak hash; `find_match(weak, data)`: the
first such block, in block order, whose strong hash is the strong hash of `data`. -/
namespace Copia.DeltaSupport
open Copia.Delta

def hasWeak {D} (blocks : List (BlockSig D)) (weak : Nat) : Bool := !(blocks.filter (·.weak = weak)).isEmpty

def findStrong {D} [DecidableEq D] (H : List Nat → D) (blocks : List (BlockSig D)) (weak : Nat) (data : List Nat) :
    Option (BlockSig D) :=
  (blocks.filter (·.weak = weak)).find? (·.strong = H data)

/-- `u32::checked_add` -/
def checkedAdd32 (a b : Nat) : Option Nat := if a + b ≤ 4294967295 then some (a + b) else none

end Copia.DeltaSupport
