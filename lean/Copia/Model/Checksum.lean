import Copia.Gen.Constants
/-!
# Model of `src/checksum.rs` — `RollingChecksum` (u32 state) and `FastRollingChecksum` (u64 state)

Bytes are `Nat`s `< 256`; fixed-width integers are `Nat`s with an **explicit wrap** exactly where a
release build wraps (`% W32`, `% W64`). Where a debug build would panic instead (plain `+ - *`),
the companion `…OK` predicates say "no intermediate left its range"; C17 proves them on the
property's domain, so debug and release coincide there.

`MOD` and `NORMALIZE_INTERVAL` come from `Copia.Gen.Constants` (regenerated from the source).
-/
namespace Copia.Checksum
open Copia

def W32 : Nat := 4294967296
def W64 : Nat := 18446744073709551616

def add32 (x y : Nat) : Nat := (x + y) % W32
def add64 (x y : Nat) : Nat := (x + y) % W64
def sub32 (x y : Nat) : Nat := (x + W32 - y % W32) % W32
def sub64 (x y : Nat) : Nat := (x + W64 - y % W64) % W64
def mul64 (x y : Nat) : Nat := (x * y) % W64

/-- The `for (i, &byte) in data.iter().enumerate()` loop of both `new`s: `a += byte;
b += (len - i) as u64 * byte` in `u64`. The second argument is `len - i` (counted down, so the
loop is linear; for `sumLoop w w.length …` it is the length of the remaining slice). -/
def sumLoop : List Nat → Nat → Nat → Nat → Nat × Nat
  | [], _, a, b => (a, b)
  | x :: xs, k, a, b => sumLoop xs (k - 1) (add64 a x) (add64 b (mul64 k x))

/-! ## `RollingChecksum` -/

structure Rolling where
  a : Nat
  b : Nat
  count : Nat
  deriving DecidableEq, Repr

/-- `RollingChecksum::new`. -/
def Rolling.new (w : List Nat) : Rolling :=
  let ab := sumLoop w w.length 0 0
  { a := (ab.1 % Gen.rollingMod) % W32, b := (ab.2 % Gen.rollingMod) % W32, count := w.length }

/-- `RollingChecksum::roll`: `a = (a + MOD + new - old) % MOD` in `u32`;
`b = ((b + MOD*count + a - count*old) % MOD) as u32` in `u64`. -/
def Rolling.roll (s : Rolling) (old new : Nat) : Rolling :=
  let a := sub32 (add32 (add32 s.a Gen.rollingMod) new) old % Gen.rollingMod
  let b := sub64 (add64 (add64 s.b (mul64 Gen.rollingMod s.count)) a) (mul64 s.count old)
  { a := a, b := (b % Gen.rollingMod) % W32, count := s.count }

/-- No intermediate of `roll` leaves its width or goes below zero. -/
def Rolling.rollOK (s : Rolling) (old new : Nat) : Prop :=
  s.a + Gen.rollingMod + new < W32 ∧ old ≤ s.a + Gen.rollingMod + new ∧
  Gen.rollingMod * s.count < W64 ∧
  s.b + Gen.rollingMod * s.count + (s.a + Gen.rollingMod + new - old) % Gen.rollingMod < W64 ∧
  s.count * old < W64 ∧
  s.count * old ≤ s.b + Gen.rollingMod * s.count + (s.a + Gen.rollingMod + new - old) % Gen.rollingMod

/-- `RollingChecksum::push` (`wrapping_add` then `% MOD`). -/
def Rolling.push (s : Rolling) (x : Nat) : Rolling :=
  let a := add32 s.a x % Gen.rollingMod
  { a := a, b := add32 s.b a % Gen.rollingMod, count := s.count + 1 }

/-- `RollingChecksum::digest`: `(b << 16) | a` in `u32`. -/
def Rolling.digest (s : Rolling) : Nat := ((s.b <<< 16) % W32) ||| s.a

/-! ## `FastRollingChecksum` -/

structure Fast where
  a : Nat
  b : Nat
  count : Nat
  rolls : Nat
  deriving DecidableEq, Repr

/-- `FastRollingChecksum::new`. -/
def Fast.new (w : List Nat) : Fast :=
  let ab := sumLoop w w.length 0 0
  { a := ab.1 % Gen.fastMod, b := ab.2 % Gen.fastMod, count := w.length, rolls := 0 }

/-- the periodic normalisation shared by `roll` and `push` (`rolls` is a `u32`). -/
def Fast.norm (a b count rolls : Nat) : Fast :=
  let r := add32 rolls 1
  if Gen.normalizeInterval ≤ r then { a := a % Gen.fastMod, b := b % Gen.fastMod, count := count, rolls := 0 }
  else { a := a, b := b, count := count, rolls := r }

/-- `FastRollingChecksum::roll`. -/
def Fast.roll (s : Fast) (old new : Nat) : Fast :=
  let a := sub64 (add64 (add64 s.a Gen.fastMod) new) old
  let b := sub64 (add64 (add64 s.b (mul64 Gen.fastMod s.count)) a) (mul64 s.count old)
  Fast.norm a b s.count s.rolls

def Fast.rollOK (s : Fast) (old new : Nat) : Prop :=
  s.a + Gen.fastMod + new < W64 ∧ old ≤ s.a + Gen.fastMod + new ∧ Gen.fastMod * s.count < W64 ∧
  s.b + Gen.fastMod * s.count + (s.a + Gen.fastMod + new - old) < W64 ∧ s.count * old < W64 ∧
  s.count * old ≤ s.b + Gen.fastMod * s.count + (s.a + Gen.fastMod + new - old) ∧
  s.rolls + 1 < W32

/-- `FastRollingChecksum::push`. -/
def Fast.push (s : Fast) (x : Nat) : Fast :=
  let a := add64 s.a x
  Fast.norm a (add64 s.b a) (s.count + 1) s.rolls

def Fast.pushOK (s : Fast) (x : Nat) : Prop :=
  s.a + x < W64 ∧ s.b + (s.a + x) < W64 ∧ s.rolls + 1 < W32

/-- `FastRollingChecksum::digest`: `((b % MOD) as u32) << 16 | ((a % MOD) as u32)`. -/
def Fast.digest (s : Fast) : Nat :=
  ((((s.b % Gen.fastMod) % W32) <<< 16) % W32) ||| ((s.a % Gen.fastMod) % W32)

/-! ## Operation sequences (the quantifier of C17) -/

inductive Op
  | push (x : Nat)
  | roll (old new : Nat)
  deriving DecidableEq, Repr

def Rolling.step (s : Rolling) : Op → Rolling
  | .push x => s.push x
  | .roll o n => s.roll o n

def Fast.step (s : Fast) : Op → Fast
  | .push x => s.push x
  | .roll o n => s.roll o n

/-- The ghost window: what the bytes "currently in the window" are after an operation. -/
def stepW (w : List Nat) : Op → List Nat
  | .push x => w ++ [x]
  | .roll _ n => w.tail ++ [n]

end Copia.Checksum
