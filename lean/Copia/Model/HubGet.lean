import Copia.Model.HubConc
/-!
# `serve.rs::handle_get` running beside the writers of `HubConc`

One Get of path `p` as the sequence of calls the code makes on ONE open handle: `File::open`
(pins the inode the name points to at that instant), `metadata()` (the length), a first pass
`io::copy(&mut f, &mut hasher)` that reads chunk by chunk up to end-of-file, the `Content{len, hash}`
frame, a rewind, and a second pass `io::copy(&mut f.take(len), w)` that reads chunk by chunk until
`len` chunks are out or end-of-file. Between any two of these calls any writer process of `HubConc`
may take any number of steps (`GStep.fs`), kills included; the reader itself changes nothing in the
file system. Lengths are counted in chunks.
-/
namespace Copia.HubGet
open Copia.HubConc

inductive GPc
  | start
  | notFound                                            -- `File::open` failed: "not found" reply
  | opened (n : Ino)                                    -- handle on inode n
  | sized (n : Ino) (len : Nat)                         -- `metadata().len()`
  | hashing (n : Ino) (len : Nat) (acc : List Chunk)    -- first pass: chunks fed to the hasher so far
  | announced (n : Ino) (len : Nat) (h : Hash) (sent : List Chunk)  -- header out; second pass: chunks streamed so far
  | replied (n : Ino) (len : Nat) (h : Hash) (bytes : List Chunk)   -- the complete reply

structure GState where
  fs : State
  g : GPc

inductive GStep (S : Sys) (p : Path) : GState → GState → Prop
  | fs (s s' g) (h : Step S s s') : GStep S p ⟨s, g⟩ ⟨s', g⟩
  | openOk (s n) (h : s.dir p = some n) : GStep S p ⟨s, .start⟩ ⟨s, .opened n⟩
  | openFail (s) (h : s.dir p = none) : GStep S p ⟨s, .start⟩ ⟨s, .notFound⟩
  | stat (s n) : GStep S p ⟨s, .opened n⟩ ⟨s, .sized n (s.ino n).length⟩
  | hashStart (s n len) : GStep S p ⟨s, .sized n len⟩ ⟨s, .hashing n len []⟩
  | hashRead (s n len acc c) (h : (s.ino n)[acc.length]? = some c) :
      GStep S p ⟨s, .hashing n len acc⟩ ⟨s, .hashing n len (acc ++ [c])⟩
  | hashEof (s n len acc) (h : (s.ino n)[acc.length]? = none) :
      GStep S p ⟨s, .hashing n len acc⟩ ⟨s, .announced n len (S.H acc) []⟩
  | sendRead (s n len hh sent c) (hl : sent.length < len) (h : (s.ino n)[sent.length]? = some c) :
      GStep S p ⟨s, .announced n len hh sent⟩ ⟨s, .announced n len hh (sent ++ [c])⟩
  | sendDone (s n len hh sent) (h : sent.length = len ∨ (s.ino n)[sent.length]? = none) :
      GStep S p ⟨s, .announced n len hh sent⟩ ⟨s, .replied n len hh sent⟩

/-- any interleaving of the reader's calls with the writers' steps -/
inductive GReach (S : Sys) (p : Path) : GState → GState → Prop
  | refl (s) : GReach S p s s
  | step {s t u} : GReach S p s t → GStep S p t u → GReach S p s u

end Copia.HubGet
