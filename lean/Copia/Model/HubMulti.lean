import Copia.Model.HubSync
/-!
# Several `hub-sync` clients against one hub, any interleaving of their requests

Each client lists the hub once (a snapshot of path ↦ hash at that moment) and then walks its local
files in order, one request per step: skip when the LISTED hash equals the file's, else a CAS-Put
carrying the listed hash. A schedule is any list of client indices; the hub executes one request at a
time (that requests are atomic on the real hub is C03). Listings are never refreshed, so every
listing but the latest may be stale — the situation the property quantifies over.
-/
namespace Copia.HubMulti
open Copia.Hub Copia.HubSync

variable {H : Type} [DecidableEq H]

abbrev Key := List (List Char)

structure Client (H : Type) where
  files : List (Key × Bytes)                 -- local files still to be handled, in path order
  listing : Option (Key → Option H)          -- `none`: has not sent List yet
  counters : Counters := {}

structure Sys (H : Type) where
  hub : HTree
  clients : Nat → Client H

def updC {α} (f : Nat → α) (k : Nat) (v : α) : Nat → α := fun x => if x = k then v else f x

/-- one request of client `i` -/
def step (hash : Bytes → H) (cname : HTree → Key → H → Key) (s : Sys H) (i : Nat) : Sys H :=
  match (s.clients i).listing with
  | none => { s with clients := updC s.clients i { (s.clients i) with listing := some (fun k => (hget s.hub k).map hash) } }
  | some l =>
    match (s.clients i).files with
    | [] => s
    | f :: rest =>
      let r := syncFile hash cname l (s.hub, (s.clients i).counters) f
      { hub := r.1, clients := updC s.clients i { files := rest, listing := some l, counters := r.2 } }

def run (hash : Bytes → H) (cname : HTree → Key → H → Key) (s : Sys H) (sched : List Nat) : Sys H :=
  sched.foldl (step hash cname) s

/-- the hub's choice of a conflict-copy name never lands on other content: the name is free, or already
holds content of the same hash (what the repaired `handle_put` guarantees under the commit lock) -/
def CFree (hash : Bytes → H) (cname : HTree → Key → H → Key) : Prop :=
  ∀ t k h, hget t (cname t k h) = none ∨ (hget t (cname t k h)).map hash = some h

end Copia.HubMulti
