import Copia.Model.Bisync
/-!
# Micro-step model of a `bisync` run for crash safety (C08)

A run = the list of file-system-mutating calls it makes, in order (`steps`), derived from the plan
exactly as `apply` / `copy_atomic` / `Archive::save` issue them:

* `copy_atomic(src → dst)`: `stage side dst c` (open-truncate `dst.copia-tmp`, `copy_file_range`),
  `sync side dst` (`fsync` of the staged file), `publish side dst` (`rename tmp → dst`);
* delete: `unlink side p`;
* `Archive::save`: `archStage` (create + write `.json.tmp`), `archSync` (`fsync`), `archBak`
  (`rename json → json.bak`, only when an archive exists), `archPublish` (`rename tmp → json`).

Killing the process "at any instant" = executing a prefix of this list (a kill inside one `write`
is represented by the staged file holding a partial content, which `stage` already treats as an
opaque staging state). `exec` runs steps over a state that tracks, per side, the live tree, the
staging area and which staged files are durable.
-/
namespace Copia.Crash
open Copia.Reconcile Copia.Bisync

variable {P C : Type} [DecidableEq P] [DecidableEq C]

inductive Side | A | B
  deriving DecidableEq, Repr

inductive FsStep (P C : Type)
  | stage (s : Side) (p : P) (c : C)       -- create/truncate p.copia-tmp and fill it with c
  | sync (s : Side) (p : P)                -- fsync p.copia-tmp
  | publish (s : Side) (p : P)             -- rename p.copia-tmp → p
  | unlink (s : Side) (p : P)
  | archStage
  | archSync
  | archBak
  | archPublish
  deriving Repr

inductive ArchState | old | bak | new       -- `bak`: old copy moved aside, new not yet in place (= absent)
  deriving DecidableEq, Repr

structure CState (P C : Type) where
  A : Tree P C
  B : Tree P C
  stA : List (P × C × Bool)               -- staging area of side A: path ↦ (content, durable?)
  stB : List (P × C × Bool)
  arch : ArchState
  archTmp : Bool                           -- a complete, fsync'ed `.json.tmp` exists
  unsyncedPublished : Bool                 -- some staged file was renamed into place without having been fsync'ed

def stageGet (st : List (P × C × Bool)) (p : P) : Option (C × Bool) :=
  match st with
  | [] => none
  | (q, v) :: r => if q = p then some v else stageGet r p

def stagePut (st : List (P × C × Bool)) (p : P) (v : C × Bool) : List (P × C × Bool) :=
  (p, v) :: st.filter (fun e => e.1 ≠ p)

def exec (s : CState P C) : FsStep P C → CState P C
  | .stage .A p c => { s with stA := stagePut s.stA p (c, false) }
  | .stage .B p c => { s with stB := stagePut s.stB p (c, false) }
  | .sync .A p => match stageGet s.stA p with
      | some (c, _) => { s with stA := stagePut s.stA p (c, true) }
      | none => s
  | .sync .B p => match stageGet s.stB p with
      | some (c, _) => { s with stB := stagePut s.stB p (c, true) }
      | none => s
  | .publish .A p => match stageGet s.stA p with
      | some (c, d) => { s with A := ins s.A p c, stA := s.stA.filter (fun e => e.1 ≠ p),
                                unsyncedPublished := s.unsyncedPublished || !d }
      | none => s
  | .publish .B p => match stageGet s.stB p with
      | some (c, d) => { s with B := ins s.B p c, stB := s.stB.filter (fun e => e.1 ≠ p),
                                unsyncedPublished := s.unsyncedPublished || !d }
      | none => s
  | .unlink .A p => { s with A := del s.A p }
  | .unlink .B p => { s with B := del s.B p }
  | .archStage => s
  | .archSync => { s with archTmp := true }
  | .archBak => { s with arch := .bak }
  | .archPublish => if s.archTmp then { s with arch := .new, archTmp := false } else s

/-- `copy_atomic`: content `c` is what the live source holds when the action runs -/
def copySteps (s : Side) (p : P) (c : C) : List (FsStep P C) := [.stage s p c, .sync s p, .publish s p]

/-- steps of one plan entry, given the content each copy will move (resolved against the scanned
maps — equal to the live trees under NoNameClash) -/
def actionSteps (ge : C → C → Bool) (cname : P → C → P) (a b : List (P × Fp C)) (p : P) :
    Action → List (FsStep P C)
  | .noop | .convergeIdentical => []
  | .propagateAtoB => match lookup a p with | some f => copySteps .B p f.digest | none => []
  | .propagateBtoA => match lookup b p with | some f => copySteps .A p f.digest | none => []
  | .deleteA => [.unlink .A p]
  | .deleteB => [.unlink .B p]
  | .conflict .deleteVsModify =>
    match lookup a p, lookup b p with
    | some f, _ => copySteps .B p f.digest
    | none, some f => copySteps .A p f.digest
    | none, none => []
  | .conflict .bothChanged =>
    match lookup a p, lookup b p with
    | some fa, some fb =>
      if ge fa.digest fb.digest then
        copySteps .B (cname p fb.digest) fb.digest ++ copySteps .A (cname p fb.digest) fb.digest ++ copySteps .B p fa.digest
      else
        copySteps .A (cname p fa.digest) fa.digest ++ copySteps .B (cname p fa.digest) fa.digest ++ copySteps .A p fb.digest
    | _, _ => []

def archSteps (hadArchive : Bool) : List (FsStep P C) :=
  [.archStage, .archSync] ++ (if hadArchive then [.archBak] else []) ++ [.archPublish]

/-- all mutating calls of one run, in order -/
def steps (le : P → P → Bool) (ge : C → C → Bool) (cname : P → C → P) (s : State P C) (archiveFileExists : Bool) :
    List (FsStep P C) :=
  let a := scan s.A
  let b := scan s.B
  let plan := reconcile le a b (s.arch.getD []) s.arch.isSome
  (plan.flatMap fun pa => actionSteps ge cname a b pa.1 pa.2) ++ archSteps archiveFileExists

def initC (s : State P C) : CState P C :=
  { A := s.A, B := s.B, stA := [], stB := [], arch := .old, archTmp := false, unsyncedPublished := false }

end Copia.Crash
