import Copia.Model.Hub
/-!
# Support for the translation of `wire.rs::read_frame`

What one call of `read_frame` on an in-memory input ends in. `alloc` is the size of the buffer reserved for the frame body
(`vec![0u8; len as usize]`).
-/
namespace Copia.WireSupport
open Copia.Hub

inductive FrameRes (R : Type)
  | eof                                                -- `Ok(None)`: the input ended before a whole length prefix
  | tooLarge                                           -- `Err(InvalidData)`: length prefix above MAX_FRAME — nothing reserved
  | short (alloc : Nat)                                -- `read_exact(&mut buf)?` hit the end of the input
  | badBody (alloc : Nat)                              -- the body is not a request
  | frame (req : R) (alloc : Nat) (rest : Bytes)       -- `Ok(Some(req))`, and what is left of the input

/-- `u32::to_be_bytes` -/
def be32enc (n : Nat) : List Nat := [n / 16777216 % 256, n / 65536 % 256, n / 256 % 256, n % 256]

end Copia.WireSupport
