import Copia.Model.Plan
/-! Vocabulary of the loop translator (`tools/rs2lean_do.py`): what a `BTreeMap`'s `keys()` and a
`Path`'s `components()` are in the generated definitions. -/
namespace Copia.LoopSupport
open Copia.Plan (splitSlash)

/-- `BTreeMap::keys()` of an association list kept in key order -/
def keys {K V : Type} (m : List (K × V)) : List K := m.map (·.1)

/-- `std::path::Component`, as far as a normalised relative path has them -/
inductive Comp
  | normal (c : List Char)
  | other

/-- `Path::components()` of a normalised relative path: its `/`-separated names -/
def components (rel : List Char) : List Comp := (splitSlash rel).map Comp.normal

end Copia.LoopSupport
