import Copia.Model.Plan
/-!
# Model of `meta.rs::parse_remote_meta_output`

Input: the listing as characters (the Rust code splits the *bytes* on NUL and decodes each entry with
`from_utf8_lossy`; for valid UTF-8 — the property's domain — splitting characters on `'\0'` is the
same, because no multi-byte sequence contains a zero byte). Numbers follow Rust's `FromStr` for
`u64` / `i64`: optional `+` (and `-` for `i64`), at least one digit, range-checked.
-/
namespace Copia.Meta
open Copia.Plan

/-- split on a separator character (`slice::split` / `str::split`: n separators → n+1 pieces). -/
def splitOnChar (sep : Char) : List Char → List (List Char)
  | [] => [[]]
  | c :: cs =>
    match splitOnChar sep cs with
    | [] => [[]]
    | h :: t => if c = sep then [] :: h :: t else (c :: h) :: t

/-- the piece before the first `sep` and the rest after it, if `sep` occurs. -/
def cut (sep : Char) : List Char → Option (List Char × List Char)
  | [] => none
  | c :: cs =>
    if c = sep then some ([], cs)
    else match cut sep cs with
      | some (a, b) => some (c :: a, b)
      | none => none

def digitVal (c : Char) : Option Nat :=
  if '0' ≤ c ∧ c ≤ '9' then some (c.toNat - '0'.toNat) else none

/-- fold of decimal digits with a bound check after every step (`checked_mul`/`checked_add`):
`none` on a non-digit or when the value exceeds `max`. -/
def parseDigits (max : Nat) : List Char → Nat → Option Nat
  | [], acc => some acc
  | c :: cs, acc =>
    match digitVal c with
    | none => none
    | some d => let v := acc * 10 + d; if v ≤ max then parseDigits max cs v else none

/-- `str::parse::<u64>()`. -/
def parseU64 (s : List Char) : Option Nat :=
  let body := match s with | '+' :: r => r | r => r
  if body.isEmpty then none else parseDigits 18446744073709551615 body 0

/-- `str::parse::<i64>()`. -/
def parseI64 (s : List Char) : Option Int :=
  match s with
  | '-' :: r => if r.isEmpty then none else (parseDigits 9223372036854775808 r 0).map fun n => -(n : Int)
  | '+' :: r => if r.isEmpty then none else (parseDigits 9223372036854775807 r 0).map fun n => (n : Int)
  | r => if r.isEmpty then none else (parseDigits 9223372036854775807 r 0).map fun n => (n : Int)

/-- `path.strip_prefix("./").unwrap_or(path)`. -/
def stripDotSlash : List Char → List Char
  | '.' :: '/' :: r => r
  | r => r

/-- association-list insert with replacement (`BTreeMap::insert`; order is canonicalised by the
driver when printing). -/
def insertAL {K V} [DecidableEq K] (m : List (K × V)) (k : K) (v : V) : List (K × V) :=
  match m with
  | [] => [(k, v)]
  | (k', v') :: t => if k' = k then (k, v) :: t else (k', v') :: insertAL t k v

/-- one entry of the listing → `some (rel, meta)` or `none` (skipped). -/
def parseEntry (entry : List Char) : Option (List Char × FileMeta) :=
  if entry.isEmpty then none else
  match cut '\t' entry with
  | none => none
  | some (size, rest) =>
    match cut '\t' rest with
    | none => none
    | some (mtime, path) =>
      match parseU64 size with
      | none => none
      | some sz =>
        let secs := match splitOnChar '.' mtime with
          | h :: _ => (parseI64 h).getD 0
          | [] => 0
        let rel := stripDotSlash path
        if rel.isEmpty then none else some (rel, { size := sz, mtime := secs })

/-- `parse_remote_meta_output`. -/
def parseRemoteMeta (out : List Char) : List (List Char × FileMeta) :=
  (splitOnChar '\x00' out).foldl (fun m e =>
    match parseEntry e with
    | some (k, v) => insertAL m k v
    | none => m) []

end Copia.Meta
