/-!
# Model of `src/bin/copia/reconcile.rs`

`reconcilePath` mirrors `reconcile_path` (lines 68-110) arm by arm; `reconcile` mirrors
`reconcile` (lines 116-133): collect keys of `a` then `b`, sort, dedup adjacent, loop and
drop `Noop`. Maps (`BTreeMap<PathBuf, Fingerprint>`) are association lists read through `lookup`.
The digest type `D` is abstract (only `DecidableEq` is used — which is the point of C18's
data-independence); `FType` is the two-valued entry type.
-/
namespace Copia.Reconcile

inductive FType | file | symlink
  deriving DecidableEq, Repr

structure Fp (D : Type) where
  digest : D
  ftype : FType
  deriving DecidableEq, Repr

/-- `Fingerprint::same`. -/
def Fp.same {D} [DecidableEq D] (a b : Fp D) : Bool := a.digest = b.digest && a.ftype = b.ftype

inductive ConflictKind | bothChanged | deleteVsModify
  deriving DecidableEq, Repr

inductive Action
  | noop | propagateAtoB | propagateBtoA | convergeIdentical | deleteA | deleteB
  | conflict (k : ConflictKind)
  deriving DecidableEq, Repr

/-- `reconcile_path(a, b, base)`. -/
def reconcilePath {D} [DecidableEq D] (a b base : Option (Fp D)) : Action :=
  match a, b with
  | none, none => .noop
  | some av, some bv =>
    if Fp.same av bv then
      -- `base.is_some_and(|z| same(&av,&z))`
      if (match base with | some z => Fp.same av z | none => false) then .noop else .convergeIdentical
    else
      -- `base.map_or(true, |z| !same(..))`
      let aChanged := match base with | some z => !Fp.same av z | none => true
      let bChanged := match base with | some z => !Fp.same bv z | none => true
      match aChanged, bChanged with
      | true, false => .propagateAtoB
      | false, true => .propagateBtoA
      | _, _ => .conflict .bothChanged
  | some av, none =>
    match base with
    | none => .propagateAtoB
    | some z => if Fp.same av z then .deleteA else .conflict .deleteVsModify
  | none, some bv =>
    match base with
    | none => .propagateBtoA
    | some z => if Fp.same bv z then .deleteB else .conflict .deleteVsModify

/-- Association-list lookup (first hit); maps built by the driver have unique keys. -/
def lookup {K V} [DecidableEq K] (m : List (K × V)) (k : K) : Option V :=
  match m with
  | [] => none
  | (k', v) :: t => if k' = k then some v else lookup t k

/-- `Vec::dedup`: drop an element equal to its predecessor. -/
def dedupAdj {K} [DecidableEq K] : List K → List K
  | [] => []
  | [x] => [x]
  | x :: y :: t => if x = y then dedupAdj (y :: t) else x :: dedupAdj (y :: t)

/-- The sorted, de-duplicated union of key sets: `a.keys().chain(b.keys())`, `sort_unstable`, `dedup`. -/
def unionKeys {K V} [DecidableEq K] (le : K → K → Bool) (a b : List (K × V)) : List K :=
  dedupAdj ((a.map (·.1) ++ b.map (·.1)).mergeSort le)

/-- `reconcile(a, b, base, trust_base)`. -/
def reconcile {K D} [DecidableEq K] [DecidableEq D] (le : K → K → Bool)
    (a b base : List (K × Fp D)) (trust : Bool) : List (K × Action) :=
  (unionKeys le a b).filterMap fun p =>
    let z := if trust then lookup base p else none
    let act := reconcilePath (lookup a p) (lookup b p) z
    if act ≠ .noop then some (p, act) else none

end Copia.Reconcile
