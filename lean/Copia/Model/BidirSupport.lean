import Copia.Model.Bisync
/-! Vocabulary of the loop translator for `bidir.rs::apply`: the file system under the two replica roots
as a pair of trees, a location as (root, relative path), and the three file-system calls the function
makes — `copy_atomic` (fails when the source does not exist), `symlink_metadata` (is there anything at
the location), `remove_file` (its result is dropped by the caller). -/
namespace Copia.BidirSupport
open Copia.Bisync

inductive Side | a | b
  deriving DecidableEq

abbrev FS (P C : Type) := Tree P C × Tree P C

variable {P C : Type} [DecidableEq P] [DecidableEq C]

def fsGet (fs : FS P C) (loc : Side × P) : Option C :=
  match loc.1 with
  | .a => get fs.1 loc.2
  | .b => get fs.2 loc.2

def fsPut (fs : FS P C) (loc : Side × P) (c : C) : FS P C :=
  match loc.1 with
  | .a => (ins fs.1 loc.2 c, fs.2)
  | .b => (fs.1, ins fs.2 loc.2 c)

/-- `copy_atomic(src, dst)`: `none` = the source does not exist (an I/O error) -/
def fsCopy (fs : FS P C) (src dst : Side × P) : Option (FS P C) := (fsGet fs src).map (fsPut fs dst)

/-- `remove_file(loc)` with its result dropped -/
def fsDel (fs : FS P C) (loc : Side × P) : FS P C :=
  match loc.1 with
  | .a => (del fs.1 loc.2, fs.2)
  | .b => (fs.1, del fs.2 loc.2)

end Copia.BidirSupport
