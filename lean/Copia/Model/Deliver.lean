/-!
# Micro-step model of one-way atomic delivery (C09): `deliver_local`, `deliver_pull`, push's remote command

One file: `open` the staging sibling (truncate), `chunk`* (the data arrives in pieces: `copy_file_range`
rounds, pipe reads of 256 KiB, …), then `publish` (rename over the destination) and `stamp` (set mtime).
For push the staging and publishing happen in the *remote* command
`cat > tmp && [ "$(wc -c < tmp)" -eq SIZE ] && mv -f tmp dst && touch …`, whose input may end early
when the sender dies: `remotePush` publishes only if everything announced has arrived.
-/
namespace Copia.Deliver

abbrev Bytes := List Nat

structure DState where
  dest : Option Bytes          -- the live destination path
  tmp : Option Bytes           -- the staging sibling (`<dst>.copia-tmp`)
  stamped : Bool
  deriving DecidableEq, Repr

inductive DStep
  | openTmp
  | chunk (b : Bytes)
  | publish
  | stamp
  deriving Repr

def exec (s : DState) : DStep → DState
  | .openTmp => { s with tmp := some [] }
  | .chunk b => { s with tmp := s.tmp.map (· ++ b) }
  | .publish => match s.tmp with
      | some t => { s with dest := some t, tmp := none }
      | none => s
  | .stamp => { s with stamped := true }

/-- the calls of one local / pull delivery of a file arriving as `chunks` -/
def deliverSteps (chunks : List Bytes) : List DStep :=
  .openTmp :: chunks.map .chunk ++ [.publish, .stamp]

/-- push: the remote shell command run on whatever part of the stream arrived (`received`), with the
size the sender announced. `cat` always exits 0 at end of input; the size test guards the rename. -/
def remotePush (s : DState) (received : List Bytes) (announced : Nat) : DState :=
  let staged := received.flatten
  let s1 : DState := { s with tmp := some staged }                 -- cat > tmp
  if staged.length = announced then { s1 with dest := some staged, tmp := none, stamped := true }   -- mv && touch
  else s1

/-! ## Name lists for the remote `xargs -0` (push `--delete`, remote `mkdir`) -/

/-- the NUL-delimited list the sender writes: every name followed by a NUL byte -/
def nulJoin : List Bytes → Bytes
  | [] => []
  | n :: t => n ++ 0 :: nulJoin t

/-- what GNU `xargs -0` makes of its input: items end at a NUL — or at END OF INPUT (an unterminated tail is an item too) -/
def xargsItems : Bytes → Bytes → List Bytes
  | [], cur => if cur.isEmpty then [] else [cur]
  | b :: rest, cur => if b = 0 then cur :: xargsItems rest [] else xargsItems rest (cur ++ [b])

/-- the repaired remote command `t=$(mktemp) && cat > "$t" && [ "$(wc -c < "$t")" -eq LEN ] && xargs -0 TOOL < "$t"`:
the names the tool is run on, for whatever part of the stream arrived -/
def guardedXargs (received : Bytes) (announced : Nat) : List Bytes :=
  if received.length = announced then xargsItems received [] else []

/-- the unguarded command `xargs -0 TOOL` of the code before the D18 repair -/
def plainXargs (received : Bytes) : List Bytes := xargsItems received []

end Copia.Deliver
