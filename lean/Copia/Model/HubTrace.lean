import Copia.Model.HubConc
/-!
# The calls one hub request makes when it runs alone (`soloPut`, `soloDelete`)

`HubConc.Step` is a relation; the correspondence check needs something it can RUN: the sequence of
file-system calls a `copia serve` process makes for one Put or Delete when no other process moves in
between. `soloPut` / `soloDelete` perform exactly the updates of the `Step` constructors, in program
order, and emit one label per call; `Lemmas/HubTrace` proves that the state they reach is reachable
through `Step` (so the labels are the transition system's own steps, not a second model). The real
server's gated call trace of a solo request is compared with these labels on every run of
`./check C03` / `./check C10`.
-/
namespace Copia.HubConc

inductive Call
  | create     -- open(O_CREAT|O_TRUNC) of the process's own staging file
  | write      -- one write to it
  | discard    -- unlink of the staging file (hash / length mismatch)
  | lock       -- open + flock(LOCK_EX) of the commit lock
  | read       -- stat/open/read of the live destination under the lock
  | commit     -- rename staging → destination
  | conflict   -- rename staging → conflict-copy name
  | remove     -- unlink of the destination (Delete)
  | unlock
  deriving DecidableEq, Repr

def Call.name : Call → String
  | .create => "create" | .write => "write" | .discard => "discard" | .lock => "lock" | .read => "read"
  | .commit => "commit" | .conflict => "conflict" | .remove => "remove" | .unlock => "unlock"

/-- the `write` steps of the remaining chunks -/
def writes (s : State) (i : Pid) (fd : Ino) : Nat → List Chunk → State
  | _, [] => s
  | k, c :: cs =>
    writes { s with ino := upd s.ino fd (s.ino fd ++ [c]), pc := upd s.pc i (.writing fd (k+1)) } i fd (k+1) cs

/-- staging file created (fresh inode or truncated existing one) -/
def created (S : Sys) (s : State) (i : Pid) : State × Ino :=
  match s.dir (S.tmpOf i (S.req i).dst) with
  | none => ({ s with dir := upd s.dir (S.tmpOf i (S.req i).dst) (some s.next), ino := upd s.ino s.next [],
                      next := s.next + 1, pc := upd s.pc i (.writing s.next 0) }, s.next)
  | some n => ({ s with ino := upd s.ino n [], pc := upd s.pc i (.writing n 0) }, n)

def curHash (S : Sys) (s : State) (p : Path) : Option Hash := (s.dir p).map (fun n => S.H (s.ino n))

/-- a whole Put by process `i`, nobody else moving -/
def soloPut (S : Sys) (s : State) (i : Pid) : State × List Call :=
  let r := S.req i
  let tmp := S.tmpOf i r.dst
  let fd := (created S s i).2
  let s2 := writes (created S s i).1 i fd 0 r.chunks
  let pre : List Call := .create :: r.chunks.map (fun _ => Call.write)
  if S.H r.chunks = r.declared then
    let s3 : State := { s2 with pc := upd s2.pc i (.verified fd) }
    let s4 : State := { s3 with lock := some i, pc := upd s3.pc i (.locked fd) }
    let cur := curHash S s4 r.dst
    let s5 : State := { s4 with pc := upd s4.pc i (.decided fd cur) }
    if cur = r.expected then
      let s6 : State := { s5 with dir := upd (upd s5.dir r.dst (s5.dir tmp)) tmp none, pc := upd s5.pc i .renamed }
      ({ s6 with lock := none, pc := upd s6.pc i .done }, pre ++ [.lock, .read, .commit, .unlock])
    else
      let s6 : State := { s5 with dir := upd (upd s5.dir (S.cname (view S s5) r.dst r.declared) (s5.dir tmp)) tmp none,
                                  pc := upd s5.pc i .renamed }
      ({ s6 with lock := none, pc := upd s6.pc i .done }, pre ++ [.lock, .read, .conflict, .unlock])
  else
    ({ s2 with dir := upd s2.dir tmp none, pc := upd s2.pc i .done }, pre ++ [.discard])

/-- a whole Delete by process `i`, nobody else moving -/
def soloDelete (S : Sys) (s : State) (i : Pid) : State × List Call :=
  let r := S.req i
  let s1 : State := { s with lock := some i, pc := upd s.pc i .dlocked }
  let cur := curHash S s1 r.dst
  let s2 : State := { s1 with pc := upd s1.pc i (.ddecided cur) }
  if cur = r.expected then
    let s3 : State := { s2 with dir := upd s2.dir r.dst none, pc := upd s2.pc i .renamed }
    ({ s3 with lock := none, pc := upd s3.pc i .done }, [.lock, .read, .remove, .unlock])
  else
    let s3 : State := { s2 with pc := upd s2.pc i .renamed }
    ({ s3 with lock := none, pc := upd s3.pc i .done }, [.lock, .read, .unlock])

end Copia.HubConc
