import Copia.Gen.Constants
/-!
# Model of the codecs: `protocol.rs` (`FrameHeader`, `Message`, `Codec`) and the bincode 1.3 (legacy
# `serialize`/`deserialize`) wire format of `Signature` / `Delta` / `Message`

bincode legacy configuration: little-endian fixed-width integers, `usize` as `u64`, `bool` one byte
(0/1), `Option` tag one byte (0/1), enum variant index `u32`, `String`/`Vec<T>` = `u64` length +
elements, `[u8; 32]` = 32 raw bytes, trailing bytes allowed, slice reader (a declared length larger
than the remaining input is an error *before* any allocation). Strings must be valid UTF-8: the
validity test is the parameter `utf8` (instantiated in the driver with `String.validateUTF8`).
Bytes are `Nat`s `< 256`.
-/
namespace Copia.Codec
open Copia

abbrev Bytes := List Nat

/-! ## little-endian integers -/

def le (k : Nat) (n : Nat) : Bytes :=
  match k with
  | 0 => []
  | k+1 => n % 256 :: le k (n / 256)

def ofLe : Bytes → Nat
  | [] => 0
  | b :: t => b + 256 * ofLe t

/-- a parser: consumes a prefix, returns the value and the rest -/
abbrev P (α : Type) := Bytes → Option (α × Bytes)

def rdN (k : Nat) : P Bytes := fun inp =>
  if inp.length < k then none else some (inp.take k, inp.drop k)

def rdInt (k : Nat) : P Nat := fun inp => (rdN k inp).map fun (b, r) => (ofLe b, r)

def rdBool : P Bool := fun inp =>
  match inp with
  | 0 :: r => some (false, r)
  | 1 :: r => some (true, r)
  | _ => none

/-- `Vec<T>` body: `n` elements (structural on `n`; each element consumes input, so a hostile
count fails as soon as the input is exhausted — no allocation proportional to `n`). -/
def rdMany {α} (p : P α) : Nat → P (List α)
  | 0 => fun inp => some ([], inp)
  | n+1 => fun inp =>
    match p inp with
    | none => none
    | some (x, r) =>
      match rdMany p n r with
      | none => none
      | some (xs, r') => some (x :: xs, r')

/-- `Vec<u8>` / `String` body: length prefix then that many raw bytes (checked against the remaining
input first). -/
def rdBytes : P Bytes := fun inp =>
  match rdInt 8 inp with
  | none => none
  | some (n, r) => rdN n r

def wrBytes (b : Bytes) : Bytes := le 8 b.length ++ b

/-! ## Signature / Delta -/

structure BlockSigW where
  index : Nat
  weak : Nat
  strong : Bytes
  deriving DecidableEq, Repr

structure SignatureW where
  blockSize : Nat
  fileSize : Nat
  blocks : List BlockSigW
  deriving DecidableEq, Repr

inductive OpW
  | copy (off len : Nat)
  | literal (data : Bytes)
  deriving DecidableEq, Repr

structure DeltaW where
  blockSize : Nat
  sourceSize : Nat
  basisSize : Nat
  ops : List OpW
  checksum : Bytes
  deriving DecidableEq, Repr

def encBlock (b : BlockSigW) : Bytes := le 4 b.index ++ le 4 b.weak ++ b.strong

def encSig (s : SignatureW) : Bytes :=
  le 8 s.blockSize ++ le 8 s.fileSize ++ le 8 s.blocks.length ++ (s.blocks.map encBlock).flatten

def encOp : OpW → Bytes
  | .copy off len => le 4 0 ++ le 8 off ++ le 4 len
  | .literal d => le 4 1 ++ wrBytes d

def encDelta (d : DeltaW) : Bytes :=
  le 4 d.blockSize ++ le 8 d.sourceSize ++ le 8 d.basisSize ++ le 8 d.ops.length ++
    (d.ops.map encOp).flatten ++ d.checksum

def rdBlock : P BlockSigW := fun inp =>
  match rdInt 4 inp with
  | none => none
  | some (i, r1) =>
    match rdInt 4 r1 with
    | none => none
    | some (w, r2) =>
      match rdN 32 r2 with
      | none => none
      | some (s, r3) => some ({ index := i, weak := w, strong := s }, r3)

def rdSig : P SignatureW := fun inp =>
  match rdInt 8 inp with
  | none => none
  | some (bs, r1) =>
    match rdInt 8 r1 with
    | none => none
    | some (fs, r2) =>
      match rdInt 8 r2 with
      | none => none
      | some (n, r3) =>
        match rdMany rdBlock n r3 with
        | none => none
        | some (bl, r4) => some ({ blockSize := bs, fileSize := fs, blocks := bl }, r4)

def rdOp : P OpW := fun inp =>
  match rdInt 4 inp with
  | none => none
  | some (tag, r1) =>
    if tag = 0 then
      match rdInt 8 r1 with
      | none => none
      | some (off, r2) =>
        match rdInt 4 r2 with
        | none => none
        | some (len, r3) => some (.copy off len, r3)
    else if tag = 1 then
      match rdBytes r1 with
      | none => none
      | some (d, r2) => some (.literal d, r2)
    else none

def rdDelta : P DeltaW := fun inp =>
  match rdInt 4 inp with
  | none => none
  | some (bs, r1) =>
    match rdInt 8 r1 with
    | none => none
    | some (ss, r2) =>
      match rdInt 8 r2 with
      | none => none
      | some (zs, r3) =>
        match rdInt 8 r3 with
        | none => none
        | some (n, r4) =>
          match rdMany rdOp n r4 with
          | none => none
          | some (ops, r5) =>
            match rdN 32 r5 with
            | none => none
            | some (cs, r6) =>
              some ({ blockSize := bs, sourceSize := ss, basisSize := zs, ops := ops, checksum := cs }, r6)

/-! ## Message -/

inductive Message
  | sigReq (fileId blockSize : Nat)
  | sigResp (fileId : Nat) (sig : SignatureW)
  | deltaData (fileId : Nat) (delta : DeltaW)
  | ack (fileId : Nat) (success : Bool) (msg : Option Bytes)
  | error (code : Nat) (msg : Bytes)
  | ping (seq : Nat)
  | pong (seq : Nat)
  deriving DecidableEq, Repr

def encMsg : Message → Bytes
  | .sigReq f bs => le 4 0 ++ le 8 f ++ le 4 bs
  | .sigResp f s => le 4 1 ++ le 8 f ++ encSig s
  | .deltaData f d => le 4 2 ++ le 8 f ++ encDelta d
  | .ack f ok m => le 4 3 ++ le 8 f ++ [if ok then 1 else 0] ++
      (match m with | none => [0] | some s => 1 :: wrBytes s)
  | .error c m => le 4 4 ++ le 4 c ++ wrBytes m
  | .ping s => le 4 5 ++ le 8 s
  | .pong s => le 4 6 ++ le 8 s

def rdStr (utf8 : Bytes → Bool) : P Bytes := fun inp =>
  match rdBytes inp with
  | none => none
  | some (s, r) => if utf8 s then some (s, r) else none

def rdMsg (utf8 : Bytes → Bool) : P Message := fun inp =>
  match rdInt 4 inp with
  | none => none
  | some (tag, r0) =>
    match tag with
    | 0 =>
      match rdInt 8 r0 with
      | none => none
      | some (f, r1) => (rdInt 4 r1).map fun (bs, r2) => (.sigReq f bs, r2)
    | 1 =>
      match rdInt 8 r0 with
      | none => none
      | some (f, r1) => (rdSig r1).map fun (s, r2) => (.sigResp f s, r2)
    | 2 =>
      match rdInt 8 r0 with
      | none => none
      | some (f, r1) => (rdDelta r1).map fun (d, r2) => (.deltaData f d, r2)
    | 3 =>
      match rdInt 8 r0 with
      | none => none
      | some (f, r1) =>
        match rdBool r1 with
        | none => none
        | some (ok, r2) =>
          match r2 with
          | 0 :: r3 => some (.ack f ok none, r3)
          | 1 :: r3 => (rdStr utf8 r3).map fun (s, r4) => (.ack f ok (some s), r4)
          | _ => none
    | 4 =>
      match rdInt 4 r0 with
      | none => none
      | some (c, r1) => (rdStr utf8 r1).map fun (s, r2) => (.error c s, r2)
    | 5 => (rdInt 8 r0).map fun (s, r1) => (.ping s, r1)
    | 6 => (rdInt 8 r0).map fun (s, r1) => (.pong s, r1)
    | _ => none

/-- `Message::decode` (trailing bytes allowed). -/
def decodeMsg (utf8 : Bytes → Bool) (b : Bytes) : Option Message := (rdMsg utf8 b).map (·.1)
def decodeSig (b : Bytes) : Option SignatureW := (rdSig b).map (·.1)
def decodeDelta (b : Bytes) : Option DeltaW := (rdDelta b).map (·.1)

/-- `Message::msg_type` as the wire code (1..7). -/
def msgType : Message → Nat
  | .sigReq .. => 1 | .sigResp .. => 2 | .deltaData .. => 3 | .ack .. => 4
  | .error .. => 5 | .ping .. => 6 | .pong .. => 7

/-! ## Frame header -/

structure FrameHeader where
  magic : Bytes        -- 4 bytes
  length : Nat         -- u32
  msgType : Nat        -- 1..7
  version : Nat        -- u8
  flags : Nat          -- u16
  deriving DecidableEq, Repr

/-- `FrameHeader::new`. -/
def FrameHeader.new (t len : Nat) : FrameHeader :=
  { magic := Gen.protocolMagic, length := len, msgType := t, version := Gen.protocolVersion, flags := 0 }

/-- `FrameHeader::encode` (12 bytes). -/
def FrameHeader.encode (h : FrameHeader) : Bytes :=
  h.magic.take 4 ++ le 4 h.length ++ [h.msgType, h.version] ++ le 2 h.flags

/-- `MessageType::from_u8` succeeds exactly on the declared codes. -/
def validType (t : Nat) : Bool := Gen.msgTypeCodes.contains t

/-- `FrameHeader::decode` = field extraction + `from_u8` + `validate`. -/
def FrameHeader.decode (b : Bytes) : Option FrameHeader :=
  if b.length ≠ Gen.frameHeaderSize then none else
  let h : FrameHeader :=
    { magic := b.take 4, length := ofLe ((b.drop 4).take 4), msgType := (b.drop 8).headD 0,
      version := (b.drop 9).headD 0, flags := ofLe ((b.drop 10).take 2) }
  if !validType h.msgType then none
  else if h.magic ≠ Gen.protocolMagic then none
  else if h.version ≠ Gen.protocolVersion then none
  else if h.length > Gen.maxPayloadSize then none
  else some h

/-- `Codec::write_message`: header + payload (error if the payload exceeds the bound). -/
def writeMessage (m : Message) : Option Bytes :=
  let payload := encMsg m
  if payload.length > Gen.maxPayloadSize then none
  else some ((FrameHeader.new (msgType m) payload.length).encode ++ payload)

/-- `Codec::read_message`: returns the message, the remaining stream, and the size of the one
explicit allocation (`read_buf.resize(header.length)`). -/
def readMessage (utf8 : Bytes → Bool) (inp : Bytes) : Option (Message × Bytes × Nat) :=
  match rdN 12 inp with
  | none => none
  | some (hb, r) =>
    match FrameHeader.decode hb with
    | none => none
    | some h =>
      match rdN h.length r with
      | none => none
      | some (payload, r') => (decodeMsg utf8 payload).map fun m => (m, r', h.length)

/-! ## CLI front ends (`run_delta` / `run_patch`): what happens to the block size read from a file -/

inductive CliOutcome | ok | error | panic
  deriving DecidableEq, Repr

def validBlockSize (bs : Nat) : Bool :=
  Gen.minBlock ≤ bs && bs ≤ Gen.maxBlock && (Nat.log2 bs) < 64 && 2 ^ (Nat.log2 bs) = bs

/-- `AsyncCopiaSync::with_block_size`: asserts. -/
def withBlockSize (bs : Nat) : CliOutcome := if validBlockSize bs then .ok else .panic

/-- `run_delta` up to the construction of the engine: read + deserialize the signature file,
`validate_block_size`, then the asserting constructor. -/
def cliDeltaFront (sigFile : Bytes) : CliOutcome :=
  match decodeSig sigFile with
  | none => .error
  | some s => if validBlockSize s.blockSize then withBlockSize s.blockSize else .error

def cliPatchFront (deltaFile : Bytes) : CliOutcome :=
  match decodeDelta deltaFile with
  | none => .error
  | some d => if validBlockSize d.blockSize then withBlockSize d.blockSize else .error

end Copia.Codec
