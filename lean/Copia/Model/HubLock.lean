/-!
# The calls of `serve.rs::with_commit_lock`
-/
namespace Copia.HubLock

inductive LockCall
  | openLockFile (create truncate write : Bool)   -- `OpenOptions … .open(lockdir/commit.lock)`
  | lockExclusive                                 -- `flock(LOCK_EX)`: blocks until no other process holds the lock
  | body                                          -- the closure: the handler's critical section
  | unlock
  deriving DecidableEq, Repr

end Copia.HubLock
