import Copia.Gen.Constants
import Copia.Model.Find
/-!
# Model of the hub: `serve.rs` (handlers, `safe_join`), `wire.rs` (framing, `cas_decide`)

Sequential part (one server process, one session): path safety, the wire loop, and the request
semantics over an abstract tree. The interleaved multi-process system is `Copia.Model.HubConc`.

Paths are strings (character lists). `components` follows Rust's `Path::components` on Unix:
a leading `/` is `RootDir`; empty and `.` components are dropped (a leading `.` is `CurDir`); `..` is
`ParentDir`; everything else `Normal`. The operating system's lexical resolution of the joined
string is `osResolve` (no symlinks in the served tree — the property's domain).
-/
namespace Copia.Hub
open Copia

inductive Comp
  | rootDir | curDir | parentDir | normal (s : List Char)
  deriving DecidableEq, Repr

def splitSlash : List Char → List (List Char)
  | [] => [[]]
  | c :: cs =>
    match splitSlash cs with
    | [] => [[]]
    | h :: t => if c = '/' then [] :: h :: t else (c :: h) :: t

/-- components after the (optional) root: `""` and `"."` dropped, `".."` kept as `parentDir` -/
def bodyComps : List (List Char) → List Comp
  | [] => []
  | s :: t =>
    if s = [] ∨ s = ['.'] then bodyComps t
    else if s = ['.', '.'] then .parentDir :: bodyComps t
    else .normal s :: bodyComps t

/-- `Path::new(rel).components()` -/
def components (rel : List Char) : List Comp :=
  match rel with
  | '/' :: _ => .rootDir :: bodyComps (splitSlash rel)
  | _ =>
    match splitSlash rel with
    | ['.'] :: t => .curDir :: bodyComps t
    | parts => bodyComps parts

/-- the path-traversal guard of `safe_join(root, rel)`: refuse absolute paths and any `..` / root component; otherwise
`root.join(rel)` = `root ++ "/" ++ rel` as a string (root given without trailing slash). -/
def safeJoinPath (root rel : List Char) : Option (List Char) :=
  if rel.head? = some '/' then none
  else if (components rel).any (fun c => c = .parentDir ∨ c = .rootDir) then none
  else some (root ++ '/' :: rel)

/-- the first `Normal` component of the request path is the hub's own control directory `.copia` -/
def reservedFirst (rel : List Char) : Bool :=
  match (components rel).find? (fun c => match c with | .normal _ => true | _ => false) with
  | some (.normal s) => s = ".copia".toList
  | _ => false

/-- `safe_join` as repaired (D12/D17): additionally refuses anything inside the control directory -/
def safeJoin (root rel : List Char) : Option (List Char) :=
  if reservedFirst rel then none else safeJoinPath root rel

/-- The kernel's lexical walk of a path string: split on `/`, skip `""` and `"."`, `".."` pops. -/
def osWalk (stack : List (List Char)) : List (List Char) → List (List Char)
  | [] => stack
  | s :: t =>
    if s = [] ∨ s = ['.'] then osWalk stack t
    else if s = ['.', '.'] then osWalk stack.dropLast t
    else osWalk (stack ++ [s]) t

def osResolve (p : List Char) : List (List Char) := osWalk [] (splitSlash p)

/-- staging / conflict-copy names are formed by appending to the path *string* -/
def tmpOf (dst : List Char) : List Char := dst ++ Gen.stagingSuffix.toList
def cnameOf (dst : List Char) (short : List Char) : List Char := dst ++ ".conflict-".toList ++ short

/-! ## Wire framing -/

abbrev Bytes := List Nat

def be32 (b : Bytes) : Nat :=
  match b with
  | [a, b, c, d] => ((a * 256 + b) * 256 + c) * 256 + d
  | _ => 0

inductive Req (H : Type)
  | hello (v : Nat)
  | list
  | get (path : List Char)
  | put (path : List Char) (expected : Option H) (len : Nat) (hash : H)
  | delete (path : List Char) (expected : Option H)
  | bye
  deriving Repr

inductive Reply (H : Type)
  | hello (v : Nat)
  | fingerprints (m : List (List (List Char) × H))
  | content (len : Nat) (hash : H) (bytes : Bytes)
  | putResult (committed : Bool) (current : Option H)
  | deleteResult (deleted : Bool) (current : Option H)
  | error (msg : String)
  deriving Repr

inductive Exit | clean | badPrologue | ioError | frameTooLarge | badBody
  deriving DecidableEq, Repr

/-- hub tree: resolved path (component list, relative to the served root) ↦ content bytes -/
abbrev HTree := List (List (List Char) × Bytes)

def hget (t : HTree) (k : List (List Char)) : Option Bytes :=
  match t with
  | [] => none
  | (k', v) :: r => if k' = k then some v else hget r k

def hins (t : HTree) (k : List (List Char)) (v : Bytes) : HTree :=
  match t with
  | [] => [(k, v)]
  | (k', v') :: r => if k' = k then (k, v) :: r else (k', v') :: hins r k v

def hdel (t : HTree) (k : List (List Char)) : HTree := t.filter (fun e => e.1 ≠ k)

/-- `cas_decide` -/
def casCommit {H} [DecidableEq H] (current expected : Option H) : Bool := current = expected

/-- the resolved key of an accepted request path, relative to the root -/
def keyOf (rel : List Char) : List (List Char) := osResolve rel

structure Step (H : Type) where
  tree : HTree
  reply : Option (Reply H)       -- none: `Bye` (no reply)
  consumed : Nat                 -- content bytes consumed after the frame (Put)
  fatal : Bool := false          -- a file-system error inside the handler (`?`): the session ends, no reply

/-- the key names the served root itself or a directory (a proper prefix of an existing key) -/
def isDir (t : HTree) (key : List (List Char)) : Bool :=
  key.isEmpty || t.any fun e => key.length < e.1.length && e.1.take key.length = key

/-- some proper, non-empty prefix of the key is a regular file: `create_dir_all(parent)` fails -/
def parentIsFile (t : HTree) (key : List (List Char)) : Bool :=
  (List.range key.length).any fun n => 0 < n && (hget t (key.take n)).isSome

/-- `-N` suffix of the N-th alternative conflict-copy name (`N = 0`: the plain name) -/
def ccSuffix (n : Nat) : List Char := if n = 0 then [] else '-' :: Copia.Meta.decimal n

/-- something lives at the key: a file, or a directory (a proper prefix of some file's key) -/
def occupied (t : HTree) (key : List (List Char)) : Bool := (hget t key).isSome || isDir t key

/-- The conflict-copy name a stale Put lands on (D13 repair): `<p>.conflict-<short>`, unless a DIFFERENT
file (or a directory) already lives there — then `…-1`, `…-2`, … until a name is free or already holds
exactly these bytes' hash. Runs under the commit lock. Fuel = tree size + 1 (a free name exists among that many). -/
def ccPick {H} [DecidableEq H] (hash : Bytes → H) (t : HTree) (p short : List Char) (h : H) : Nat → Nat → List Char
  | 0, n => cnameOf p (short ++ ccSuffix n)
  | fuel+1, n =>
    let c := cnameOf p (short ++ ccSuffix n)
    if occupied t (osResolve c) && decide ((hget t (osResolve c)).map hash ≠ some h) then ccPick hash t p short h fuel (n+1)
    else c

/-- one request against the tree (`hash` = BLAKE3, `short` = first 12 hex of a hash). A `Put`
streams exactly `min len available` bytes (`Read::take`). -/
def handle {H} [DecidableEq H] (hash : Bytes → H) (short : H → List Char) (t : HTree)
    (req : Req H) (after : Bytes) : Step H :=
  match req with
  | .hello _ => { tree := t, reply := some (.hello Gen.wireVersion), consumed := 0 }
  | .list =>
    { tree := t,
      reply := some (.fingerprints ((t.filter fun e => e.1.head? ≠ some ".copia".toList).map fun e => (e.1, hash e.2))),
      consumed := 0 }
  | .get p =>
    match safeJoin [] p with
    | none => { tree := t, reply := some (.error "bad path"), consumed := 0 }
    | some _ =>
      match hget t (keyOf p) with
      | some b => { tree := t, reply := some (.content b.length (hash b) b), consumed := 0 }
      | none => { tree := t, reply := some (.error "not found"), consumed := 0 }
  | .put p expected len h =>
    let body := after.take len
    match safeJoin [] p with
    | none => { tree := t, reply := some (.error "bad path"), consumed := body.length }
    | some _ =>
      if parentIsFile t (keyOf p) then { tree := t, reply := none, consumed := 0, fatal := true }
      else if body.length ≠ len then { tree := t, reply := some (.error "content length mismatch"), consumed := body.length }
      else if hash body ≠ h then { tree := t, reply := some (.error "content hash mismatch"), consumed := body.length }
      else
        let cur := (hget t (keyOf p)).map hash
        if casCommit cur expected then
          if isDir t (keyOf p) then
            -- the rename onto a directory (or onto the root itself) fails: reported, nothing stored
            { tree := t, reply := some (.error "commit failed"), consumed := body.length }
          else
            { tree := hins t (keyOf p) body, reply := some (.putResult true (some h)), consumed := body.length }
        else
          -- (a stale `expected` against a DIRECTORY is a conflict like any other: the copy lands beside it)
          { tree := hins t (osResolve (ccPick hash t p (short h) h (t.length + 1) 0)) body, reply := some (.putResult false cur), consumed := body.length }
  | .delete p expected =>
    match safeJoin [] p with
    | none => { tree := t, reply := some (.error "bad path"), consumed := 0 }
    | some _ =>
      let cur := (hget t (keyOf p)).map hash
      if casCommit cur expected then
        { tree := hdel t (keyOf p), reply := some (.deleteResult true none), consumed := 0 }
      else { tree := t, reply := some (.deleteResult false cur), consumed := 0 }
  | .bye => { tree := t, reply := none, consumed := 0 }

structure Session (H : Type) where
  replies : List (Reply H)
  tree : HTree
  exit : Exit
  allocs : List Nat              -- sizes of the control-frame buffers reserved (`vec![0u8; len]`)

/-- `serve`: prologue, then frames until EOF / `Bye` / an error. `decode` is ciborium on the frame
body (a parameter). Fuel = input length + 1 (every round consumes ≥ 4 bytes). -/
def serveLoop {H} [DecidableEq H] (hash : Bytes → H) (short : H → List Char)
    (decode : Bytes → Option (Req H)) :
    Nat → Bytes → HTree → List (Reply H) → List Nat → Session H
  | 0, _, t, rs, al => { replies := rs.reverse, tree := t, exit := .clean, allocs := al.reverse }
  | fuel+1, inp, t, rs, al =>
    if inp.length < 4 then
      -- `read_exact` of the length prefix hits EOF: clean end of session (also for a partial prefix)
      { replies := rs.reverse, tree := t, exit := .clean, allocs := al.reverse }
    else
      let len := be32 (inp.take 4)
      let rest := inp.drop 4
      if len > Gen.maxFrame then { replies := rs.reverse, tree := t, exit := .frameTooLarge, allocs := al.reverse }
      else if rest.length < len then
        { replies := rs.reverse, tree := t, exit := .ioError, allocs := (len :: al).reverse }
      else
        match decode (rest.take len) with
        | none => { replies := rs.reverse, tree := t, exit := .badBody, allocs := (len :: al).reverse }
        | some req =>
          let st := handle hash short t req (rest.drop len)
          if st.fatal then { replies := rs.reverse, tree := t, exit := .ioError, allocs := (len :: al).reverse } else
          match st.reply with
          | none => { replies := rs.reverse, tree := st.tree, exit := .clean, allocs := (len :: al).reverse }
          | some r => serveLoop hash short decode fuel ((rest.drop len).drop st.consumed) st.tree (r :: rs) (len :: al)

def serve {H} [DecidableEq H] (hash : Bytes → H) (short : H → List Char)
    (decode : Bytes → Option (Req H)) (inp : Bytes) (t : HTree) : Session H :=
  if inp.length < 6 then { replies := [], tree := t, exit := .ioError, allocs := [] }
  else if inp.take 6 ≠ Gen.wireMagic then { replies := [], tree := t, exit := .badPrologue, allocs := [] }
  else serveLoop hash short decode (inp.length + 1) (inp.drop 6) t [] []

end Copia.Hub
