import Copia.Lemmas.Bisync11
/-!
# C15 — `bisync --dry-run` (model level)

`run_bisync` computes the plan from the scanned trees and the loaded archive, prints it, and with
`--dry-run` returns before anything is applied or recorded. The dry run therefore is the pair
(unchanged state, printed plan); the theorem says the printed plan is the plan a real run from the
same state executes — all of it, in this order, when the run completes (under `NoNameClash` it always
does). That the real binary's dry run writes nothing (trees, mtimes, archive bytes) and prints this
plan is the black-box part of `./check C15`.
-/
namespace Copia.C15
open Copia.Reconcile Copia.Bisync

variable {P C : Type} [DecidableEq P] [DecidableEq C]

/-- `copia bisync A B --dry-run`: the state it leaves and the actions it prints -/
def bisyncDry (le : P → P → Bool) (s : State P C) : State P C × List (P × Action) := (s, bisyncPlan le s)

/-- C15 (bisync dry run): nothing changes, and the printed actions are exactly the plan the real run
works through: same length as the real run reports, and when the real run completes it has applied
every printed action, in the printed order, to the live trees (`applyAllPartial` over that very list). -/
theorem bisync_dry_run (le : P → P → Bool)
    (trans : ∀ a b c, le a b → le b c → le a c) (total : ∀ a b, le a b || le b a)
    (antisymm : ∀ a b, le a b → le b a → a = b) (ge : C → C → Bool) (cname : P → C → P) (s : State P C) :
    (bisyncDry le s).1 = s ∧
    (bisync le ge cname s).planLen = (bisyncDry le s).2.length ∧
    (NoNameClash ge cname s.A s.B (bisyncPlan le s) →
      ∃ l n, applyAllPartial ge cname (scan s.A) (scan s.B) (bisyncDry le s).2
          { A := s.A, B := s.B, common := common0 s } 0 = (l, n, true) ∧
        (bisync le ge cname s).state.A = l.A ∧ (bisync le ge cname s).state.B = l.B) := by
  refine ⟨rfl, ?_, ?_⟩
  · unfold bisync bisyncDry bisyncPlan
    simp only []
    split <;> rfl
  · intro nnc
    obtain ⟨l, n, hrun, _, _⟩ := bisync_run le trans total antisymm ge cname s nnc
    refine ⟨l, n, hrun, ?_, ?_⟩ <;> rw [bisync_of_run le ge cname s l n hrun]

end Copia.C15
