import Copia.Gen.Constants
import Copia.Lemmas.Shell
/-!
# C09 / C04 — the remote command of a push, as it stands in the source

`tools/gen_constants.py` takes the command string `transfer_file_to_remote` hands to `ssh` (with the
`touch` suffix of a run that preserves mtimes) and splits it at its top-level `&&` / `||` into
`Gen.pushStages` / `Gen.pushConns` (anything that is not a plain and-or list is refused there).
`Model/Shell.eval` runs such a list for any success/failure of the stages.
-/
namespace Copia.C09
open Copia.Shell

/-- the stages of the command in the source on this run: stage the stream, compare the staged size with
the announced size, refuse a destination that is a directory (D20: `mv` would move the file INTO it and
succeed), rename over the destination, stamp the mtime — joined by `&&` only -/
theorem source_push_command_is_modelled :
    Copia.Gen.pushStages =
      ["cat > $'{tmp_escaped}'", "[ \"$(wc -c < $'{tmp_escaped}')\" -eq {file_size} ]", "[ ! -d $'{escaped}' ]",
       "mv -f $'{tmp_escaped}' $'{escaped}'", "touch -d @{t} $'{escaped}'"] ∧
    Copia.Gen.pushConns = [0, 1, 1, 1, 1] := by decide

/-- C09 (push, what the orphaned remote shell does after the sender died — or at any other time): for
EVERY way the five stages can succeed or fail, the rename over the destination (stage 3) runs only after
the stream was staged, the size test passed and the destination is not a directory, and the destination's
mtime is stamped (stage 4) only after that rename succeeded — a rejected upload never renames and never stamps, so the old file keeps
its old bytes AND its old mtime and the next run sends it again. -/
theorem push_command_order (ok : Nat → Bool) :
    (3 ∈ (eval ok Copia.Gen.pushConns).1 → ok 0 = true ∧ ok 1 = true ∧ ok 2 = true) ∧
    (4 ∈ (eval ok Copia.Gen.pushConns).1 → ok 0 = true ∧ ok 1 = true ∧ ok 2 = true ∧ ok 3 = true) ∧
    (∀ j, j ∈ (eval ok Copia.Gen.pushConns).1 → j < 5) := by
  rw [source_push_command_is_modelled.2]
  have h := (allAnd_chain ok [1, 1, 1, 1] ⟨rfl, rfl, rfl, rfl, trivial⟩).2
  refine ⟨fun h3 => ?_, fun h4 => ?_, fun j hj => ?_⟩
  · have := ((h 3).mp h3).2
    exact ⟨this 0 (by omega), this 1 (by omega), this 2 (by omega)⟩
  · have := ((h 4).mp h4).2
    exact ⟨this 0 (by omega), this 1 (by omega), this 2 (by omega), this 3 (by omega)⟩
  · exact ((h j).mp hj).1

/-- C04 / C09 (a remote failure is reported): the command's exit status is 0 iff every stage succeeded —
staging, size test, not-a-directory test, rename and stamp; `transfer_file_to_remote` counts the file as sent on status 0 only. -/
theorem push_command_status (ok : Nat → Bool) :
    (eval ok Copia.Gen.pushConns).2 = true ↔ (ok 0 = true ∧ ok 1 = true ∧ ok 2 = true ∧ ok 3 = true ∧ ok 4 = true) := by
  rw [source_push_command_is_modelled.2]
  rw [(allAnd_chain ok [1, 1, 1, 1] ⟨rfl, rfl, rfl, rfl, trivial⟩).1]
  simp [List.range_succ, List.all_cons, Bool.and_eq_true, and_assoc]

/-- the command of seed C09-G (then four stages: `… && mv … || rm -f tmp && touch -c …`): a failed size test still stamps
the OLD destination with the source's mtime (kernel-checked run of the same evaluator) -/
theorem or_cleanup_stamps_after_a_rejected_upload :
    4 ∈ (eval (fun i => i != 1) [0, 1, 1, 2, 1]).1 ∧ 2 ∉ (eval (fun i => i != 1) [0, 1, 1, 2, 1]).1 := by decide

end Copia.C09
