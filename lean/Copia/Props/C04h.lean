import Copia.Gen.LoopsScan

/-!
C04 — `dir_sync.rs::create_local_dirs`, translated (`Copia.Gen.Loops.createLocalDirsGen`): the root first, then every listed directory under it, in order,
stopping at the first failure.
-/

namespace Copia.C04

open Copia.Gen.Loops

private theorem loop_eq {W P R : Type} (mk : W → P → Option W) (join : P → R → P) (root : P) (dirs : List R) (w : W) :
    (forIn dirs w (fun dir r => do
        let r ← mk r (join root dir)
        pure (ForInStep.yield r)) : Option W) = (dirs.map (join root)).foldlM mk w := by
  induction dirs generalizing w with
  | nil => rfl
  | cons d ds ih =>
    simp only [List.forIn_cons, List.map_cons, List.foldlM_cons]
    cases h : mk w (join root d) with
    | none => rfl
    | some w' => simpa using ih w'

/-- The translated function IS the left-to-right creation of the root and then of every listed directory joined to it: the first failure ends it. -/
theorem source_create_dirs_is_exact {W P R : Type} (mk : W → P → Option W) (join : P → R → P) (w : W) (root : P) (dirs : List R) :
    createLocalDirsGen mk join w root dirs = (root :: dirs.map (join root)).foldlM mk w := by
  unfold createLocalDirsGen
  simp only [List.foldlM_cons]
  cases h : mk w root with
  | none => rfl
  | some w' =>
    have := loop_eq mk join root dirs w'
    simpa using this

/-- The world in which a directory can be made or not (`ok`), and the state is the list of directories made so far. -/
def mkIf {P : Type} (ok : P → Bool) (w : List P) (p : P) : Option (List P) := if ok p then some (w ++ [p]) else none

private theorem foldlM_mkIf {P : Type} (ok : P → Bool) (ps : List P) (w : List P) :
    ps.foldlM (mkIf ok) w = if ps.all ok then some (w ++ ps) else none := by
  induction ps generalizing w with
  | nil => simp
  | cons p ps ih =>
    simp only [List.foldlM_cons, List.all_cons]
    by_cases hp : ok p = true
    · have h1 : mkIf ok w p = some (w ++ [p]) := by simp [mkIf, hp]
      rw [h1]
      simpa [hp] using ih (w ++ [p])
    · have h1 : mkIf ok w p = none := by simp [mkIf, hp]
      rw [h1]
      simp [hp]

/-- A run that gets past `create_local_dirs` has made the root and EVERY directory of the plan, in the listed order and nothing else; if any one of them cannot be
made the function fails (so the run stops before a single file is delivered). -/
theorem source_create_dirs_all_or_error {P R : Type} (ok : P → Bool) (join : P → R → P) (root : P) (dirs : List R) :
    createLocalDirsGen (mkIf ok) join [] root dirs
      = if (root :: dirs.map (join root)).all ok then some (root :: dirs.map (join root)) else none := by
  rw [source_create_dirs_is_exact, foldlM_mkIf]
  simp

example : createLocalDirsGen (mkIf (fun p : String => p != "r/b")) (fun r d => r ++ "/" ++ d) [] "r" ["a", "a/x"] = some ["r", "r/a", "r/a/x"] := by decide
example : createLocalDirsGen (mkIf (fun p : String => p != "r/b")) (fun r d => r ++ "/" ++ d) [] "r" ["a", "b", "c"] = none := by decide

end Copia.C04
