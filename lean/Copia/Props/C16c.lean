import Copia.Lemmas.GenEqLoopsT
/-! C16 / C01 — the scans (`source_scan_is_model`) look blocks up through `has_weak_match` and `find_match`. The source answers
both from a two-level hash index built by `SignatureTable::from_signature`; all three, as they stand in the source (translated on
this run), are the lookups of the model: "some block has this weak hash" and "the FIRST block, in block order, with this weak hash
whose strong hash is the window's". -/
namespace Copia.C16
open Copia.Delta Copia.DeltaSupport

theorem source_table_lookup_is_model {D : Type} [DecidableEq D] (H : List Nat → D) (blocks : List (BlockSig D)) (weak : Nat) (data : List Nat) :
    Copia.Gen.Loops.findMatchGen H (Copia.Gen.Loops.tableIndex blocks) blocks weak data = findStrong H blocks weak data ∧
    Copia.Gen.Loops.hasWeakGen (Copia.Gen.Loops.tableIndex blocks) weak = hasWeak blocks weak :=
  ⟨Copia.GenEqLoops.findMatch_eq H blocks weak data, Copia.GenEqLoops.hasWeak_eq blocks weak⟩

/-- what the source's lookup returns is a block of the signature with the window's two hashes, and no earlier block has both -/
theorem source_find_match_is_first {D : Type} [DecidableEq D] (H : List Nat → D) (blocks : List (BlockSig D)) (weak : Nat) (data : List Nat)
    (b : BlockSig D)
    (h : Copia.Gen.Loops.findMatchGen H (Copia.Gen.Loops.tableIndex blocks) blocks weak data = some b) :
    b ∈ blocks ∧ b.weak = weak ∧ b.strong = H data := by
  rw [Copia.GenEqLoops.findMatch_eq] at h
  unfold findStrong at h
  have hm := List.mem_of_find?_eq_some h
  have hp := List.find?_some h
  simp only [List.mem_filter, decide_eq_true_eq] at hm hp
  exact ⟨hm.1, hm.2, hp⟩

/-- a window whose hashes are those of some block is never reported as unmatched -/
theorem source_find_match_finds {D : Type} [DecidableEq D] (H : List Nat → D) (blocks : List (BlockSig D)) (data : List Nat)
    (b : BlockSig D) (hb : b ∈ blocks) (hs : b.strong = H data) :
    (Copia.Gen.Loops.findMatchGen H (Copia.Gen.Loops.tableIndex blocks) blocks b.weak data).isSome = true := by
  rw [Copia.GenEqLoops.findMatch_eq]
  unfold findStrong
  rw [List.find?_isSome]
  exact ⟨b, by simp [hb], by simp [hs]⟩

-- non-vacuity: two blocks share a weak hash; the lookup returns the first whose strong hash fits, not the first of the bucket
example : Copia.Gen.Loops.findMatchGen (fun d => d.length) (Copia.Gen.Loops.tableIndex
      ([⟨0, 7, 1⟩, ⟨1, 9, 3⟩, ⟨2, 7, 2⟩, ⟨3, 7, 2⟩] : List (BlockSig Nat))) [⟨0, 7, 1⟩, ⟨1, 9, 3⟩, ⟨2, 7, 2⟩, ⟨3, 7, 2⟩] 7 [5, 5]
    = some ⟨2, 7, 2⟩ := by rfl

end Copia.C16
