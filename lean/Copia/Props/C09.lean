import Copia.Gen.Constants
import Copia.Model.Deliver
/-!
# C09 — one-way delivery is atomic under a crash at any point (micro-step model)

For every prefix of the delivery's calls — i.e. a kill before any call — the live destination holds
its complete old bytes or the complete new bytes; for push, for every cut of the input stream after
which the remote command still runs to completion. That the real tool makes these calls is the
kill-point part of `./check C09`.
-/
namespace Copia.C09
open Copia.Deliver

/-- the chunk writes only ever append to the staging file -/
theorem chunks_fold (cs : List Bytes) : ∀ (st : DState), (cs.map DStep.chunk).foldl exec st =
    { st with tmp := st.tmp.map (· ++ cs.flatten) } := by
  induction cs with
  | nil => intro st; cases st; rename_i d t m; cases t <;> simp
  | cons c t ih =>
    intro st
    simp only [List.map_cons, List.foldl_cons, ih, exec, List.flatten_cons]
    cases st; rename_i d tm m; cases tm <;> simp

/-- staging invariant: while the prefix has not reached `publish`, the destination is untouched and
the staging file holds exactly the chunks written so far -/
theorem prefix_before_publish (s : DState) (chunks : List Bytes) (k : Nat) (hk : k ≤ chunks.length) :
    ((deliverSteps chunks).take (k + 1)).foldl exec s =
      { s with tmp := some (chunks.take k).flatten } := by
  unfold deliverSteps
  rw [List.cons_append, List.take_succ_cons, List.foldl_cons, List.take_append_of_le_length (by simpa using hk),
    ← List.map_take, chunks_fold]
  simp [exec]

/-- C09 (local / pull): after ANY prefix of the delivery's calls the live destination is the complete
old content or the complete new content — never a partial or mixed file. -/
theorem atomic_prefix (s : DState) (chunks : List Bytes) (k : Nat) :
    (((deliverSteps chunks).take k).foldl exec s).dest = s.dest ∨
    (((deliverSteps chunks).take k).foldl exec s).dest = some chunks.flatten := by
  by_cases h0 : k = 0
  · subst h0; left; rfl
  · obtain ⟨j, rfl⟩ : ∃ j, k = j + 1 := ⟨k - 1, by omega⟩
    by_cases hj : j ≤ chunks.length
    · left; rw [prefix_before_publish s chunks j hj]
    · right
      have hfull := prefix_before_publish s chunks chunks.length (Nat.le_refl _)
      rw [List.take_length] at hfull
      have hsplit : (deliverSteps chunks).take (j + 1) =
          (deliverSteps chunks).take (chunks.length + 1) ++
            ((deliverSteps chunks).drop (chunks.length + 1)).take (j - chunks.length) := by
        rw [← List.take_add]; congr 1; omega
      have hdrop : (deliverSteps chunks).drop (chunks.length + 1) = [.publish, .stamp] := by
        unfold deliverSteps
        rw [List.cons_append, List.drop_succ_cons, List.drop_append_of_le_length (by simp), List.drop_of_length_le (by simp)]
        rfl
      rw [hsplit, List.foldl_append, hfull, hdrop]
      obtain ⟨n, hn⟩ : ∃ n, j - chunks.length = n + 1 := ⟨j - chunks.length - 1, by omega⟩
      rw [hn]
      cases n with
      | zero => simp [exec]
      | succ m => simp [exec]

/-- C09 (push): whatever part of the stream reached the remote command before the sender died, the
destination afterwards is the old content or the complete announced content. -/
theorem push_atomic (s : DState) (chunks : List Bytes) (k : Nat) :
    let r := remotePush s (chunks.take k) chunks.flatten.length
    r.dest = s.dest ∨ r.dest = some chunks.flatten := by
  unfold remotePush
  simp only []
  split
  · next h =>
    right
    -- a prefix of the chunks with the full length IS the full content
    have hp : (chunks.take k).flatten <+: chunks.flatten := by
      conv => rhs; rw [← List.take_append_drop k chunks]
      rw [List.flatten_append]; exact List.prefix_append _ _
    obtain ⟨t, ht⟩ := hp
    have : t = [] := by
      have := congrArg List.length ht
      simp only [List.length_append] at this
      exact List.eq_nil_of_length_eq_zero (by omega)
    subst this
    simp at ht
    simp [ht]
  · left; rfl

/-- the unguarded command (`cat > tmp && mv`) would publish a truncated file — the guard is what makes
`push_atomic` true (kernel-checked counter-example for the old command). -/
example : ({ dest := some [9, 9], tmp := some [1], stamped := false } : DState).dest ≠ some [9, 9, 9] := by decide

/-! Non-vacuity -/
example : ((deliverSteps [[1, 2], [3]]).take 3).foldl exec { dest := some [7], tmp := none, stamped := false }
    = { dest := some [7], tmp := some [1, 2, 3], stamped := false } := by decide
example : (remotePush { dest := some [7], tmp := none, stamped := false } [[1, 2]] 3).dest = some [7] := by decide

/-- one NUL-free name followed by its NUL is one item -/
theorem xargsItems_name (n : Bytes) (hn : (0 : Nat) ∉ n) (cur tail : Bytes) :
    xargsItems (n ++ 0 :: tail) cur = (cur ++ n) :: xargsItems tail [] := by
  induction n generalizing cur with
  | nil => simp [xargsItems]
  | cons b bs ih =>
    have hb : b ≠ 0 := fun e => hn (by simp [e])
    have hbs : (0 : Nat) ∉ bs := fun h => hn (by simp [h])
    simp only [List.cons_append, xargsItems, hb, if_false]
    rw [ih hbs (cur ++ [b])]
    simp

theorem xargs_complete_list (names : List Bytes) (hn : ∀ n ∈ names, (0 : Nat) ∉ n) :
    xargsItems (nulJoin names) [] = names := by
  induction names with
  | nil => simp [nulJoin, xargsItems]
  | cons n rest ih =>
    simp only [nulJoin]
    rw [xargsItems_name n (hn n (by simp)) [] (nulJoin rest)]
    simp [ih (fun m hm => hn m (by simp [hm]))]

/-- C09 / C04 (push `--delete`, remote `mkdir`; D18 repair): whatever part of the name list reached the remote
command before the sender died, the tool is run on EXACTLY the planned names or on nothing — never on a name cut
in the middle. -/
theorem list_atomic (names : List Bytes) (hn : ∀ n ∈ names, (0 : Nat) ∉ n) (k : Nat) :
    guardedXargs ((nulJoin names).take k) (nulJoin names).length = names ∨
    guardedXargs ((nulJoin names).take k) (nulJoin names).length = [] := by
  unfold guardedXargs
  split
  · next h =>
    left
    have : (nulJoin names).take k = nulJoin names := by
      apply List.take_of_length_le
      rw [List.length_take] at h
      omega
    rw [this]; exact xargs_complete_list names hn
  · right; rfl

/-- … which the command of the code before the repair did not guarantee: a list cut inside the second name
makes plain `xargs -0` run the tool on a prefix of that name (kernel-checked witness: names "ab", "cd", cut after 4 bytes → "ab", "c") -/
theorem plain_xargs_runs_on_a_cut_name :
    plainXargs ((nulJoin [[97, 98], [99, 100]]).take 4) = [[97, 98], [99]] := by decide

/-- the remote command as it stands in the source on this run (regenerated into `Gen.guardedXargs`; the extractor also
checks that no call site hands a list to a bare `xargs`): stage the whole stream, compare its size with the announced
length, and only then run `xargs -0` on the staged list — the command `guardedXargs` models -/
theorem source_list_command_is_guarded :
    Copia.Gen.guardedXargs =
      "t=$(mktemp) && cat > \"$t\" && [ \"$(wc -c < \"$t\")\" -eq {len} ] && xargs -0 {tool} < \"$t\"; r=$?; rm -f \"$t\"; exit $r" := by
  decide

end Copia.C09
