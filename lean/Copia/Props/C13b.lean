import Copia.Lemmas.Target
/-! C13 — `hub-sync LOCAL TARGET`: which targets are remote (`host:root` over ssh) and which are local directories. -/
namespace Copia.C13
open Copia.Target Copia.Meta

/-- `host:root` with a non-empty, slash-free, colon-free host is the hub `root` on `host` — whatever
`root` contains (further colons included) -/
theorem target_remote (host root : List Char) (h1 : host ≠ []) (h2 : '/' ∉ host) (h3 : ':' ∉ host) :
    splitTarget (host ++ ':' :: root) = some (host, root) := by
  unfold splitTarget
  rw [cut_append ':' host root h3]
  cases host with
  | nil => exact absurd rfl h1
  | cons c cs => simp [h2]

/-- … and nothing else is: a remote answer always comes from such a split at the first colon -/
theorem target_remote_only (t host root : List Char) (h : splitTarget t = some (host, root)) :
    t = host ++ ':' :: root ∧ host ≠ [] ∧ '/' ∉ host ∧ ':' ∉ host := by
  unfold splitTarget at h
  cases hc : cut ':' t with
  | none => rw [hc] at h; cases h
  | some v =>
    obtain ⟨a, b⟩ := v
    rw [hc] at h
    simp only [] at h
    split at h
    · cases h
    · next hn =>
      simp only [Option.some.injEq, Prod.mk.injEq] at h
      obtain ⟨rfl, rfl⟩ := h
      obtain ⟨e1, e2⟩ := cut_spec ':' t a b hc
      refine ⟨e1, ?_, ?_, e2⟩
      · intro e; apply hn; left; simp [e]
      · intro e; apply hn; right; exact e

/-- a target without a colon is a local hub directory -/
theorem target_local_no_colon (t : List Char) (h : ':' ∉ t) : splitTarget t = none := by
  unfold splitTarget; rw [cut_none_of_not_mem ':' t h]

/-- so is a path with a `/` before its first colon (`./a:b`, `/srv/x:y`) and one that starts with a colon -/
theorem target_local_slash (h r : List Char) (hn : ':' ∉ h) (hb : h = [] ∨ '/' ∈ h) :
    splitTarget (h ++ ':' :: r) = none := by
  unfold splitTarget
  rw [cut_append ':' h r hn]
  rcases hb with rfl | hb
  · simp
  · simp [hb]

example : splitTarget "vh:hub:dir".toList = some ("vh".toList, "hub:dir".toList) := by decide
example : splitTarget "./a:b".toList = none ∧ splitTarget ":x".toList = none ∧ splitTarget "plain".toList = none := by decide

end Copia.C13
