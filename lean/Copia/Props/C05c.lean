import Copia.Props.C05
import Copia.Gen.LoopsDelta
/-! C05 — `copia patch`, the command (`main.rs::run_patch` and `validate_block_size`, translated on this run): read and deserialise the delta,
refuse a block size that is not a power of two in 512..=65536, open the basis, create the output, `patch` with verification. The command
exits 0 ONLY when `patch` (the model's function — each engine's translation is it: `C05.source_patch_*_is_model`) returned `ok`, and then the
output file holds exactly the bytes patch produced, whose hash is the delta's checksum (`C05.ok_implies_checksum`): never success on other
bytes. A delta that does not deserialise, an invalid block size, a missing basis end the command before the output file exists. (What the
model does not see: allocations sized from header fields — seed C05-M; the CLI runs of the C05 check observe those.) -/
namespace Copia.C05
open Copia.Delta

variable {D : Type} [DecidableEq D]

theorem source_run_patch_exit0_means_checksum (H : List Nat → D) (d : Option (Delta D)) (b : Option (List Nat))
    (h : (Copia.Gen.Loops.runPatchGen H d b).1 = true) :
    ∃ δ basis out, d = some δ ∧ b = some basis ∧ patch H true basis δ = (.ok, out) ∧
      (Copia.Gen.Loops.runPatchGen H d b).2 = some out ∧ H out = δ.checksum := by
  unfold Copia.Gen.Loops.runPatchGen at h ⊢
  cases d with
  | none => simp [Id.run, pure] at h
  | some δ =>
    cases hv : Copia.Gen.Loops.validateBlockSizeGen δ.blockSize with
    | false => simp [Id.run, pure, hv] at h
    | true =>
      cases b with
      | none => simp [Id.run, pure, hv] at h
      | some basis =>
        cases hp : patch H true basis δ with
        | mk v out =>
          cases v with
          | ok =>
            refine ⟨δ, basis, out, rfl, rfl, hp, ?_, ok_implies_checksum H basis δ out hp⟩
            simp [Id.run, pure, hv, hp]
          | invalidCopyBounds => simp [Id.run, pure, hv, hp] at h
          | io => simp [Id.run, pure, hv, hp] at h
          | checksumMismatch => simp [Id.run, pure, hv, hp] at h

/-- before a valid delta and an openable basis there is no output file -/
theorem source_run_patch_creates_nothing_early (H : List Nat → D) (d : Option (Delta D)) (b : Option (List Nat))
    (hbad : d = none ∨ b = none ∨ ∃ δ, d = some δ ∧ Copia.Gen.Loops.validateBlockSizeGen δ.blockSize = false) :
    Copia.Gen.Loops.runPatchGen H d b = (false, none) := by
  unfold Copia.Gen.Loops.runPatchGen
  rcases hbad with h | h | ⟨δ, h, hv⟩
  · subst h; simp [Id.run, pure]
  · subst h
    cases d with
    | none => simp [Id.run, pure]
    | some δ => cases hv : Copia.Gen.Loops.validateBlockSizeGen δ.blockSize <;> simp [Id.run, pure, hv]
  · subst h; simp [Id.run, pure, hv]

theorem source_valid_block_size (n : Nat) (h : Copia.Gen.Loops.validateBlockSizeGen n = true) :
    512 ≤ n ∧ n ≤ 65536 ∧ 2 ^ Nat.log2 n = n := by
  unfold Copia.Gen.Loops.validateBlockSizeGen at h
  by_cases h1 : 2 ^ Nat.log2 n = n
  · by_cases h2 : 512 ≤ n ∧ n ≤ 65536
    · exact ⟨h2.1, h2.2, h1⟩
    · simp [Id.run, pure, h1, h2] at h
  · simp [Id.run, pure, h1] at h

example : Copia.Gen.Loops.validateBlockSizeGen 2048 = true ∧ Copia.Gen.Loops.validateBlockSizeGen 1000 = false ∧
    Copia.Gen.Loops.validateBlockSizeGen 256 = false ∧ Copia.Gen.Loops.validateBlockSizeGen 131072 = false := by decide

end Copia.C05
