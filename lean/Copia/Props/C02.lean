import Copia.Lemmas.ReconcileTable
import Copia.Model.Bisync
import Copia.Lemmas.Bisync11
/-!
# C02 — bisync never loses a file version

`path_safe` is the decision-level core, for every path and every (a, b, base) triple.
`no_version_lost` is the whole-run statement for `Bisync.bisync` (scan both roots, reconcile against
the trusted archive, run the whole plan on the live trees): every content present on either side
before the run is present on BOTH sides after it, unless it was the recorded base at its path and the
other side had changed or deleted that path. It is proved for every pair of trees and every archive
under `NoNameClash` — no conflict-copy name the run writes is a live path or another entry's name.
Without that hypothesis the statement is false of model and code alike (D10: a conflict-copy written
over a live path of the same name; `clash_loses` below is the kernel-checked witness), which the check
reports as a known finding. The model is tied to the real binary by the history correspondence and
the version-survival oracle of `./check C02`.
-/
namespace Copia.C02
open Copia.Reconcile Copia.Bisync Copia.C18

export Copia.PathSafe (discardsA discardsB)

/-- C02 (decision level, every path, every triple): the only version a non-conflict action ever
discards is one that **equals the base** while the other side **differs from it** (changed or
deleted) — never one side of a divergent edit, never the survivor of delete-vs-modify, never a file
created on one side only. Conflicts, convergence and no-ops discard nothing at the path. -/
theorem path_safe {D} [DecidableEq D] (a b z : Option (Fp D)) :
    (∀ v, discardsA (reconcilePath a b z) a = some v → z = some v ∧ b ≠ some v) ∧
    (∀ v, discardsB (reconcilePath a b z) b = some v → z = some v ∧ a ≠ some v) :=
  Copia.PathSafe.path_safe a b z

variable {P C : Type} [DecidableEq P] [DecidableEq C]

/-- C02 (whole run, all trees, all archives, under NoNameClash): the run does not stop on an I/O
error, and every content `c` that side A (resp. B) held at some path `p` before the run is held by
BOTH sides at some path after it — unless `c` was exactly the recorded base at `p` and the other side
no longer held `c` there (it had been changed or deleted on that side: the propagated case). -/
theorem no_version_lost (le : P → P → Bool)
    (trans : ∀ a b c, le a b → le b c → le a c) (total : ∀ a b, le a b || le b a)
    (antisymm : ∀ a b, le a b → le b a → a = b) (ge : C → C → Bool) (cname : P → C → P) (s : State P C)
    (nnc : NoNameClash ge cname s.A s.B (bisyncPlan le s)) :
    (bisync le ge cname s).status ≠ .ioError ∧
    (∀ p c, get s.A p = some c →
      (∃ q, get (bisync le ge cname s).state.A q = some c ∧ get (bisync le ge cname s).state.B q = some c) ∨
      (baseOf s p = some (mkFp c) ∧ get s.B p ≠ some c)) ∧
    (∀ p c, get s.B p = some c →
      (∃ q, get (bisync le ge cname s).state.A q = some c ∧ get (bisync le ge cname s).state.B q = some c) ∨
      (baseOf s p = some (mkFp c) ∧ get s.A p ≠ some c)) := by
  obtain ⟨hact, _, _, hrest⟩ := plan_facts le trans total antisymm s
  obtain ⟨l, n, hrun, inv, _⟩ := bisync_run le trans total antisymm ge cname s nnc
  rw [bisync_of_run le ge cname s l n hrun]
  refine ⟨by simp only []; split <;> simp, ?_, ?_⟩
  · intro p c h
    exact runInv_no_loss_A ge cname s.A s.B (baseOf s) _ l hact hrest nnc inv p c h
  · intro p c h
    exact runInv_no_loss_B ge cname s.A s.B (baseOf s) _ l hact hrest nnc inv p c h

/-- a non-trivial run meeting the hypotheses of `no_version_lost`: a divergent edit (a conflict copy is
written), a deletion against a trusted archive, an unchanged file -/
def s0 : State Nat Nat := { A := [(1, 10), (2, 20), (3, 30)], B := [(1, 11), (3, 30)],
                               arch := some [(1, mkFp 12), (2, mkFp 20), (3, mkFp 30)] }
theorem plan_s0 (p : Nat) (act : Action) (hm : (p, act) ∈ bisyncPlan (fun a b => decide (a ≤ b)) s0) :
    (p = 1 ∧ act = .conflict .bothChanged) ∨ (p = 2 ∧ act = .deleteA) := by
  obtain ⟨hk, he, hne⟩ := (Copia.C18.mem_reconcile _ _ _ _ _ p act).mp hm
  have hp : p = 1 ∨ p = 2 ∨ p = 3 := by
    simp [s0, scan] at hk; omega
  rcases hp with rfl | rfl | rfl
  · left; exact ⟨rfl, by rw [he]; decide⟩
  · right; exact ⟨rfl, by rw [he]; decide⟩
  · exfalso; apply hne; rw [he]; decide
/-- the hypotheses of `no_version_lost` are satisfiable (non-vacuity) -/
theorem s0_noNameClash : NoNameClash (fun a b => decide (a ≥ b)) (fun p c => 1000 + 100 * p + c) s0.A s0.B
      (bisyncPlan (fun a b => decide (a ≤ b)) s0) := by
  refine ⟨?_, ?_⟩
  · intro p act ln hm hc
    rcases plan_s0 p act hm with ⟨rfl, rfl⟩ | ⟨rfl, rfl⟩
    · have : ln = 1110 := by
        have h2 : ccName (fun a b => decide (a ≥ b)) (fun p c => 1000 + 100 * p + c) 1 (.conflict .bothChanged)
            (Copia.Bisync.get s0.A 1) (Copia.Bisync.get s0.B 1) = some 1110 := by decide
        rw [h2] at hc; cases hc; rfl
      subst this; decide
    · have h2 : ccName (fun a b => decide (a ≥ b)) (fun p c => 1000 + 100 * p + c) 2 .deleteA
            (Copia.Bisync.get s0.A 2) (Copia.Bisync.get s0.B 2) = none := by decide
      rw [h2] at hc; cases hc
  · intro p act p' act' ln hm hm' hc hc'
    rcases plan_s0 p act hm with ⟨rfl, rfl⟩ | ⟨rfl, rfl⟩ <;> rcases plan_s0 p' act' hm' with ⟨rfl, rfl⟩ | ⟨rfl, rfl⟩
    · rfl
    · have h2 : ccName (fun a b => decide (a ≥ b)) (fun p c => 1000 + 100 * p + c) 2 .deleteA
            (Copia.Bisync.get s0.A 2) (Copia.Bisync.get s0.B 2) = none := by decide
      rw [h2] at hc'; cases hc'
    · have h2 : ccName (fun a b => decide (a ≥ b)) (fun p c => 1000 + 100 * p + c) 2 .deleteA
            (Copia.Bisync.get s0.A 2) (Copia.Bisync.get s0.B 2) = none := by decide
      rw [h2] at hc; cases hc
    · rfl

/-- D10 history: B holds a file whose name is the conflict-copy name this run will write -/
def s1 : State Nat Nat := { A := [(1, 10)], B := [(1, 11), (1110, 99)], arch := none }
theorem plan_s1 : bisyncPlan (fun a b => decide (a ≤ b)) s1 = [(1, .conflict .bothChanged), (1110, .propagateBtoA)] := by
  have hs : ([1, 1, 1110] : List Nat).mergeSort (fun a b => decide (a ≤ b)) = [1, 1, 1110] :=
    List.mergeSort_of_pairwise (by decide)
  unfold bisyncPlan reconcile unionKeys
  have : (List.map (fun x => x.1) (scan s1.A) ++ List.map (fun x => x.1) (scan s1.B)) = [1, 1, 1110] := by decide
  rw [this, hs]
  decide
/-- D10, kernel-checked: WITHOUT NoNameClash the whole-run statement is false of the model. B's file
`1110` (content 99) is overwritten by the conflict copy of A's losing version; 99 is on neither side
afterwards. The same history replayed on the real binary loses the file (known finding). -/
theorem clash_loses :
    let o := bisync (fun a b => decide (a ≤ b)) (fun a b => decide (a ≥ b)) (fun p c => 1000 + 100 * p + c) s1
    Copia.Bisync.get s1.B 1110 = some 99 ∧ o.status = .conflicts ∧
    o.state.A = [(1, 11), (1110, 10)] ∧ o.state.B = [(1, 11), (1110, 10)] := by
  unfold bisync
  have := plan_s1
  unfold bisyncPlan at this
  simp only [this]
  decide

end Copia.C02
