import Copia.Gen.LoopsTarget
import Copia.Props.C13b
/-! C13 / C04 — the two command-line location parsers, from the source as it is now (`hub.rs::split_target`, `main.rs::FileLocation::parse`;
`s.find(':')` with the two slices around the index read as `Meta.cut`): they ARE the models `Target.splitTarget` / `Target.parseLocation` that
`C13.target_*` and the C04 location section speak about — which argument names a remote host, and where the host ends and the root begins. -/
namespace Copia.C13
open Copia.Target

theorem source_split_target_is_model (t : List Char) : Copia.Gen.Loops.splitTargetGen t = splitTarget t := by
  unfold Copia.Gen.Loops.splitTargetGen splitTarget
  cases hc : Copia.Meta.cut ':' t with
  | none => simp [Id.run, pure]
  | some p =>
    obtain ⟨host, root⟩ := p
    by_cases h1 : host.isEmpty = true
    · simp [Id.run, pure, h1]
    · by_cases h2 : '/' ∈ host
      · simp [Id.run, pure, h1, h2]
      · simp [Id.run, pure, h1, h2]

theorem source_parse_location_is_model (s : List Char) : Copia.Gen.Loops.parseLocationGen s = parseLocation s := by
  unfold Copia.Gen.Loops.parseLocationGen parseLocation
  cases hc : Copia.Meta.cut ':' s with
  | none => simp [Id.run, pure]
  | some p =>
    obtain ⟨before, after⟩ := p
    by_cases h0 : utf8Len before > 1 <;> by_cases h1 : '/' ∈ before <;> by_cases h2 : '\\' ∈ before <;>
      simp [Id.run, pure, h0, h1, h2]


/-- `main.rs::run` (translated: the whole `match cli.command`): which function a parsed command line runs — `sync -r` the recursive run with the
user's `jobs`, `verbose`, `dry_run`, `delete`, `excludes` each under its own name, `sync` the single-file run, `bisync`, `serve`, `hub-sync`,
`signature`, `delta`, `patch` their own function and nothing else. A flag handed on under another name, a command routed elsewhere, a step
added before the dispatch change the translation. -/
theorem source_cli_dispatch (cmd : Nat) (recursive : Bool) :
    Copia.Gen.Loops.cliRunGen cmd recursive =
      match cmd with
      | 0 => if recursive then 0 else 1
      | 1 => 2 | 2 => 3 | 3 => 4 | 4 => 5 | 5 => 6 | _ => 7 := rfl

/-- `sync` reaches the recursive run exactly with `-r`; `hub-sync` runs `hub_sync` -/
theorem source_cli_sync_and_hub_sync (recursive : Bool) :
    (Copia.Gen.Loops.cliRunGen 0 recursive = 0 ↔ recursive = true) ∧ Copia.Gen.Loops.cliRunGen 3 recursive = 4 := by
  cases recursive <;> exact ⟨by decide, rfl⟩

end Copia.C13
