import Copia.Gen.LoopsTarget
import Copia.Props.C13b
/-! C13 / C04 — the two command-line location parsers, from the source as it is now (`hub.rs::split_target`, `main.rs::FileLocation::parse`;
`s.find(':')` with the two slices around the index read as `Meta.cut`): they ARE the models `Target.splitTarget` / `Target.parseLocation` that
`C13.target_*` and the C04 location section speak about — which argument names a remote host, and where the host ends and the root begins. -/
namespace Copia.C13
open Copia.Target

theorem source_split_target_is_model (t : List Char) : Copia.Gen.Loops.splitTargetGen t = splitTarget t := by
  unfold Copia.Gen.Loops.splitTargetGen splitTarget
  cases hc : Copia.Meta.cut ':' t with
  | none => simp [Id.run, pure]
  | some p =>
    obtain ⟨host, root⟩ := p
    by_cases h1 : host.isEmpty = true
    · simp [Id.run, pure, h1]
    · by_cases h2 : '/' ∈ host
      · simp [Id.run, pure, h1, h2]
      · simp [Id.run, pure, h1, h2]

theorem source_parse_location_is_model (s : List Char) : Copia.Gen.Loops.parseLocationGen s = parseLocation s := by
  unfold Copia.Gen.Loops.parseLocationGen parseLocation
  cases hc : Copia.Meta.cut ':' s with
  | none => simp [Id.run, pure]
  | some p =>
    obtain ⟨before, after⟩ := p
    by_cases h0 : utf8Len before > 1 <;> by_cases h1 : '/' ∈ before <;> by_cases h2 : '\\' ∈ before <;>
      simp [Id.run, pure, h0, h1, h2]

end Copia.C13
