import Copia.Lemmas.Codec2
/-!
# C20 — codecs round-trip and reject malformed input without crashing

Model `Copia.Model.Codec` (bincode 1.3 legacy format for `Message`/`Signature`/`Delta`, `FrameHeader`,
`Codec`, CLI front ends). Decoders are total functions `Bytes → Option _` ("a value or an error" for
arbitrary bytes is by construction); the theorems below are the round trips, the header layout and
rejection rules, the allocation bound and the CLI no-panic statement.
-/
namespace Copia.C20
open Copia Copia.Codec

/-- C20: a message of any of the seven kinds, with any field values its Rust type can hold,
decodes back to itself — also with trailing bytes (legacy bincode allows them). -/
theorem message_roundtrip (utf8 : Bytes → Bool) (m : Message) (rest : Bytes) (h : WFMsg utf8 m) :
    rdMsg utf8 (encMsg m ++ rest) = some (m, rest) ∧ decodeMsg utf8 (encMsg m) = some m := by
  refine ⟨rdMsg_enc utf8 m rest h, ?_⟩
  have := rdMsg_enc utf8 m [] h
  rw [List.append_nil] at this
  simp [decodeMsg, this]

/-- C20: the files the CLI writes (`bincode::serialize` of a `Signature` / `Delta`) read back. -/
theorem signature_file_roundtrip (s : SignatureW) (h : WFSig s) : decodeSig (encSig s) = some s := by
  have := rdSig_enc s [] h
  rw [List.append_nil] at this
  simp [decodeSig, this]

theorem delta_file_roundtrip (d : DeltaW) (h : WFDelta d) : decodeDelta (encDelta d) = some d := by
  have := rdDelta_enc d [] h
  rw [List.append_nil] at this
  simp [decodeDelta, this]

/-- a header as `FrameHeader::new` builds it for a legal type and a `u32` length -/
def GoodHeader (h : FrameHeader) : Prop :=
  h.magic = Gen.protocolMagic ∧ h.version = Gen.protocolVersion ∧ validType h.msgType = true ∧
  h.length ≤ Gen.maxPayloadSize ∧ h.flags < 256 ^ 2

theorem encode_length (h : FrameHeader) (hm : h.magic.length = 4) : h.encode.length = 12 := by
  unfold FrameHeader.encode
  simp [le_length, hm]

theorem le4_ofLe (n : Nat) (h : n < 4294967296) :
    n % 256 + 256 * (n / 256 % 256 + 256 * (n / 256 / 256 % 256 + 256 * (n / 256 / 256 / 256 % 256 + 256 * 0))) = n := by
  omega

theorem le2_ofLe (n : Nat) (h : n < 65536) : n % 256 + 256 * (n / 256 % 256 + 256 * 0) = n := by omega

/-- C20 (header round trip). -/
theorem header_roundtrip (h : FrameHeader) (g : GoodHeader h) : FrameHeader.decode h.encode = some h := by
  obtain ⟨h1, h2, h3, h4, h5⟩ := g
  obtain ⟨magic, length, msgType, version, flags⟩ := h
  simp only at h1 h2 h3 h4 h5
  subst h1 h2
  have hlen : length < 4294967296 := by
    have : Gen.maxPayloadSize = 16777216 := rfl
    omega
  have hfl : flags < 65536 := h5
  have hng : ¬ length > Gen.maxPayloadSize := by omega
  simp only [FrameHeader.decode, FrameHeader.encode, Gen.protocolMagic, Gen.protocolVersion,
    Gen.frameHeaderSize, le, List.take, List.drop, List.cons_append, List.nil_append, List.length_cons,
    List.length_nil, ofLe, List.headD, ne_eq, not_true_eq_false, if_false, h3, Bool.not_true,
    Bool.false_eq_true, hng, le4_ofLe length hlen, le2_ofLe flags hfl]

/-- C20 (header layout): an encoded header begins with `COPA`, carries version 1 at byte 9 and the
little-endian payload length in bytes 4..8. -/
theorem header_layout (t len : Nat) (hl : len < 256 ^ 4) :
    let b := (FrameHeader.new t len).encode
    b.take 4 = [67, 79, 80, 65] ∧ (b.drop 9).headD 0 = 1 ∧ ofLe ((b.drop 4).take 4) = len ∧ b.length = 12 := by
  simp only [FrameHeader.new, FrameHeader.encode, Gen.protocolMagic, Gen.protocolVersion]
  refine ⟨by simp, by simp [le_length], ?_, by simp [le_length]⟩
  have : (List.drop 4 (List.take 4 [67, 79, 80, 65] ++ le 4 len ++ [t, 1] ++ le 2 0)).take 4 = le 4 len := by
    simp [le_length]
  rw [this, ofLe_le 4 len hl]

/-- C20 (rejection): whatever 12 bytes are presented, a header is accepted only with the right
magic, version 1, a known type code and a length within the 16 MiB bound. -/
theorem header_reject (b : Bytes) (h : FrameHeader) (hd : FrameHeader.decode b = some h) :
    h.magic = [67, 79, 80, 65] ∧ h.version = 1 ∧ h.msgType ∈ [1, 2, 3, 4, 5, 6, 7] ∧ h.length ≤ 16777216 := by
  unfold FrameHeader.decode at hd
  split at hd
  · cases hd
  · simp only [] at hd
    split at hd
    · cases hd
    · next hv =>
      split at hd
      · cases hd
      · next hm =>
        split at hd
        · cases hd
        · next hver =>
          split at hd
          · cases hd
          · next hl =>
            simp only [Option.some.injEq] at hd
            subst hd
            have hv2 : validType ((List.drop 8 b).headD 0) = true := by
              cases hvt : validType ((List.drop 8 b).headD 0)
              · rw [hvt] at hv; exact absurd rfl hv
              · rfl
            simp only [Gen.protocolMagic, Gen.protocolVersion, Gen.maxPayloadSize] at *
            refine ⟨by simpa using hm, by simpa using hver, ?_, by omega⟩
            exact List.mem_of_elem_eq_true hv2

/-- C20 (allocation bound of the framed reader): the one explicit allocation, `read_buf.resize(header.length)`,
never exceeds the 16 MiB payload bound, for arbitrary input bytes. -/
theorem read_alloc_bound (utf8 : Bytes → Bool) (inp : Bytes) (m : Message) (r : Bytes) (a : Nat)
    (h : readMessage utf8 inp = some (m, r, a)) : a ≤ 16777216 := by
  unfold readMessage at h
  split at h
  · cases h
  · split at h
    · cases h
    · next hb rr hh hdec =>
      split at h
      · cases h
      · next payload r' hp =>
        cases hm : decodeMsg utf8 payload with
        | none => simp [hm] at h
        | some m' =>
          simp only [hm, Option.map_some, Option.some.injEq, Prod.mk.injEq] at h
          obtain ⟨_, _, rfl⟩ := h
          exact (header_reject _ hh hdec).2.2.2

/-- C20 (framed codec round trip): what `write_message` produced, `read_message` reads back, leaving
the rest of the stream untouched. -/
theorem codec_roundtrip (utf8 : Bytes → Bool) (m : Message) (rest framed : Bytes) (hwf : WFMsg utf8 m)
    (hw : writeMessage m = some framed) :
    readMessage utf8 (framed ++ rest) = some (m, rest, (encMsg m).length) := by
  unfold writeMessage at hw
  simp only [] at hw
  split at hw
  · cases hw
  · next hsz =>
    simp only [Option.some.injEq] at hw
    subst hw
    have hgood : GoodHeader (FrameHeader.new (msgType m) (encMsg m).length) := by
      refine ⟨rfl, rfl, ?_, ?_, ?_⟩
      · cases m <;> rfl
      · show (encMsg m).length ≤ Gen.maxPayloadSize
        omega
      · show (0 : Nat) < 256 ^ 2
        decide
    have hm4 : (FrameHeader.new (msgType m) (encMsg m).length).magic.length = 4 := rfl
    unfold readMessage
    rw [List.append_assoc, rdN_append' 12 _ _ (encode_length _ hm4)]
    simp only []
    rw [header_roundtrip _ hgood]
    simp only []
    have : (FrameHeader.new (msgType m) (encMsg m).length).length = (encMsg m).length := rfl
    rw [this, rdN_append]
    simp only []
    rw [(message_roundtrip utf8 m [] hwf).2]
    rfl

/-- C20 (CLI): `copia delta` / `copia patch` given ANY bytes as the signature / delta file never
reach the asserting constructor with an invalid block size — the outcome is `ok` or a reported
`error`, never `panic`. -/
theorem cli_no_panic (file : Bytes) : cliDeltaFront file ≠ .panic ∧ cliPatchFront file ≠ .panic := by
  constructor
  · unfold cliDeltaFront
    split
    · decide
    · split
      · next hv => simp [withBlockSize, hv]
      · decide
  · unfold cliPatchFront
    split
    · decide
    · split
      · next hv => simp [withBlockSize, hv]
      · decide

/-- C20 (unknown type): the codes `MessageType::from_u8` accepts (its match arms, regenerated from
protocol.rs on every run; any other shape of that function is an extraction error) are exactly the
enum's discriminants, which is the set `validType` tests — so a type byte is accepted iff it is one
of them, and every other byte value is an error. -/
theorem from_u8_accepts_exactly_the_enum : Copia.Gen.fromU8Arms = Copia.Gen.msgTypeCodes := by decide

/-! Non-vacuity: concrete well-formed values of the composite kinds. -/
def sampleDelta : DeltaW :=
  { blockSize := 2048, sourceSize := 5, basisSize := 9, ops := [OpW.copy 0 4, OpW.literal [1]],
    checksum := List.replicate 32 0 }
example : WFMsg (fun _ => true) (.deltaData 7 sampleDelta) := by
  refine ⟨by decide, by decide, by decide, by decide, by decide, ?_, by decide⟩
  intro op hop
  simp [sampleDelta] at hop
  rcases hop with rfl | rfl <;> simp [WFOp]
example : decodeMsg (fun _ => true) (encMsg (.ack 1 true (some [104, 105]))) = some (.ack 1 true (some [104, 105])) := by decide

end Copia.C20
