import Copia.Lemmas.Hub1
import Copia.Lemmas.Meta1
/-!
# C11 — a hub client can never reach outside the served directory

`safe_join` (Rust `Path::components` semantics) against the kernel's lexical resolution of the
joined string (`osResolve`): every path a handler passes to the file system — the destination, its
staging name, its conflict-copy name — resolves under the served root. Served tree without symlinks.
-/
namespace Copia.C11
open Copia.Hub

/-- C11: an accepted request path, joined onto the root, resolves **under the root**. -/
theorem under_root (root rel q : List Char) (h : safeJoinPath root rel = some q) :
    osResolve root <+: osResolve q := by
  obtain ⟨rfl, _, hdd⟩ := accepted_no_dotdot root rel q h
  unfold osResolve
  rw [splitSlash_join, osWalk_append]
  exact osWalk_prefix _ hdd _

/-- appending a suffix without `/` to a path string only changes its last part -/
theorem splitSlash_suffix (p suf : List Char) (hs : '/' ∉ suf) :
    ∃ init last, splitSlash p = init ++ [last] ∧ splitSlash (p ++ suf) = init ++ [last ++ suf] := by
  induction p with
  | nil =>
    refine ⟨[], [], by simp [splitSlash], ?_⟩
    simp only [List.nil_append]
    induction suf with
    | nil => simp [splitSlash]
    | cons c cs ih =>
      have hc : c ≠ '/' := fun e => hs (e ▸ List.mem_cons_self ..)
      have hcs : '/' ∉ cs := fun hm => hs (List.mem_cons_of_mem _ hm)
      rw [splitSlash, ih hcs]
      simp [hc]
  | cons c cs ih =>
    obtain ⟨init, last, h1, h2⟩ := ih
    simp only [List.cons_append]
    rw [splitSlash, splitSlash, h1, h2]
    cases init with
    | nil =>
      simp only [List.nil_append]
      by_cases hc : c = '/'
      · exact ⟨[[]], last, by simp [hc], by simp [hc]⟩
      · exact ⟨[], c :: last, by simp [hc], by simp [hc]⟩
    | cons x t =>
      simp only [List.cons_append]
      by_cases hc : c = '/'
      · exact ⟨[] :: x :: t, last, by simp [hc], by simp [hc]⟩
      · exact ⟨(c :: x) :: t, last, by simp [hc], by simp [hc]⟩

/-- C11: the staging name and the conflict-copy name of an accepted destination (formed by
appending to the path *string*) also resolve under the root — the appended suffix has no `/` and is
longer than two characters, so the last component can neither vanish nor become `..`. -/
theorem suffixed_under_root (root rel q suf : List Char) (h : safeJoinPath root rel = some q)
    (hs : '/' ∉ suf) (hl : 2 < suf.length) : osResolve root <+: osResolve (q ++ suf) := by
  obtain ⟨rfl, _, hdd⟩ := accepted_no_dotdot root rel q h
  have e : root ++ '/' :: rel ++ suf = root ++ '/' :: (rel ++ suf) := by simp
  rw [e]
  unfold osResolve
  rw [splitSlash_join, osWalk_append]
  apply osWalk_prefix
  obtain ⟨init, last, h1, h2⟩ := splitSlash_suffix rel suf hs
  rw [h2]
  rw [h1] at hdd
  intro hm
  rcases List.mem_append.mp hm with hm | hm
  · exact hdd (List.mem_append_left _ hm)
  · simp only [List.mem_singleton] at hm
    have : (last ++ suf).length = 2 := by rw [← hm]; rfl
    simp at this; omega

theorem staging_under_root (root rel q : List Char) (h : safeJoinPath root rel = some q) :
    osResolve root <+: osResolve (tmpOf q) := by
  unfold tmpOf
  exact suffixed_under_root root rel q _ h (by decide) (by decide)

theorem conflict_copy_under_root (root rel q short : List Char) (h : safeJoinPath root rel = some q)
    (hs : '/' ∉ short) : osResolve root <+: osResolve (cnameOf q short) := by
  unfold cnameOf
  rw [List.append_assoc]
  apply suffixed_under_root root rel q _ h
  · intro hm
    rcases List.mem_append.mp hm with hm | hm
    · revert hm; decide
    · exact hs hm
  · simp

/-- `-N` suffixes contain no `/` -/
theorem ccSuffix_no_slash (n : Nat) : '/' ∉ ccSuffix n := by
  unfold ccSuffix
  split
  · simp
  · intro hm
    rcases List.mem_cons.mp hm with e | hm
    · revert e; decide
    · obtain ⟨d, hd, hc⟩ := Copia.Meta.decimal_all n _ hm
      have : d = 0 ∨ d = 1 ∨ d = 2 ∨ d = 3 ∨ d = 4 ∨ d = 5 ∨ d = 6 ∨ d = 7 ∨ d = 8 ∨ d = 9 := by omega
      rcases this with rfl | rfl | rfl | rfl | rfl | rfl | rfl | rfl | rfl | rfl <;> revert hc <;> decide

/-- whatever the tree holds, the name the hub picks for a conflict copy is `<p>.conflict-<short>` or that with a `-N` suffix -/
theorem ccPick_form {H} [DecidableEq H] (hash : Bytes → H) (t : HTree) (p short : List Char) (h : H) :
    ∀ (fuel n : Nat), ∃ m, ccPick hash t p short h fuel n = cnameOf p (short ++ ccSuffix m)
  | 0, n => ⟨n, rfl⟩
  | fuel+1, n => by
    unfold ccPick
    simp only []
    split
    · exact ccPick_form hash t p short h fuel (n+1)
    · exact ⟨n, rfl⟩

/-- C11: the conflict-copy name the (repaired) hub picks stays under the root, for every tree -/
theorem picked_conflict_copy_under_root {H} [DecidableEq H] (hash : Bytes → H) (t : HTree)
    (root rel q short : List Char) (hh : H) (h : safeJoinPath root rel = some q) (hs : '/' ∉ short) (fuel n : Nat) :
    osResolve root <+: osResolve (ccPick hash t q short hh fuel n) := by
  obtain ⟨m, e⟩ := ccPick_form hash t q short hh fuel n
  rw [e]
  apply conflict_copy_under_root root rel q _ h
  intro hm
  rcases List.mem_append.mp hm with hm | hm
  · exact hs hm
  · exact ccSuffix_no_slash m hm

/-- the picked name is free or holds the same hash — unless the fuel ran out (every one of `fuel + 1` names was
taken by other content; with fuel = tree size + 1 that cannot happen on a real tree) -/
theorem ccPick_free_or_exhausted {H} [DecidableEq H] (hash : Bytes → H) (t : HTree) (p short : List Char) (h : H) :
    ∀ (fuel n : Nat),
      (let k := osResolve (ccPick hash t p short h fuel n)
       occupied t k = false ∨ (hget t k).map hash = some h) ∨
      (∀ j, j ≤ fuel → occupied t (osResolve (cnameOf p (short ++ ccSuffix (n + j)))) = true ∧
        (hget t (osResolve (cnameOf p (short ++ ccSuffix (n + j))))).map hash ≠ some h)
  | 0, n => by
    by_cases hc : occupied t (osResolve (cnameOf p (short ++ ccSuffix n))) = true ∧
        (hget t (osResolve (cnameOf p (short ++ ccSuffix n)))).map hash ≠ some h
    · right; intro j hj; have : j = 0 := by omega
      subst this; simpa using hc
    · left
      simp only [ccPick]
      by_cases ho : occupied t (osResolve (cnameOf p (short ++ ccSuffix n))) = true
      · right
        apply Classical.byContradiction
        intro hne; exact hc ⟨ho, hne⟩
      · left; simpa using ho
  | fuel+1, n => by
    unfold ccPick
    simp only []
    split
    · next hcond =>
      simp only [Bool.and_eq_true, decide_eq_true_eq] at hcond
      rcases ccPick_free_or_exhausted hash t p short h fuel (n+1) with ok | ex
      · exact Or.inl ok
      · right
        intro j hj
        cases j with
        | zero => simpa using hcond
        | succ j =>
          have := ex j (by omega)
          rw [show n + 1 + j = n + (j + 1) by omega] at this
          exact this
    · next hcond =>
      left
      simp only [Bool.and_eq_true, decide_eq_true_eq, not_and, Classical.not_not] at hcond
      by_cases ho : occupied t (osResolve (cnameOf p (short ++ ccSuffix n))) = true
      · right; exact hcond ho
      · left; simpa using ho

/-- C11 (refusal): a path is refused exactly when it is absolute or has a `..` component. -/
theorem refused_iff (root rel : List Char) :
    safeJoinPath root rel = none ↔ rel.head? = some '/' ∨ dotdot ∈ splitSlash rel := by
  constructor
  · intro h
    by_cases hh : rel.head? = some '/'
    · exact Or.inl hh
    · right
      unfold safeJoinPath at h
      simp only [hh, if_false] at h
      split at h
      · next hany =>
        simp only [List.any_eq_true, decide_eq_true_eq] at hany
        obtain ⟨c, hc, hk⟩ := hany
        unfold components at hc
        split at hc
        · next c' t => simp at hh
        · split at hc
          · next t hsp =>
            rw [hsp]
            rcases List.mem_cons.mp hc with e | e
            · subst e; rcases hk with hk | hk <;> cases hk
            · rcases hk with hk | hk
              · subst hk; exact List.mem_cons_of_mem _ ((bodyComps_parent t).mp e)
              · subst hk
                exfalso
                clear hsp hc
                induction t with
                | nil => simp [bodyComps] at e
                | cons x r ih =>
                  unfold bodyComps at e
                  split at e
                  · exact ih e
                  · split at e
                    · rcases List.mem_cons.mp e with e' | e'
                      · cases e'
                      · exact ih e'
                    · rcases List.mem_cons.mp e with e' | e'
                      · cases e'
                      · exact ih e'
          · rcases hk with hk | hk
            · subst hk; exact (bodyComps_parent _).mp hc
            · subst hk
              exfalso
              generalize splitSlash rel = parts at hc
              induction parts with
              | nil => simp [bodyComps] at hc
              | cons x r ih =>
                unfold bodyComps at hc
                split at hc
                · exact ih hc
                · split at hc
                  · rcases List.mem_cons.mp hc with e' | e'
                    · cases e'
                    · exact ih e'
                  · rcases List.mem_cons.mp hc with e' | e'
                    · cases e'
                    · exact ih e'
      · cases h
  · rintro (hh | hdd)
    · simp [safeJoinPath, hh]
    · cases hsj : safeJoinPath root rel with
      | none => rfl
      | some q => exact absurd hdd (accepted_no_dotdot root rel q hsj).2.2

/-! ## The repaired `safe_join`: the path guard plus the control directory -/

theorem safeJoin_some (root rel q : List Char) (h : safeJoin root rel = some q) : safeJoinPath root rel = some q := by
  unfold safeJoin at h
  split at h
  · cases h
  · exact h

/-- C11: whatever the hub accepts resolves under the served root -/
theorem accepted_under_root (root rel q : List Char) (h : safeJoin root rel = some q) :
    osResolve root <+: osResolve q := under_root root rel q (safeJoin_some root rel q h)

/-- C11: … and so do its staging name and every conflict-copy name the hub may pick -/
theorem accepted_staging_under_root (root rel q : List Char) (h : safeJoin root rel = some q) :
    osResolve root <+: osResolve (tmpOf q) := staging_under_root root rel q (safeJoin_some root rel q h)

theorem accepted_conflict_copy_under_root {H} [DecidableEq H] (hash : Bytes → H) (t : HTree)
    (root rel q short : List Char) (hh : H) (h : safeJoin root rel = some q) (hs : '/' ∉ short) (fuel n : Nat) :
    osResolve root <+: osResolve (ccPick hash t q short hh fuel n) :=
  picked_conflict_copy_under_root hash t root rel q short hh (safeJoin_some root rel q h) hs fuel n

/-- C11 (refusal, repaired hub): a path is refused exactly when it is absolute, has a `..` component, or
its first name is the control directory `.copia` -/
theorem refused_iff' (root rel : List Char) :
    safeJoin root rel = none ↔ rel.head? = some '/' ∨ dotdot ∈ splitSlash rel ∨ reservedFirst rel = true := by
  unfold safeJoin
  split
  · next hr => simp [hr]
  · next hr =>
    rw [refused_iff]
    constructor
    · rintro (h | h)
      · exact Or.inl h
      · exact Or.inr (Or.inl h)
    · rintro (h | h | h)
      · exact Or.inl h
      · exact Or.inr h
      · exact absurd h hr

/-! Non-vacuity -/
example : safeJoin "/srv/hub".toList ".copia/commit.lock".toList = none ∧ safeJoin "/srv/hub".toList "./.copia//x".toList = none ∧
    safeJoin "/srv/hub".toList ".copia-notes/x".toList = some "/srv/hub/.copia-notes/x".toList ∧
    safeJoin "/srv/hub".toList "d/.copia/x".toList = some "/srv/hub/d/.copia/x".toList := by decide
example : safeJoinPath "/srv/hub".toList "a//b/./c".toList = some "/srv/hub/a//b/./c".toList := by decide
example : safeJoinPath "/srv/hub".toList "a/../../x".toList = none ∧ safeJoinPath "/srv/hub".toList "/etc/passwd".toList = none := by decide
example : osResolve "/srv/hub/a//b/./c".toList = ["srv".toList, "hub".toList, "a".toList, "b".toList, "c".toList] := by decide

end Copia.C11
