import Copia.Lemmas.Hub1
/-!
# C11 — a hub client can never reach outside the served directory

`safe_join` (Rust `Path::components` semantics) against the kernel's lexical resolution of the
joined string (`osResolve`): every path a handler passes to the file system — the destination, its
staging name, its conflict-copy name — resolves under the served root. Served tree without symlinks.
-/
namespace Copia.C11
open Copia.Hub

/-- C11: an accepted request path, joined onto the root, resolves **under the root**. -/
theorem under_root (root rel q : List Char) (h : safeJoin root rel = some q) :
    osResolve root <+: osResolve q := by
  obtain ⟨rfl, _, hdd⟩ := accepted_no_dotdot root rel q h
  unfold osResolve
  rw [splitSlash_join, osWalk_append]
  exact osWalk_prefix _ hdd _

/-- appending a suffix without `/` to a path string only changes its last part -/
theorem splitSlash_suffix (p suf : List Char) (hs : '/' ∉ suf) :
    ∃ init last, splitSlash p = init ++ [last] ∧ splitSlash (p ++ suf) = init ++ [last ++ suf] := by
  induction p with
  | nil =>
    refine ⟨[], [], by simp [splitSlash], ?_⟩
    simp only [List.nil_append]
    induction suf with
    | nil => simp [splitSlash]
    | cons c cs ih =>
      have hc : c ≠ '/' := fun e => hs (e ▸ List.mem_cons_self ..)
      have hcs : '/' ∉ cs := fun hm => hs (List.mem_cons_of_mem _ hm)
      rw [splitSlash, ih hcs]
      simp [hc]
  | cons c cs ih =>
    obtain ⟨init, last, h1, h2⟩ := ih
    simp only [List.cons_append]
    rw [splitSlash, splitSlash, h1, h2]
    cases init with
    | nil =>
      simp only [List.nil_append]
      by_cases hc : c = '/'
      · exact ⟨[[]], last, by simp [hc], by simp [hc]⟩
      · exact ⟨[], c :: last, by simp [hc], by simp [hc]⟩
    | cons x t =>
      simp only [List.cons_append]
      by_cases hc : c = '/'
      · exact ⟨[] :: x :: t, last, by simp [hc], by simp [hc]⟩
      · exact ⟨(c :: x) :: t, last, by simp [hc], by simp [hc]⟩

/-- C11: the staging name and the conflict-copy name of an accepted destination (formed by
appending to the path *string*) also resolve under the root — the appended suffix has no `/` and is
longer than two characters, so the last component can neither vanish nor become `..`. -/
theorem suffixed_under_root (root rel q suf : List Char) (h : safeJoin root rel = some q)
    (hs : '/' ∉ suf) (hl : 2 < suf.length) : osResolve root <+: osResolve (q ++ suf) := by
  obtain ⟨rfl, _, hdd⟩ := accepted_no_dotdot root rel q h
  have e : root ++ '/' :: rel ++ suf = root ++ '/' :: (rel ++ suf) := by simp
  rw [e]
  unfold osResolve
  rw [splitSlash_join, osWalk_append]
  apply osWalk_prefix
  obtain ⟨init, last, h1, h2⟩ := splitSlash_suffix rel suf hs
  rw [h2]
  rw [h1] at hdd
  intro hm
  rcases List.mem_append.mp hm with hm | hm
  · exact hdd (List.mem_append_left _ hm)
  · simp only [List.mem_singleton] at hm
    have : (last ++ suf).length = 2 := by rw [← hm]; rfl
    simp at this; omega

theorem staging_under_root (root rel q : List Char) (h : safeJoin root rel = some q) :
    osResolve root <+: osResolve (tmpOf q) := by
  unfold tmpOf
  exact suffixed_under_root root rel q _ h (by decide) (by decide)

theorem conflict_copy_under_root (root rel q short : List Char) (h : safeJoin root rel = some q)
    (hs : '/' ∉ short) : osResolve root <+: osResolve (cnameOf q short) := by
  unfold cnameOf
  rw [List.append_assoc]
  apply suffixed_under_root root rel q _ h
  · intro hm
    rcases List.mem_append.mp hm with hm | hm
    · revert hm; decide
    · exact hs hm
  · simp

/-- C11 (refusal): a path is refused exactly when it is absolute or has a `..` component. -/
theorem refused_iff (root rel : List Char) :
    safeJoin root rel = none ↔ rel.head? = some '/' ∨ dotdot ∈ splitSlash rel := by
  constructor
  · intro h
    by_cases hh : rel.head? = some '/'
    · exact Or.inl hh
    · right
      unfold safeJoin at h
      simp only [hh, if_false] at h
      split at h
      · next hany =>
        simp only [List.any_eq_true, decide_eq_true_eq] at hany
        obtain ⟨c, hc, hk⟩ := hany
        unfold components at hc
        split at hc
        · next c' t => simp at hh
        · split at hc
          · next t hsp =>
            rw [hsp]
            rcases List.mem_cons.mp hc with e | e
            · subst e; rcases hk with hk | hk <;> cases hk
            · rcases hk with hk | hk
              · subst hk; exact List.mem_cons_of_mem _ ((bodyComps_parent t).mp e)
              · subst hk
                exfalso
                clear hsp hc
                induction t with
                | nil => simp [bodyComps] at e
                | cons x r ih =>
                  unfold bodyComps at e
                  split at e
                  · exact ih e
                  · split at e
                    · rcases List.mem_cons.mp e with e' | e'
                      · cases e'
                      · exact ih e'
                    · rcases List.mem_cons.mp e with e' | e'
                      · cases e'
                      · exact ih e'
          · rcases hk with hk | hk
            · subst hk; exact (bodyComps_parent _).mp hc
            · subst hk
              exfalso
              generalize splitSlash rel = parts at hc
              induction parts with
              | nil => simp [bodyComps] at hc
              | cons x r ih =>
                unfold bodyComps at hc
                split at hc
                · exact ih hc
                · split at hc
                  · rcases List.mem_cons.mp hc with e' | e'
                    · cases e'
                    · exact ih e'
                  · rcases List.mem_cons.mp hc with e' | e'
                    · cases e'
                    · exact ih e'
      · cases h
  · rintro (hh | hdd)
    · simp [safeJoin, hh]
    · cases hsj : safeJoin root rel with
      | none => rfl
      | some q => exact absurd hdd (accepted_no_dotdot root rel q hsj).2.2

/-! Non-vacuity -/
example : safeJoin "/srv/hub".toList "a//b/./c".toList = some "/srv/hub/a//b/./c".toList := by decide
example : safeJoin "/srv/hub".toList "a/../../x".toList = none ∧ safeJoin "/srv/hub".toList "/etc/passwd".toList = none := by decide
example : osResolve "/srv/hub/a//b/./c".toList = ["srv".toList, "hub".toList, "a".toList, "b".toList, "c".toList] := by decide

end Copia.C11
