import Copia.Lemmas.ReconcileTable
import Copia.Props.C18
import Copia.Model.Bisync
import Copia.Lemmas.Bisync12
/-!
# C06 — bisync converges, records what it did, and is idempotent

Whole-run theorems for `Bisync.bisync`, for every pair of trees and every archive, under
`NoNameClash` (no conflict-copy name written by the run is a live path or another entry's name —
without it the statements are false of model and code alike, D10, reported as known findings):
`converges` (the run completes; afterwards both sides hold the same content at every path and the
archive records exactly that tree) and `second_run_noop` (the next run plans nothing, reports no
conflict and leaves both trees as they are). Decision-level theorems for all maps: a converged pair
with a matching record plans nothing, and swapping the roots mirrors the plan. The model is tied to
the real binary by the history correspondence and the C06 oracles (convergence, archive = tree,
idempotence probe, mtime scrambling, root swap) of `./check C06`.
-/
namespace Copia.C06
open Copia.Reconcile Copia.Bisync Copia.C18

variable {P C : Type} [DecidableEq P] [DecidableEq C]

/-- C06 (idempotence of the plan): when both sides hold the same thing at every path and the record
says the same, the next run plans no action at all. -/
theorem converged_plan_empty (le : P → P → Bool) (a b base : List (P × Fp C))
    (h : ∀ p, lookup b p = lookup a p ∧ (p ∈ a.map (·.1) → lookup base p = lookup a p)) :
    reconcile le a b base true = [] := by
  apply List.eq_nil_iff_forall_not_mem.mpr
  rintro ⟨p, act⟩ hm
  obtain ⟨hk, rfl, hne⟩ := (mem_reconcile le a b base true p _).mp hm
  have hb := (h p).1
  have hka : p ∈ a.map (·.1) := by
    rcases hk with hk | hk
    · exact hk
    · have : (lookup b p).isSome := (lookup_isSome_iff b p).mpr hk
      rw [hb] at this
      exact (lookup_isSome_iff a p).mp this
  have hz := (h p).2 hka
  apply hne
  simp only [if_true, hb, hz]
  cases hl : lookup a p with
  | none => rfl
  | some v => simp [reconcilePath, Fp.same_eq_decide]

/-- C06 (argument order): naming the roots the other way round mirrors every decision. -/
theorem swap_plan (le : P → P → Bool) (a b base : List (P × Fp C)) (t : Bool) (p : P) (act : Action) :
    (p, act) ∈ reconcile le b a base t ↔ (p, swapAct act) ∈ reconcile le a b base t := by
  rw [mem_reconcile, mem_reconcile]
  have hsw : ∀ x, swapAct (swapAct x) = x := by intro x; cases x <;> rfl
  have hno : ∀ x, swapAct x = .noop ↔ x = .noop := by intro x; cases x <;> simp [swapAct]
  constructor
  · rintro ⟨hk, he, hne⟩
    refine ⟨hk.symm, ?_, fun h => hne ((hno act).mp h)⟩
    rw [he, mirror]; rw [hsw]
  · rintro ⟨hk, he, hne⟩
    refine ⟨hk.symm, ?_, fun h => hne ((hno act).mpr h)⟩
    rw [mirror, ← he, hsw]

/-- C06 (whole run, all trees, all archives, under NoNameClash): the run completes without an I/O
stop; afterwards A and B hold the same content at every path, and the archive it writes records
exactly that tree (path ↦ fingerprint of the content now on both sides, nothing else). -/
theorem converges (le : P → P → Bool)
    (trans : ∀ a b c, le a b → le b c → le a c) (total : ∀ a b, le a b || le b a)
    (antisymm : ∀ a b, le a b → le b a → a = b) (ge : C → C → Bool) (cname : P → C → P) (s : State P C)
    (nnc : NoNameClash ge cname s.A s.B (bisyncPlan le s)) :
    (bisync le ge cname s).status ≠ .ioError ∧
    (∀ q, get (bisync le ge cname s).state.A q = get (bisync le ge cname s).state.B q) ∧
    ∃ m, (bisync le ge cname s).state.arch = some m ∧
      ∀ q, lookup m q = (get (bisync le ge cname s).state.A q).map mkFp := by
  obtain ⟨hact, _, _, hrest⟩ := plan_facts le trans total antisymm s
  obtain ⟨l, n, hrun, inv, ainv⟩ := bisync_run le trans total antisymm ge cname s nnc
  rw [bisync_of_run le ge cname s l n hrun]
  refine ⟨by simp only []; split <;> simp, ?_, l.common, rfl, ?_⟩
  · exact runInv_converged ge cname s.A s.B (baseOf s) _ l hact hrest inv
  · exact arch_eq_tree le trans total antisymm ge cname s l inv ainv

/-- C06 (idempotence, whole run): after a run under NoNameClash, the next run plans nothing, reports
no conflict, and leaves both trees exactly as they are. -/
theorem second_run_noop (le : P → P → Bool)
    (trans : ∀ a b c, le a b → le b c → le a c) (total : ∀ a b, le a b || le b a)
    (antisymm : ∀ a b, le a b → le b a → a = b) (ge : C → C → Bool) (cname : P → C → P) (s : State P C)
    (nnc : NoNameClash ge cname s.A s.B (bisyncPlan le s)) :
    let o := bisync le ge cname s
    bisyncPlan le o.state = [] ∧
    (bisync le ge cname o.state).status = .ok ∧
    (bisync le ge cname o.state).state.A = o.state.A ∧ (bisync le ge cname o.state).state.B = o.state.B := by
  intro o
  obtain ⟨_, hconv, m, hm, harch⟩ := converges le trans total antisymm ge cname s nnc
  have hplan : bisyncPlan le o.state = [] := by
    unfold bisyncPlan
    show reconcile le (scan o.state.A) (scan o.state.B) (o.state.arch.getD []) o.state.arch.isSome = []
    have e1 : o.state.arch = some m := hm
    rw [e1]
    apply converged_plan_empty
    intro p
    refine ⟨?_, fun _ => ?_⟩
    · rw [lookup_scan, lookup_scan]; exact congrArg _ (hconv p).symm
    · rw [lookup_scan]; exact harch p
  have hrun : applyAllPartial ge cname (scan o.state.A) (scan o.state.B) (bisyncPlan le o.state)
      { A := o.state.A, B := o.state.B, common := common0 o.state } 0 =
      ({ A := o.state.A, B := o.state.B, common := common0 o.state }, 0, true) := by
    rw [hplan]; rfl
  rw [bisync_of_run le ge cname o.state _ 0 hrun]
  exact ⟨hplan, rfl, rfl, rfl⟩

/-- C06 (conflict outcome, whole run under NoNameClash): a divergent edit — both sides hold the path
with different contents and neither equals the recorded base — resolves on BOTH sides to the winner
(`ge` = greater BLAKE3) at the path and the loser at `cname path loser`
(`<path>.conflict-<host>-<first 12 hex of the loser's hash>`). -/
theorem conflict_outcome (le : P → P → Bool)
    (trans : ∀ a b c, le a b → le b c → le a c) (total : ∀ a b, le a b || le b a)
    (antisymm : ∀ a b, le a b → le b a → a = b) (ge : C → C → Bool) (cname : P → C → P) (s : State P C)
    (nnc : NoNameClash ge cname s.A s.B (bisyncPlan le s))
    (p : P) (xa yb : C) (hA : get s.A p = some xa) (hB : get s.B p = some yb) (hne : xa ≠ yb)
    (h1 : baseOf s p ≠ some (mkFp xa)) (h2 : baseOf s p ≠ some (mkFp yb)) :
    get (bisync le ge cname s).state.A p = some (winner ge xa yb) ∧
    get (bisync le ge cname s).state.B p = some (winner ge xa yb) ∧
    get (bisync le ge cname s).state.A (cname p (loser ge xa yb)) = some (loser ge xa yb) ∧
    get (bisync le ge cname s).state.B (cname p (loser ge xa yb)) = some (loser ge xa yb) := by
  obtain ⟨l, n, hrun, inv, _⟩ := bisync_run le trans total antisymm ge cname s nnc
  rw [bisync_of_run le ge cname s l n hrun]
  have hdec := both_changed_decision xa yb (baseOf s p) hne h1 h2
  have hm : (p, Action.conflict .bothChanged) ∈ bisyncPlan le s := by
    unfold bisyncPlan
    rw [mem_reconcile]
    refine ⟨Or.inl ?_, ?_, by simp⟩
    · apply (lookup_isSome_iff (scan s.A) p).mp
      rw [lookup_scan, hA]; rfl
    · rw [lookup_scan, lookup_scan, hA, hB]
      exact hdec.symm
  obtain ⟨pa, pb⟩ := inv.atPath p _ hm
  have hcc : ccName ge cname p (.conflict .bothChanged) (get s.A p) (get s.B p) = some (cname p (loser ge xa yb)) := by
    rw [hA, hB]; rfl
  obtain ⟨xa', yb', e1, e2, ca, cb⟩ := inv.atCopy p _ _ hm hcc
  rw [hA] at e1; rw [hB] at e2; cases e1; cases e2
  rw [hA, hB] at pa pb
  exact ⟨by simpa [resolve] using pa, by simpa [resolve] using pb, ca, cb⟩


theorem plan_swap (le : P → P → Bool) (s : State P C) (p : P) (act : Action) :
    (p, act) ∈ bisyncPlan le (swapState s) ↔ (p, swapAct act) ∈ bisyncPlan le s := by
  unfold bisyncPlan swapState
  exact swap_plan le _ _ _ _ p act

theorem nnc_swap (le : P → P → Bool) (ge : C → C → Bool) (tot : ∀ a b, ge a b = true ∨ ge b a = true)
    (anti : ∀ a b, ge a b = true → ge b a = true → a = b) (cname : P → C → P) (s : State P C)
    (nnc : NoNameClash ge cname s.A s.B (bisyncPlan le s)) :
    NoNameClash ge cname (swapState s).A (swapState s).B (bisyncPlan le (swapState s)) := by
  refine ⟨?_, ?_⟩
  · intro p act ln hm hc
    have hm' := (plan_swap le s p act).mp hm
    have hc' : ccName ge cname p (swapAct act) (get s.A p) (get s.B p) = some ln := by
      rw [ccName_swap ge tot anti cname p (get s.B p) (get s.A p) act]; exact hc
    obtain ⟨h1, h2⟩ := nnc.notLive p _ ln hm' hc'
    exact ⟨h2, h1⟩
  · intro p act p' act' ln hm hm' hc hc'
    have e1 : ccName ge cname p (swapAct act) (get s.A p) (get s.B p) = some ln := by
      rw [ccName_swap ge tot anti cname p (get s.B p) (get s.A p) act]; exact hc
    have e2 : ccName ge cname p' (swapAct act') (get s.A p') (get s.B p') = some ln := by
      rw [ccName_swap ge tot anti cname p' (get s.B p') (get s.A p') act']; exact hc'
    exact nnc.distinct p _ p' _ ln ((plan_swap le s p act).mp hm) ((plan_swap le s p' act').mp hm') e1 e2

/-- C06 (argument order, WHOLE RUN under NoNameClash): naming the two roots the other way round does not
change which bytes end up at which path — for a total, antisymmetric `ge` (the byte-wise order on
BLAKE3 hashes), after `bisync B A` every path holds on both sides exactly what it holds after
`bisync A B`. -/
theorem swap_run (le : P → P → Bool)
    (trans : ∀ a b c, le a b → le b c → le a c) (total : ∀ a b, le a b || le b a)
    (antisymm : ∀ a b, le a b → le b a → a = b) (ge : C → C → Bool)
    (tot : ∀ a b, ge a b = true ∨ ge b a = true) (anti : ∀ a b, ge a b = true → ge b a = true → a = b)
    (cname : P → C → P) (s : State P C)
    (nnc : NoNameClash ge cname s.A s.B (bisyncPlan le s)) (q : P) :
    get (bisync le ge cname (swapState s)).state.A q = get (bisync le ge cname s).state.A q ∧
    get (bisync le ge cname (swapState s)).state.B q = get (bisync le ge cname s).state.B q := by
  have nnc' := nnc_swap le ge tot anti cname s nnc
  obtain ⟨hact, _, _, hrest⟩ := plan_facts le trans total antisymm s
  obtain ⟨hact', _, _, hrest'⟩ := plan_facts le trans total antisymm (swapState s)
  obtain ⟨l, n, hrun, inv, _⟩ := bisync_run le trans total antisymm ge cname s nnc
  obtain ⟨l', n', hrun', inv', _⟩ := bisync_run le trans total antisymm ge cname (swapState s) nnc'
  rw [bisync_of_run le ge cname s l n hrun, bisync_of_run le ge cname (swapState s) l' n' hrun']
  have hconv := runInv_converged ge cname s.A s.B (baseOf s) _ l hact hrest inv
  have hconv' := runInv_converged ge cname (swapState s).A (swapState s).B (baseOf (swapState s)) _ l' hact' hrest' inv'
  suffices h : get l'.A q = get l.A q by
    exact ⟨h, by rw [← hconv' q, ← hconv q]; exact h⟩
  by_cases h1 : ∃ act, (q, act) ∈ bisyncPlan le s
  · obtain ⟨act, hm⟩ := h1
    have hm' : (q, swapAct act) ∈ bisyncPlan le (swapState s) := by
      rw [plan_swap, swapAct_swapAct]; exact hm
    have hs : Shape (get s.A q) (get s.B q) act := by rw [hact q act hm]; exact shape_of_reconcile _ _ _
    rw [(inv'.atPath q _ hm').1]
    show (resolve ge (swapAct act) (get s.B q) (get s.A q)).1 = _
    rw [resolve_swap ge tot anti _ _ act hs, (inv.atPath q act hm).1]
    exact (resolve_eq ge _ _ (baseOf s q) act (hact q act hm)).symm
  · by_cases h2 : ∃ p act, (p, act) ∈ bisyncPlan le s ∧ ccName ge cname p act (get s.A p) (get s.B p) = some q
    · obtain ⟨p, act, hm, hc⟩ := h2
      have hm' : (p, swapAct act) ∈ bisyncPlan le (swapState s) := by
        rw [plan_swap, swapAct_swapAct]; exact hm
      have hc' : ccName ge cname p (swapAct act) (get (swapState s).A p) (get (swapState s).B p) = some q := by
        show ccName ge cname p (swapAct act) (get s.B p) (get s.A p) = some q
        rw [ccName_swap ge tot anti]; exact hc
      obtain ⟨xa, yb, e1, e2, hA, _⟩ := inv.atCopy p act q hm hc
      obtain ⟨xa', yb', e1', e2', hA', _⟩ := inv'.atCopy p _ q hm' hc'
      have e1'' : get s.B p = some xa' := e1'
      have e2'' : get s.A p = some yb' := e2'
      rw [e1] at e2''; rw [e2] at e1''
      cases e1''; cases e2''
      rw [hA', hA, loser_comm ge tot anti]
    · have hnt : ¬ touched ge cname s.A s.B (bisyncPlan le s) q := by
        rintro (h | h)
        · exact h1 h
        · exact h2 h
      have hnt' : ¬ touched ge cname (swapState s).A (swapState s).B (bisyncPlan le (swapState s)) q := by
        rintro (⟨act, hm⟩ | ⟨p, act, hm, hc⟩)
        · exact h1 ⟨_, (plan_swap le s q act).mp hm⟩
        · refine h2 ⟨p, swapAct act, (plan_swap le s p act).mp hm, ?_⟩
          rw [ccName_swap ge tot anti cname p (get s.B p) (get s.A p) act]; exact hc
      rw [(inv'.untouched q hnt').1, (inv.untouched q hnt).1]
      show get s.B q = get s.A q
      exact (noop_eq _ _ _ (hrest q (fun act hm => h1 ⟨act, hm⟩))).symm

end Copia.C06
