import Copia.Lemmas.ReconcileTable
import Copia.Props.C18
import Copia.Model.Bisync
/-!
# C06 — bisync converges, records what it did, and is idempotent (what is proved so far)

Decision-level theorems for all maps: a converged pair with a matching record plans nothing
(idempotence of the plan), and swapping the roots mirrors the plan. Post-state equations of whole
runs are tied to the real binary by the history correspondence and the C06 oracles (convergence,
archive = tree, idempotence probe, mtime scrambling, root swap) of `./check C06`.
-/
namespace Copia.C06
open Copia.Reconcile Copia.Bisync Copia.C18

variable {P C : Type} [DecidableEq P] [DecidableEq C]

/-- C06 (idempotence of the plan): when both sides hold the same thing at every path and the record
says the same, the next run plans no action at all. -/
theorem converged_plan_empty (le : P → P → Bool) (a b base : List (P × Fp C))
    (h : ∀ p, lookup b p = lookup a p ∧ (p ∈ a.map (·.1) → lookup base p = lookup a p)) :
    reconcile le a b base true = [] := by
  apply List.eq_nil_iff_forall_not_mem.mpr
  rintro ⟨p, act⟩ hm
  obtain ⟨hk, rfl, hne⟩ := (mem_reconcile le a b base true p _).mp hm
  have hb := (h p).1
  have hka : p ∈ a.map (·.1) := by
    rcases hk with hk | hk
    · exact hk
    · have : (lookup b p).isSome := (lookup_isSome_iff b p).mpr hk
      rw [hb] at this
      exact (lookup_isSome_iff a p).mp this
  have hz := (h p).2 hka
  apply hne
  simp only [if_true, hb, hz]
  cases hl : lookup a p with
  | none => rfl
  | some v => simp [reconcilePath, Fp.same_eq_decide]

/-- C06 (argument order): naming the roots the other way round mirrors every decision. -/
theorem swap_plan (le : P → P → Bool) (a b base : List (P × Fp C)) (t : Bool) (p : P) (act : Action) :
    (p, act) ∈ reconcile le b a base t ↔ (p, swapAct act) ∈ reconcile le a b base t := by
  rw [mem_reconcile, mem_reconcile]
  have hsw : ∀ x, swapAct (swapAct x) = x := by intro x; cases x <;> rfl
  have hno : ∀ x, swapAct x = .noop ↔ x = .noop := by intro x; cases x <;> simp [swapAct]
  constructor
  · rintro ⟨hk, he, hne⟩
    refine ⟨hk.symm, ?_, fun h => hne ((hno act).mp h)⟩
    rw [he, mirror]; rw [hsw]
  · rintro ⟨hk, he, hne⟩
    refine ⟨hk.symm, ?_, fun h => hne ((hno act).mpr h)⟩
    rw [mirror, ← he, hsw]

end Copia.C06
