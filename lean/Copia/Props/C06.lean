import Copia.Lemmas.ReconcileTable
import Copia.Props.C18
import Copia.Model.Bisync
import Copia.Lemmas.Bisync11
/-!
# C06 — bisync converges, records what it did, and is idempotent

Whole-run theorems for `Bisync.bisync`, for every pair of trees and every archive, under
`NoNameClash` (no conflict-copy name written by the run is a live path or another entry's name —
without it the statements are false of model and code alike, D10, reported as known findings):
`converges` (the run completes; afterwards both sides hold the same content at every path and the
archive records exactly that tree) and `second_run_noop` (the next run plans nothing, reports no
conflict and leaves both trees as they are). Decision-level theorems for all maps: a converged pair
with a matching record plans nothing, and swapping the roots mirrors the plan. The model is tied to
the real binary by the history correspondence and the C06 oracles (convergence, archive = tree,
idempotence probe, mtime scrambling, root swap) of `./check C06`.
-/
namespace Copia.C06
open Copia.Reconcile Copia.Bisync Copia.C18

variable {P C : Type} [DecidableEq P] [DecidableEq C]

/-- C06 (idempotence of the plan): when both sides hold the same thing at every path and the record
says the same, the next run plans no action at all. -/
theorem converged_plan_empty (le : P → P → Bool) (a b base : List (P × Fp C))
    (h : ∀ p, lookup b p = lookup a p ∧ (p ∈ a.map (·.1) → lookup base p = lookup a p)) :
    reconcile le a b base true = [] := by
  apply List.eq_nil_iff_forall_not_mem.mpr
  rintro ⟨p, act⟩ hm
  obtain ⟨hk, rfl, hne⟩ := (mem_reconcile le a b base true p _).mp hm
  have hb := (h p).1
  have hka : p ∈ a.map (·.1) := by
    rcases hk with hk | hk
    · exact hk
    · have : (lookup b p).isSome := (lookup_isSome_iff b p).mpr hk
      rw [hb] at this
      exact (lookup_isSome_iff a p).mp this
  have hz := (h p).2 hka
  apply hne
  simp only [if_true, hb, hz]
  cases hl : lookup a p with
  | none => rfl
  | some v => simp [reconcilePath, Fp.same_eq_decide]

/-- C06 (argument order): naming the roots the other way round mirrors every decision. -/
theorem swap_plan (le : P → P → Bool) (a b base : List (P × Fp C)) (t : Bool) (p : P) (act : Action) :
    (p, act) ∈ reconcile le b a base t ↔ (p, swapAct act) ∈ reconcile le a b base t := by
  rw [mem_reconcile, mem_reconcile]
  have hsw : ∀ x, swapAct (swapAct x) = x := by intro x; cases x <;> rfl
  have hno : ∀ x, swapAct x = .noop ↔ x = .noop := by intro x; cases x <;> simp [swapAct]
  constructor
  · rintro ⟨hk, he, hne⟩
    refine ⟨hk.symm, ?_, fun h => hne ((hno act).mp h)⟩
    rw [he, mirror]; rw [hsw]
  · rintro ⟨hk, he, hne⟩
    refine ⟨hk.symm, ?_, fun h => hne ((hno act).mpr h)⟩
    rw [mirror, ← he, hsw]

/-- C06 (whole run, all trees, all archives, under NoNameClash): the run completes without an I/O
stop; afterwards A and B hold the same content at every path, and the archive it writes records
exactly that tree (path ↦ fingerprint of the content now on both sides, nothing else). -/
theorem converges (le : P → P → Bool)
    (trans : ∀ a b c, le a b → le b c → le a c) (total : ∀ a b, le a b || le b a)
    (antisymm : ∀ a b, le a b → le b a → a = b) (ge : C → C → Bool) (cname : P → C → P) (s : State P C)
    (nnc : NoNameClash ge cname s.A s.B (bisyncPlan le s)) :
    (bisync le ge cname s).status ≠ .ioError ∧
    (∀ q, get (bisync le ge cname s).state.A q = get (bisync le ge cname s).state.B q) ∧
    ∃ m, (bisync le ge cname s).state.arch = some m ∧
      ∀ q, lookup m q = (get (bisync le ge cname s).state.A q).map mkFp := by
  obtain ⟨hact, _, _, hrest⟩ := plan_facts le trans total antisymm s
  obtain ⟨l, n, hrun, inv, ainv⟩ := bisync_run le trans total antisymm ge cname s nnc
  rw [bisync_of_run le ge cname s l n hrun]
  refine ⟨by simp only []; split <;> simp, ?_, l.common, rfl, ?_⟩
  · exact runInv_converged ge cname s.A s.B (baseOf s) _ l hact hrest inv
  · exact arch_eq_tree le trans total antisymm ge cname s l inv ainv

/-- C06 (idempotence, whole run): after a run under NoNameClash, the next run plans nothing, reports
no conflict, and leaves both trees exactly as they are. -/
theorem second_run_noop (le : P → P → Bool)
    (trans : ∀ a b c, le a b → le b c → le a c) (total : ∀ a b, le a b || le b a)
    (antisymm : ∀ a b, le a b → le b a → a = b) (ge : C → C → Bool) (cname : P → C → P) (s : State P C)
    (nnc : NoNameClash ge cname s.A s.B (bisyncPlan le s)) :
    let o := bisync le ge cname s
    bisyncPlan le o.state = [] ∧
    (bisync le ge cname o.state).status = .ok ∧
    (bisync le ge cname o.state).state.A = o.state.A ∧ (bisync le ge cname o.state).state.B = o.state.B := by
  intro o
  obtain ⟨_, hconv, m, hm, harch⟩ := converges le trans total antisymm ge cname s nnc
  have hplan : bisyncPlan le o.state = [] := by
    unfold bisyncPlan
    show reconcile le (scan o.state.A) (scan o.state.B) (o.state.arch.getD []) o.state.arch.isSome = []
    have e1 : o.state.arch = some m := hm
    rw [e1]
    apply converged_plan_empty
    intro p
    refine ⟨?_, fun _ => ?_⟩
    · rw [lookup_scan, lookup_scan]; exact congrArg _ (hconv p).symm
    · rw [lookup_scan]; exact harch p
  have hrun : applyAllPartial ge cname (scan o.state.A) (scan o.state.B) (bisyncPlan le o.state)
      { A := o.state.A, B := o.state.B, common := common0 o.state } 0 =
      ({ A := o.state.A, B := o.state.B, common := common0 o.state }, 0, true) := by
    rw [hplan]; rfl
  rw [bisync_of_run le ge cname o.state _ 0 hrun]
  exact ⟨hplan, rfl, rfl, rfl⟩

theorem both_changed_decision (xa yb : C) (z : Option (Fp C)) (hne : xa ≠ yb)
    (h1 : z ≠ some (mkFp xa)) (h2 : z ≠ some (mkFp yb)) :
    reconcilePath (some (mkFp xa)) (some (mkFp yb)) z = .conflict .bothChanged := by
  simp only [reconcilePath, same_mkFp, hne, decide_false, Bool.false_eq_true, if_false]
  cases z with
  | none => rfl
  | some zv =>
    have e1 : Fp.same (mkFp xa) zv = false := by
      rw [Fp.same_eq_decide]; simp; intro e; exact h1 (by rw [e])
    have e2 : Fp.same (mkFp yb) zv = false := by
      rw [Fp.same_eq_decide]; simp; intro e; exact h2 (by rw [e])
    simp [e1, e2]

/-- C06 (conflict outcome, whole run under NoNameClash): a divergent edit — both sides hold the path
with different contents and neither equals the recorded base — resolves on BOTH sides to the winner
(`ge` = greater BLAKE3) at the path and the loser at `cname path loser`
(`<path>.conflict-<host>-<first 12 hex of the loser's hash>`). -/
theorem conflict_outcome (le : P → P → Bool)
    (trans : ∀ a b c, le a b → le b c → le a c) (total : ∀ a b, le a b || le b a)
    (antisymm : ∀ a b, le a b → le b a → a = b) (ge : C → C → Bool) (cname : P → C → P) (s : State P C)
    (nnc : NoNameClash ge cname s.A s.B (bisyncPlan le s))
    (p : P) (xa yb : C) (hA : get s.A p = some xa) (hB : get s.B p = some yb) (hne : xa ≠ yb)
    (h1 : baseOf s p ≠ some (mkFp xa)) (h2 : baseOf s p ≠ some (mkFp yb)) :
    get (bisync le ge cname s).state.A p = some (winner ge xa yb) ∧
    get (bisync le ge cname s).state.B p = some (winner ge xa yb) ∧
    get (bisync le ge cname s).state.A (cname p (loser ge xa yb)) = some (loser ge xa yb) ∧
    get (bisync le ge cname s).state.B (cname p (loser ge xa yb)) = some (loser ge xa yb) := by
  obtain ⟨l, n, hrun, inv, _⟩ := bisync_run le trans total antisymm ge cname s nnc
  rw [bisync_of_run le ge cname s l n hrun]
  have hdec := both_changed_decision xa yb (baseOf s p) hne h1 h2
  have hm : (p, Action.conflict .bothChanged) ∈ bisyncPlan le s := by
    unfold bisyncPlan
    rw [mem_reconcile]
    refine ⟨Or.inl ?_, ?_, by simp⟩
    · apply (lookup_isSome_iff (scan s.A) p).mp
      rw [lookup_scan, hA]; rfl
    · rw [lookup_scan, lookup_scan, hA, hB]
      exact hdec.symm
  obtain ⟨pa, pb⟩ := inv.atPath p _ hm
  have hcc : ccName ge cname p (.conflict .bothChanged) (get s.A p) (get s.B p) = some (cname p (loser ge xa yb)) := by
    rw [hA, hB]; rfl
  obtain ⟨xa', yb', e1, e2, ca, cb⟩ := inv.atCopy p _ _ hm hcc
  rw [hA] at e1; rw [hB] at e2; cases e1; cases e2
  rw [hA, hB] at pa pb
  exact ⟨by simpa [resolve] using pa, by simpa [resolve] using pb, ca, cb⟩

end Copia.C06
