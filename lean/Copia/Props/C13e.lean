import Copia.Gen.LoopsHubSync
/-! C13 — the client side of one Put (`hub.rs::HubClient::put`, translated on this run). `hub-sync` counts a file as sent exactly when
this function returns `Ok(true)`. That happens only when the hub's next reply is `PutResult { committed: true }`, after the client has
written ONE Put frame naming the caller's path, expectation and hash and the length `metadata` reported, then the file's bytes, then a
flush — in that order, nothing else. With the server side (`C10.source_put_acknowledges_only_commits`: the hub answers `committed: true`
only after renaming bytes whose length and hash are the frame's) a file reported as sent is on the hub with the announced hash. Any other
reply, a failing `metadata`, `open`, copy or `recv` is an error, never a silent success. -/
namespace Copia.C13
open Copia.HubSync Copia.Hub

theorem source_client_put_success {P H : Type} (ml : Option Nat) (fb : Option Bytes) (rv : Option (Reply H)) (rel : P) (e : Option H) (h : H)
    (committed : Bool) (hs : (Copia.Gen.Loops.clientPutGen ml fb rv rel e h).1 = some committed) :
    ∃ len f cur, ml = some len ∧ fb = some f ∧ rv = some (Reply.putResult committed cur) ∧
      (Copia.Gen.Loops.clientPutGen ml fb rv rel e h).2 = [Sent.putFrame rel e len h, Sent.raw f, Sent.flush] := by
  unfold Copia.Gen.Loops.clientPutGen at hs ⊢
  cases ml with
  | none => simp [Id.run, pure] at hs
  | some len =>
    cases fb with
    | none => simp [Id.run, pure] at hs
    | some f =>
      cases rv with
      | none => simp [Id.run, pure] at hs
      | some r =>
        cases r with
        | putResult c cur =>
          simp only [Id.run, pure, Option.some.injEq] at hs
          subst hs
          exact ⟨len, f, cur, rfl, rfl, rfl, rfl⟩
        | hello v => simp [Id.run, pure] at hs
        | fingerprints m => simp [Id.run, pure] at hs
        | content l hh b => simp [Id.run, pure] at hs
        | deleteResult d c => simp [Id.run, pure] at hs
        | error m => simp [Id.run, pure] at hs

/-- whatever happens, what the client has written is a prefix of "frame, content, flush": it never sends content without its frame,
never two frames, never content twice -/
theorem source_client_put_sends_a_prefix {P H : Type} (ml : Option Nat) (fb : Option Bytes) (rv : Option (Reply H)) (rel : P) (e : Option H) (h : H) :
    ∃ len f, (Copia.Gen.Loops.clientPutGen ml fb rv rel e h).2 <+: [Sent.putFrame rel e len h, Sent.raw f, Sent.flush] := by
  unfold Copia.Gen.Loops.clientPutGen
  cases ml with
  | none => exact ⟨0, [], by simp [Id.run, pure]⟩
  | some len =>
    cases fb with
    | none => exact ⟨len, [], by simp [Id.run, pure]⟩
    | some f =>
      refine ⟨len, f, ?_⟩
      cases rv with
      | none => simp [Id.run, pure]
      | some r => cases r <;> simp [Id.run, pure]

/-- the end of `hub_sync` (translated): the run exits 0 exactly when no Put lost its CAS — the `conflicts` counter of the push loop
(`source_push_loop_is_model`) is the only thing the exit status looks at -/
theorem source_hub_sync_exits_zero_iff_no_conflict (conflicts : Nat) :
    Copia.Gen.Loops.hubSyncExitGen conflicts = true ↔ conflicts = 0 := by
  unfold Copia.Gen.Loops.hubSyncExitGen
  cases conflicts <;> simp [Id.run, pure]

/-- `HubClient::list` (translated): the listing the push loop works from is EXACTLY the map of a `Fingerprints` reply; any other reply, or none,
is an error — never an empty listing taken for an empty hub -/
theorem source_client_list_is_the_reply {H : Type} (recv : Option (Reply H)) (m : List (List (List Char) × H)) :
    (Copia.Gen.Loops.clientListGen recv).2 = some m ↔ recv = some (Reply.fingerprints m) := by
  unfold Copia.Gen.Loops.clientListGen
  cases recv with
  | none => simp [Id.run, pure]
  | some r => cases r <;> simp [Id.run, pure]

/-- the handshake of `HubClient::connect` (translated): the connection is used only after a `Hello` reply with version ≥ 1 -/
theorem source_handshake_accepts_only_hello {H : Type} (recv : Option (Reply H)) :
    Copia.Gen.Loops.handshakeGen recv = true ↔ ∃ v, recv = some (Reply.hello v) ∧ 1 ≤ v := by
  unfold Copia.Gen.Loops.handshakeGen
  cases recv with
  | none => simp [Id.run, pure]
  | some r => cases r <;> simp [Id.run, pure]

end Copia.C13
