import Copia.Lemmas.OneWay
import Copia.Lemmas.Quote
/-!
# C04 — recursive one-way sync delivers exactly its plan (model level)

Model: `Copia.Model.OneWay` + `Copia.Model.Plan`. The three directions and the parallel tasks are
tied to this model by the black-box correspondence of `./check C04`; here: the functional
postcondition and order-independence, for all trees and flags.
-/
namespace Copia.C04
open Copia.Plan Copia.OneWay

variable {K C : Type} [DecidableEq K]

theorem transfer_in_src (le : K → K → Bool) (excl : K → Bool) (S D : Tree K C) (wd : Bool) (p : K)
    (h : p ∈ (buildPlan le excl (metaOf S) (metaOf D) wd).transfer) : (lookup S p).isSome := by
  obtain ⟨m, hm, _, _⟩ := (mem_transfer le excl _ _ wd p).mp h
  have : p ∈ (metaOf S).map (·.1) := List.mem_map_of_mem (f := (·.1)) hm
  rw [keys_metaOf] at this
  cases hl : lookup S p with
  | some e => rfl
  | none => exact absurd this ((lookup_none_iff S p).mp hl)

/-- C04 (postcondition): after a run that reaches the plan, every destination path holds: nothing if
it is in `delete`; the source entry with the source's whole-second mtime if it is in `transfer`;
exactly what it held before otherwise. The source tree is not an output of the run at all. -/
theorem post (le : K → K → Bool) (excl : K → Bool) (wd : Bool) (S D : Tree K C) (q : K)
    (hran : (oneWay le excl wd S D).ranPlan = true) :
    lookup (oneWay le excl wd S D).dest q =
      if q ∈ (oneWay le excl wd S D).plan.delete then none
      else if q ∈ (oneWay le excl wd S D).plan.transfer then (lookup S q).map strip
      else lookup D q := by
  unfold oneWay at hran ⊢
  split
  · next h => simp [h] at hran
  · simp only []
    rw [lookup_tdels, lookup_delivers S _ (fun p hp => transfer_in_src le excl S D wd p hp)]

/-- C04 (early return): an empty source without `--delete` changes nothing. -/
theorem empty_source_noop (le : K → K → Bool) (excl : K → Bool) (D : Tree K C) :
    (oneWay le excl false ([] : Tree K C) D).dest = D := by
  simp [oneWay]

/-- C04 (order independence): the transfers (concurrent tasks in the real tool, bounded by `--jobs`)
may complete in any order, and the deletes may run in any order: the destination is the same. -/
theorem order_independent (S D : Tree K C) (ts ts' ds ds' : List K)
    (hts : ∀ p ∈ ts, (lookup S p).isSome) (hp : ts.Perm ts') (hd : ds.Perm ds') (q : K) :
    lookup (ds'.foldl tdel (ts'.foldl (deliver S) D)) q = lookup (ds.foldl tdel (ts.foldl (deliver S) D)) q := by
  have hts' : ∀ p ∈ ts', (lookup S p).isSome := fun p h => hts p (hp.mem_iff.mpr h)
  rw [lookup_tdels, lookup_tdels, lookup_delivers S ts hts, lookup_delivers S ts' hts']
  simp only [hp.mem_iff, hd.mem_iff]

/-- C04: nothing outside the plan is touched. -/
theorem untouched_outside_plan (le : K → K → Bool) (excl : K → Bool) (wd : Bool) (S D : Tree K C) (q : K)
    (h1 : q ∉ (oneWay le excl wd S D).plan.transfer) (h2 : q ∉ (oneWay le excl wd S D).plan.delete) :
    lookup (oneWay le excl wd S D).dest q = lookup D q := by
  by_cases hran : (oneWay le excl wd S D).ranPlan = true
  · rw [post le excl wd S D q hran]; simp [h1, h2]
  · unfold oneWay at hran ⊢
    by_cases he : (S.isEmpty && !wd) = true
    · simp only [he, if_true]
    · simp only [he] at hran
      simp at hran

/-- C15 (dry run): `--dry-run` leaves the destination as it was and reports the same plan a real run performs. -/
theorem dry_run (le : K → K → Bool) (excl : K → Bool) (wd : Bool) (S D : Tree K C) :
    (oneWayDry le excl wd S D).dest = D ∧ (oneWayDry le excl wd S D).plan = (oneWay le excl wd S D).plan :=
  ⟨rfl, rfl⟩

/-! ## Remote path quoting (push / pull over SSH)

Every remote path the sources interpolate into a shell command sits between `$'` and `'` after the
escaping chain regenerated from the source (`Gen.escapePairs`). For EVERY path string — quotes,
backslashes, newlines, `$`, `;`, backticks, anything — bash's ANSI-C scanner decodes the quoted word
back to exactly the path and stops at the closing quote the source wrote, so no character of a file
name is ever interpreted by the remote shell and the command addresses exactly the planned path. -/

/-- C04 (quoting, `cat $'…'`, `cd $'…'`, `touch … $'…'`, `mv … $'…'`) -/
theorem quoted_path_decodes (path rest : List Char) :
    Copia.Quote.ansiC (Copia.Quote.escape path ++ '\'' :: rest) = some (path, rest) := by
  rw [Copia.Quote.ansiC_escape_append, Copia.Quote.ansiC_close]; simp

/-- C04 (quoting of the staging name `$'<escaped>.copia-tmp'`): the suffix is appended AFTER escaping;
for any suffix without quote or backslash the word decodes to path ++ suffix -/
theorem quoted_staging_decodes (path suffix rest : List Char)
    (hs : ∀ c ∈ suffix, c ≠ '\\' ∧ c ≠ '\'') :
    Copia.Quote.ansiC (Copia.Quote.escape path ++ (suffix ++ '\'' :: rest)) = some (path ++ suffix, rest) := by
  rw [Copia.Quote.ansiC_escape_append, Copia.Quote.ansiC_plain_append suffix _ hs, Copia.Quote.ansiC_close]; simp

/-- the reserved staging suffix of the sources meets that hypothesis -/
theorem staging_suffix_plain : ∀ c ∈ ['.', 'c', 'o', 'p', 'i', 'a', '-', 't', 'm', 'p'], c ≠ '\\' ∧ c ≠ '\'' := by decide

/-- sanity: a hostile name -/
example : Copia.Quote.escape "a'; rm -rf $HOME #\\".toList = "a\\'; rm -rf $HOME #\\\\".toList := by decide


/-- a run in which any subset of the planned transfers fails (reported, non-zero exit) and any subset
of the deletes fails (`let _ = remove_file(..)`); the deletes still run after failed transfers, as in
`run_local` / `run_remote` -/
def oneWayPartial (le : K → K → Bool) (excl : K → Bool) (wd : Bool) (S D : Tree K C)
    (tfails dfails : K → Bool) : Tree K C :=
  let plan := buildPlan le excl (metaOf S) (metaOf D) wd
  (plan.delete.filter (fun p => !dfails p)).foldl tdel ((plan.transfer.filter (fun p => !tfails p)).foldl (deliver S) D)

/-- C04 (non-zero exit): whichever transfers and deletes fail, nothing outside the plan is touched;
a planned transfer's path holds what it held or the complete delivered entry, a planned delete's
path what it held or nothing. With no failure this is the run itself. -/
theorem partial_failure_stays_in_plan (le : K → K → Bool) (excl : K → Bool) (wd : Bool) (S D : Tree K C)
    (tfails dfails : K → Bool) (q : K) :
    let plan := buildPlan le excl (metaOf S) (metaOf D) wd
    let r := oneWayPartial le excl wd S D tfails dfails
    (q ∉ plan.transfer → q ∉ plan.delete → lookup r q = lookup D q) ∧
    (q ∈ plan.transfer → q ∉ plan.delete → lookup r q = lookup D q ∨ lookup r q = (lookup S q).map strip) ∧
    (q ∈ plan.delete → q ∉ plan.transfer → lookup r q = lookup D q ∨ lookup r q = none) := by
  intro plan r
  have hsrc : ∀ p ∈ plan.transfer.filter (fun p => !tfails p), (lookup S p).isSome := by
    intro p hp
    exact transfer_in_src le excl S D wd p ((List.mem_filter.mp hp).1)
  have hr : lookup r q =
      if q ∈ plan.delete.filter (fun p => !dfails p) then none
      else if q ∈ plan.transfer.filter (fun p => !tfails p) then (lookup S q).map strip else lookup D q := by
    show lookup (oneWayPartial le excl wd S D tfails dfails) q = _
    unfold oneWayPartial
    simp only []
    rw [lookup_tdels, lookup_delivers S _ hsrc]
  refine ⟨?_, ?_, ?_⟩
  · intro h1 h2
    rw [hr]
    have a : q ∉ plan.delete.filter (fun p => !dfails p) := fun h => h2 (List.mem_filter.mp h).1
    have b : q ∉ plan.transfer.filter (fun p => !tfails p) := fun h => h1 (List.mem_filter.mp h).1
    simp [a, b]
  · intro _ h2
    rw [hr]
    have a : q ∉ plan.delete.filter (fun p => !dfails p) := fun h => h2 (List.mem_filter.mp h).1
    simp only [a, if_false]
    split
    · right; rfl
    · left; rfl
  · intro _ h1
    rw [hr]
    have b : q ∉ plan.transfer.filter (fun p => !tfails p) := fun h => h1 (List.mem_filter.mp h).1
    split
    · right; rfl
    · left; simp [b]

end Copia.C04

