import Copia.Lemmas.OneWay
/-!
# C04 — recursive one-way sync delivers exactly its plan (model level)

Model: `Copia.Model.OneWay` + `Copia.Model.Plan`. The three directions and the parallel tasks are
tied to this model by the black-box correspondence of `./check C04`; here: the functional
postcondition and order-independence, for all trees and flags.
-/
namespace Copia.C04
open Copia.Plan Copia.OneWay

variable {K C : Type} [DecidableEq K]

theorem transfer_in_src (le : K → K → Bool) (excl : K → Bool) (S D : Tree K C) (wd : Bool) (p : K)
    (h : p ∈ (buildPlan le excl (metaOf S) (metaOf D) wd).transfer) : (lookup S p).isSome := by
  obtain ⟨m, hm, _, _⟩ := (mem_transfer le excl _ _ wd p).mp h
  have : p ∈ (metaOf S).map (·.1) := List.mem_map_of_mem (f := (·.1)) hm
  rw [keys_metaOf] at this
  cases hl : lookup S p with
  | some e => rfl
  | none => exact absurd this ((lookup_none_iff S p).mp hl)

/-- C04 (postcondition): after a run that reaches the plan, every destination path holds: nothing if
it is in `delete`; the source entry with the source's whole-second mtime if it is in `transfer`;
exactly what it held before otherwise. The source tree is not an output of the run at all. -/
theorem post (le : K → K → Bool) (excl : K → Bool) (wd : Bool) (S D : Tree K C) (q : K)
    (hran : (oneWay le excl wd S D).ranPlan = true) :
    lookup (oneWay le excl wd S D).dest q =
      if q ∈ (oneWay le excl wd S D).plan.delete then none
      else if q ∈ (oneWay le excl wd S D).plan.transfer then (lookup S q).map strip
      else lookup D q := by
  unfold oneWay at hran ⊢
  split
  · next h => simp [h] at hran
  · simp only []
    rw [lookup_tdels, lookup_delivers S _ (fun p hp => transfer_in_src le excl S D wd p hp)]

/-- C04 (early return): an empty source without `--delete` changes nothing. -/
theorem empty_source_noop (le : K → K → Bool) (excl : K → Bool) (D : Tree K C) :
    (oneWay le excl false ([] : Tree K C) D).dest = D := by
  simp [oneWay]

/-- C04 (order independence): the transfers (concurrent tasks in the real tool, bounded by `--jobs`)
may complete in any order, and the deletes may run in any order: the destination is the same. -/
theorem order_independent (S D : Tree K C) (ts ts' ds ds' : List K)
    (hts : ∀ p ∈ ts, (lookup S p).isSome) (hp : ts.Perm ts') (hd : ds.Perm ds') (q : K) :
    lookup (ds'.foldl tdel (ts'.foldl (deliver S) D)) q = lookup (ds.foldl tdel (ts.foldl (deliver S) D)) q := by
  have hts' : ∀ p ∈ ts', (lookup S p).isSome := fun p h => hts p (hp.mem_iff.mpr h)
  rw [lookup_tdels, lookup_tdels, lookup_delivers S ts hts, lookup_delivers S ts' hts']
  simp only [hp.mem_iff, hd.mem_iff]

/-- C04: nothing outside the plan is touched. -/
theorem untouched_outside_plan (le : K → K → Bool) (excl : K → Bool) (wd : Bool) (S D : Tree K C) (q : K)
    (h1 : q ∉ (oneWay le excl wd S D).plan.transfer) (h2 : q ∉ (oneWay le excl wd S D).plan.delete) :
    lookup (oneWay le excl wd S D).dest q = lookup D q := by
  by_cases hran : (oneWay le excl wd S D).ranPlan = true
  · rw [post le excl wd S D q hran]; simp [h1, h2]
  · unfold oneWay at hran ⊢
    by_cases he : (S.isEmpty && !wd) = true
    · simp only [he, if_true]
    · simp only [he] at hran
      simp at hran

/-- C15 (dry run): `--dry-run` leaves the destination as it was and reports the same plan a real run performs. -/
theorem dry_run (le : K → K → Bool) (excl : K → Bool) (wd : Bool) (S D : Tree K C) :
    (oneWayDry le excl wd S D).dest = D ∧ (oneWayDry le excl wd S D).plan = (oneWay le excl wd S D).plan :=
  ⟨rfl, rfl⟩

end Copia.C04

