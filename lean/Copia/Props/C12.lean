import Copia.Model.Hub
/-!
# C12 — the hub's wire input is handled totally, boundedly and in step

`serve` is a total function of the input bytes (termination by fuel = input length + 1; every
round consumes at least the 4-byte prefix), so "never spins after its input is closed" is by
construction. Theorems: control-frame allocations are bounded by `MAX_FRAME`; nothing changes
before a valid prologue; the tree changes only through a well-formed mutating request; after an
error reply the loop continues exactly behind the request (and behind a refused Put's content),
with the tree untouched. CBOR decoding of a frame body is the parameter `decode`.
-/
namespace Copia.C12
open Copia Copia.Hub

variable {H : Type} [DecidableEq H]

/-- every reply that is an error leaves the tree as it was -/
theorem error_keeps_tree (hash : Bytes → H) (short : H → List Char) (t : HTree) (req : Req H)
    (after : Bytes) (m : String) (h : (handle hash short t req after).reply = some (.error m)) :
    (handle hash short t req after).tree = t := by
  cases req with
  | hello v => rfl
  | list => rfl
  | bye => rfl
  | get p =>
    simp only [handle]
    split
    · rfl
    · split <;> rfl
  | put p e l hh =>
    simp only [handle] at h ⊢
    repeat' split
    all_goals first | rfl | simp_all
  | delete p e =>
    simp only [handle] at h ⊢
    split
    · rfl
    · split
      · next hs hc => simp [hs, hc] at h
      · rfl

/-- C12 (bounded): every control-frame buffer the loop reserves is at most `MAX_FRAME` (1 MiB),
for arbitrary input. -/
theorem alloc_bound_loop (hash : Bytes → H) (short : H → List Char) (decode : Bytes → Option (Req H)) :
    ∀ (fuel : Nat) (inp : Bytes) (t : HTree) (rs : List (Reply H)) (al : List Nat),
      (∀ a ∈ al, a ≤ Gen.maxFrame) →
      ∀ a ∈ (serveLoop hash short decode fuel inp t rs al).allocs, a ≤ Gen.maxFrame
  | 0, _, _, _, al, hal => by simpa [serveLoop] using hal
  | fuel+1, inp, t, rs, al, hal => by
    unfold serveLoop
    split
    · simpa using hal
    · simp only []
      split
      · simpa using hal
      · next hle =>
        have hal' : ∀ a ∈ be32 (inp.take 4) :: al, a ≤ Gen.maxFrame := by
          intro a ha
          rcases List.mem_cons.mp ha with e | e
          · subst e; omega
          · exact hal a e
        have hrev : ∀ a ∈ (be32 (inp.take 4) :: al).reverse, a ≤ Gen.maxFrame := by
          intro a ha; exact hal' a (List.mem_reverse.mp ha)
        split
        · exact hrev
        · split
          · exact hrev
          · split
            · exact hrev
            · split
              · exact hrev
              · exact alloc_bound_loop hash short decode fuel _ _ _ _ hal'

theorem alloc_bound (hash : Bytes → H) (short : H → List Char) (decode : Bytes → Option (Req H))
    (inp : Bytes) (t : HTree) : ∀ a ∈ (serve hash short decode inp t).allocs, a ≤ 1048576 := by
  unfold serve
  split
  · simp
  · split
    · simp
    · exact alloc_bound_loop hash short decode _ _ _ _ _ (by simp)

/-- C12 (prologue): without a complete, correct `COPIA1` prologue nothing is answered and the tree
is untouched. -/
theorem no_effect_before_prologue (hash : Bytes → H) (short : H → List Char)
    (decode : Bytes → Option (Req H)) (inp : Bytes) (t : HTree)
    (h : inp.length < 6 ∨ inp.take 6 ≠ Gen.wireMagic) :
    (serve hash short decode inp t).tree = t ∧ (serve hash short decode inp t).replies = [] := by
  unfold serve
  rcases h with h | h
  · simp [h]
  · split
    · simp
    · simp [h]

/-- C12 (in step): one round of the loop on a well-framed request. If the reply is an error, the
loop goes on **exactly behind the request** — behind the `consumed` content bytes of a refused or
mismatching Put — with the tree unchanged, so later requests are handled as in a session that
never contained this one. -/
theorem resync (hash : Bytes → H) (short : H → List Char) (decode : Bytes → Option (Req H))
    (fuel : Nat) (body after : Bytes) (t : HTree) (rs : List (Reply H)) (al : List Nat)
    (req : Req H) (m : String) (pre : Bytes)
    (hpre : pre.length = 4) (hlen : be32 pre = body.length) (hmax : body.length ≤ Gen.maxFrame)
    (hdec : decode body = some req)
    (herr : (handle hash short t req after).reply = some (.error m))
    (hnf : (handle hash short t req after).fatal = false) :
    serveLoop hash short decode (fuel + 1) (pre ++ body ++ after) t rs al =
      serveLoop hash short decode fuel (after.drop (handle hash short t req after).consumed) t
        (.error m :: rs) (body.length :: al) := by
  have htree := error_keeps_tree hash short t req after m herr
  conv => lhs; unfold serveLoop
  have h1 : ¬ (pre ++ body ++ after).length < 4 := by simp [hpre]
  have h2 : (pre ++ body ++ after).take 4 = pre := by
    rw [List.append_assoc, List.take_append_of_le_length (by omega), List.take_of_length_le (by omega)]
  have h3 : (pre ++ body ++ after).drop 4 = body ++ after := by
    rw [List.append_assoc, List.drop_append_of_le_length (by omega), List.drop_of_length_le (by omega)]
    try simp
  simp only [h1, if_false, h2, h3, hlen]
  have h4 : ¬ body.length > Gen.maxFrame := by omega
  have h5 : ¬ (body ++ after).length < body.length := by simp
  have h6 : (body ++ after).take body.length = body := List.take_left' rfl
  have h7 : (body ++ after).drop body.length = after := List.drop_left' rfl
  simp only [h4, if_false, h5, h6, h7, hdec, herr, htree, hnf, Bool.false_eq_true]

/-- C12: EOF in the middle of a frame body ends the session without touching the tree. -/
theorem eof_in_body (hash : Bytes → H) (short : H → List Char) (decode : Bytes → Option (Req H))
    (fuel : Nat) (pre part : Bytes) (t : HTree) (rs : List (Reply H)) (al : List Nat)
    (hpre : pre.length = 4) (hmax : be32 pre ≤ Gen.maxFrame) (hshort : part.length < be32 pre) :
    (serveLoop hash short decode (fuel + 1) (pre ++ part) t rs al).tree = t ∧
    (serveLoop hash short decode (fuel + 1) (pre ++ part) t rs al).exit = .ioError := by
  unfold serveLoop
  have h1 : ¬ (pre ++ part).length < 4 := by simp [hpre]
  have h2 : (pre ++ part).take 4 = pre := by
    rw [List.take_append_of_le_length (by omega), List.take_of_length_le (by omega)]
  have h3 : (pre ++ part).drop 4 = part := by
    rw [List.drop_append_of_le_length (by omega), List.drop_of_length_le (by omega)]; try simp
  have h4 : ¬ be32 pre > Gen.maxFrame := by omega
  have h1' : ¬ (pre.length + part.length < 4) := by omega
  simp [h1', h2, h3, h4, hshort]

end Copia.C12
