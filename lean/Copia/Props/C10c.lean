import Copia.Lemmas.GenEqLoopsU
/-!
# C10 — what `handle_put`, as the source has it now, lets into the tree, and what it answers

`Copia.Gen.Loops.handlePut` is generated from the current text of `src/bin/copia/serve.rs` on every run
(`tools/rs2lean_do.py`); see `Props/C03d` for what the translation carries. Here: the two renames (onto the
destination, onto the conflict-copy name) are reached only by bytes that arrived in full and hash to the
announced hash, under the hasher the SOURCE feeds (created in the function, fed exactly the chunks written to
the staging file); the reply is the model's (`Hub.handle`).
-/
namespace Copia.C10
open Copia.HubConc Copia.Hub Copia.GenEqLoops

theorem not_in_pre (l : List Chunk) : Call.commit ∉ putPre l ∧ Call.conflict ∉ putPre l := by simp [putPre]

/-- **nothing unverified is renamed into the tree** — for every input, every announced length and hash, every state
of the destination and every rename outcome: if the translated `handle_put` issues the commit rename or the
conflict-copy rename at all, then exactly `len` chunks arrived and THEY hash to the announced hash. The hasher is the
one the source creates inside the function and feeds with the chunks it writes (a hasher that outlives the request —
seed C10-J —, a rename ahead of either test, a test on something other than the staged bytes change the translation). -/
theorem source_put_renames_only_verified_bytes (hashOf : List Chunk → Hash) (safe : Bool) (chunks : List Chunk) (len : Nat)
    (hash : Hash) (e c : Option Hash) (a b : Bool)
    (h : Call.commit ∈ (Copia.Gen.Loops.handlePut hashOf safe chunks len hash e c a b).1 ∨
         Call.conflict ∈ (Copia.Gen.Loops.handlePut hashOf safe chunks len hash e c a b).1) :
    safe = true ∧ (chunks.take len).length = len ∧ hashOf (chunks.take len) = hash := by
  rw [handlePut_eq] at h
  cases safe
  · simp at h
  · simp only [Bool.not_true, Bool.false_eq_true, if_false] at h
    split at h
    · simp [List.mem_append, (not_in_pre _).1, (not_in_pre _).2] at h
    · split at h
      · simp [List.mem_append, (not_in_pre _).1, (not_in_pre _).2] at h
      · rename_i h1 h2
        exact ⟨rfl, by simpa using h1, by simpa using h2⟩

/-- **"committed" is answered only for a verified CAS match whose rename happened** -/
theorem source_put_acknowledges_only_commits (hashOf : List Chunk → Hash) (safe : Bool) (chunks : List Chunk) (len : Nat)
    (hash : Hash) (e c : Option Hash) (a b : Bool) (cur : Option Hash)
    (h : (Copia.Gen.Loops.handlePut hashOf safe chunks len hash e c a b).2 = Reply.putResult true cur) :
    Call.commit ∈ (Copia.Gen.Loops.handlePut hashOf safe chunks len hash e c a b).1 ∧ a = true ∧ c = e ∧ cur = some hash := by
  rw [handlePut_eq] at h ⊢
  cases safe
  · simp at h
  · simp only [Bool.not_true, Bool.false_eq_true, if_false] at h ⊢
    split at h
    · simp at h
    · split at h
      · simp at h
      · rename_i h1 h2
        simp only [h1, h2, if_false]
        cases hc : casCommit c e <;> cases a <;> cases b <;> simp [hc] at h ⊢
        all_goals (refine ⟨by simpa [casCommit] using hc, ?_⟩; exact h.symm)

/-- **the reply of the translated `handle_put` is the model's** (`Hub.handle`, on which the C10–C14 session theorems stand):
for every tree, path, CAS expectation, announced length and hash and every input — with `safe` = `safe_join` accepts,
the destination's current hash read from the tree, and the commit rename failing exactly onto a directory. (The model's
`fatal` exit — a parent that is a regular file, `create_dir_all(parent)?` — is the `?` the translation skips.) -/
theorem source_put_reply_is_model (hash : Bytes → Hash) (short : Hash → List Char) (t : HTree)
    (p : List Char) (expected : Option Hash) (len : Nat) (h : Hash) (after : Bytes)
    (hp : parentIsFile t (keyOf p) = false ∨ safeJoin [] p = none) :
    (handle hash short t (.put p expected len h) after).reply =
      some (Copia.Gen.Loops.handlePut hash (safeJoin [] p).isSome after len h expected ((hget t (keyOf p)).map hash)
              (!isDir t (keyOf p)) true).2 := by
  rw [handlePut_eq]
  unfold handle
  cases hs : safeJoin [] p with
  | none => simp [hs]
  | some d =>
    simp only [hs]
    have hpf : parentIsFile t (keyOf p) = false := by
      rcases hp with hp | hp
      · exact hp
      · rw [hs] at hp; cases hp
    simp only [hpf, Bool.false_eq_true, if_false, Option.isSome_some, Bool.not_true]
    by_cases h1 : (List.take len after).length = len
    · by_cases h2 : hash (List.take len after) = h
      · simp only [h1, h2, ne_eq, not_true_eq_false, if_false, bne_self_eq_false, Bool.false_eq_true]
        cases hc : casCommit (Option.map hash (hget t (keyOf p))) expected <;> cases hd : isDir t (keyOf p) <;> simp [hc, hd]
      · have : (hash (List.take len after) != h) = true := by simpa using h2
        simp [h1, h2, this]
    · have h1' : ¬ min len after.length = len := by simpa using h1
      simp [h1']

end Copia.C10
