import Copia.Lemmas.Plan
import Copia.Model.Meta
import Copia.Lemmas.Meta3
/-!
# C19 — the one-way planner and its pattern matcher equal their set definitions

Property theorems only. Models: `Copia.Model.Plan` (`plan.rs`), `Copia.Model.Meta` (`meta.rs` listing
parser); spec: `Copia.Spec.Glob` (`Matches`). Helpers: `Copia.Lemmas.Glob{Sound,Complete}`, `Copia.Lemmas.Plan`.
-/
namespace Copia.C19
open Copia.Plan

/-- C19 (matcher): `glob_match` agrees with the wildcard semantics for **every** pattern and text —
including texts that contain `*` and `?`. (Also shows the loop's fuel always suffices.) -/
theorem glob_iff (p t : List Char) : globMatch p t = true ↔ Matches p t := globMatch_iff p t

/-- C19 (quick check): a file needs transfer iff the destination lacks it or differs in size or mtime. -/
theorem needs_transfer_iff (s : FileMeta) (d : Option FileMeta) :
    needsTransfer s d = true ↔ d = none ∨ ∃ d', d = some d' ∧ (s.size ≠ d'.size ∨ s.mtime ≠ d'.mtime) :=
  needsTransfer_iff s d

/-- C19 (transfer set): exactly the non-excluded source paths that are absent from the destination
or differ from it in size or mtime. -/
theorem plan_transfer {K} [DecidableEq K] (le : K → K → Bool) (excl : K → Bool)
    (src dst : List (K × FileMeta)) (wd : Bool) (p : K) :
    p ∈ (buildPlan le excl src dst wd).transfer ↔
      ∃ m, (p, m) ∈ src ∧ excl p = false ∧ needsTransfer m (lookup dst p) = true :=
  mem_transfer le excl src dst wd p

/-- C19: `transfer` and `delete` are sorted (for any total preorder `le`) and duplicate-free. -/
theorem plan_sorted {K} [DecidableEq K] (le : K → K → Bool)
    (trans : ∀ a b c, le a b → le b c → le a c) (total : ∀ a b, le a b || le b a)
    (excl : K → Bool) (src dst : List (K × FileMeta)) (wd : Bool) :
    (buildPlan le excl src dst wd).transfer.Pairwise (fun a b => le a b) ∧
    (buildPlan le excl src dst wd).delete.Pairwise (fun a b => le a b) :=
  ⟨transfer_sorted le trans total excl src dst wd, delete_sorted le trans total excl src dst wd⟩

theorem plan_nodup {K} [DecidableEq K] (le : K → K → Bool) (excl : K → Bool)
    (src dst : List (K × FileMeta)) (wd : Bool)
    (hs : (src.map (·.1)).Nodup) (hd : (dst.map (·.1)).Nodup) :
    (buildPlan le excl src dst wd).transfer.Nodup ∧ (buildPlan le excl src dst wd).delete.Nodup :=
  ⟨transfer_nodup le excl src dst wd hs, delete_nodup le excl src dst wd hd⟩

/-- C19 (skipped): the number of remaining non-excluded source paths. -/
theorem plan_skipped {K} [DecidableEq K] (le : K → K → Bool) (excl : K → Bool)
    (src dst : List (K × FileMeta)) (wd : Bool) :
    (buildPlan le excl src dst wd).skipped =
      (src.filter fun pm => !excl pm.1 && !needsTransfer pm.2 (lookup dst pm.1)).length ∧
    (buildPlan le excl src dst wd).transfer.length + (buildPlan le excl src dst wd).skipped =
      (src.filter fun pm => !excl pm.1).length :=
  ⟨skipped_eq le excl src dst wd, transfer_add_skipped le excl src dst wd⟩

/-- C19 (delete set): only when requested, the destination paths absent from the source and not excluded. -/
theorem plan_delete {K} [DecidableEq K] (le : K → K → Bool) (excl : K → Bool)
    (src dst : List (K × FileMeta)) (wd : Bool) (p : K) :
    p ∈ (buildPlan le excl src dst wd).delete ↔
      wd = true ∧ p ∈ dst.map (·.1) ∧ p ∉ src.map (·.1) ∧ excl p = false := by
  rw [mem_delete, lookup_none_iff]

/-- C19 (remote listing): for ANY list of files with distinct non-empty NUL-free paths (tabs, newlines,
dots, spaces, `*`, anything else allowed), sizes within `u64`, whole seconds within `i64` and any
fraction text, the listing `find -printf <the format string in meta.rs>` writes is parsed back by
`parse_remote_meta_output` into exactly the (path ↦ size, whole-second mtime) map that produced it:
every file is found with its size and seconds, and nothing else is in the map. -/
theorem parse_format (es : List Copia.Meta.Entry) (wf : ∀ e ∈ es, e.WF)
    (nd : (es.map (·.path)).Nodup) (p : List Char) :
    lookup (Copia.Meta.parseRemoteMeta
        (es.flatMap (Copia.Meta.findPrintf (Copia.Gen.findPrintf.map Char.ofNat)))) p =
      (es.find? (fun e => e.path = p)).map fun e => { size := e.size, mtime := e.secs } := by
  have hr : es.flatMap (Copia.Meta.findPrintf (Copia.Gen.findPrintf.map Char.ofNat)) = Copia.Meta.render es := by
    unfold Copia.Meta.render
    congr 1
    funext e
    exact Copia.Meta.source_format_is_modelled e
  have h2 : Copia.Meta.parseRemoteMeta (Copia.Meta.render es) =
      es.foldl (fun m e => Copia.Meta.insertAL m e.path (Copia.Meta.metaOf e)) [] := by
    unfold Copia.Meta.parseRemoteMeta
    rw [Copia.Meta.split_render es wf]
    exact Copia.Meta.parse_fold es wf []
  rw [hr, h2, Copia.Meta.lookup_fold es [] p nd]
  cases es.find? (fun e => e.path = p) <;> simp [lookup, Copia.Meta.metaOf]

/-- non-vacuity: a path with a tab, a newline and a `*`, a negative mtime, the largest size -/
example : ∀ e ∈ [({ path := "a\tb\n*.txt".toList, size := 18446744073709551615, secs := -5, frac := "5000000000".toList } : Copia.Meta.Entry),
                 { path := "sub/x".toList, size := 0, secs := 1700000000, frac := "0000000000".toList }], e.WF := by
  intro e he
  simp only [List.mem_cons, List.mem_nil_iff, or_false] at he
  rcases he with rfl | rfl <;> exact ⟨by decide, by decide, by decide, by decide, by decide, by decide⟩

/-! Non-vacuity / sanity: concrete instances, including the text-contains-`*` case. -/
example : globMatch "*a".toList "*ba".toList = true := by decide
example : Matches "*a".toList "*ba".toList := (glob_iff _ _).mp (by decide)
example : globMatch "a?c".toList "a*c".toList = true ∧ globMatch "a?c".toList "ac".toList = false := by decide
example : (buildPlan (fun (a b : Nat) => decide (a ≤ b)) (fun p => p == 9)
    [(2, ⟨1, 1⟩), (1, ⟨5, 5⟩), (9, ⟨1, 1⟩)] [(2, ⟨1, 1⟩), (7, ⟨0, 0⟩), (9, ⟨3, 3⟩)] true).transfer = [1] := by
  simp [buildPlan, needsTransfer, lookup]

end Copia.C19
