import Copia.Lemmas.HubTrace
/-!
# C03 / C10 — the call sequence of a solo request is a run of the transition system

`./check C03` and `./check C10` compare the file-system calls a real `copia serve` process makes for one
Put / Delete that runs alone (the gated sequential schedules) with the labels of `soloPut` /
`soloDelete`. These theorems say the labelled executions ARE executions of `HubConc.Step`: the state
each reaches is reachable by `Step`s of process `i` alone, from any state in which `i` has not
started and nobody holds the lock. So a server whose calls differ from the labels (an extra unlink
of the lock file, a staging name that is not its own, the current hash read before the lock, …) is a
server the proofs of C03/C10 do not speak about: the correspondence is broken.
-/
namespace Copia.C03
open Copia.HubConc

theorem solo_put_is_a_run (S : Sys) (s : State) (i : Pid) (h0 : s.pc i = .start) (hl : s.lock = none) :
    Reach S s (soloPut S s i).1 := soloPut_reach S s i h0 hl

theorem solo_delete_is_a_run (S : Sys) (s : State) (i : Pid) (h0 : s.pc i = .start) (hl : s.lock = none) :
    Reach S s (soloDelete S s i).1 := soloDelete_reach S s i h0 hl

/-- the labels: a Put that verifies takes the lock before it reads the current hash, renames exactly
once and unlocks last; one that does not verify only discards its staging file -/
theorem solo_put_calls (S : Sys) (s : State) (i : Pid) :
    let pre := Call.create :: (S.req i).chunks.map (fun _ => Call.write)
    (soloPut S s i).2 = pre ++ [.lock, .read, .commit, .unlock] ∨
    (soloPut S s i).2 = pre ++ [.lock, .read, .conflict, .unlock] ∨
    (soloPut S s i).2 = pre ++ [.discard] := by
  unfold soloPut
  simp only []
  split
  · split
    · exact Or.inl rfl
    · exact Or.inr (Or.inl rfl)
  · exact Or.inr (Or.inr rfl)

end Copia.C03
