import Copia.Lemmas.GenEqLoopsS
/-!
# C13 — the push loop of `hub-sync` in the SOURCE is the model (translated on every run)

`Copia.Gen.Loops.pushLoop` is `hub.rs::hub_sync` from its counters to the end of the `for` over the local files
(`tools/rs2lean_do.py` → `Copia/Gen/LoopsHubSync.lean`): look the path up in the listing taken at the start, skip
when the listed hash is the file's, else `client.put` with the listed hash as `expected` (interpreted as the hub's
CAS-Put at key level, `HubSync.casPut`), count sent / unchanged / conflicts. The C13 theorems (`hubSync_post`,
`second_run_sends_nothing`, `step_lands`, …) are about `syncFile` / `hubSync`.
-/
namespace Copia.C13
open Copia.Hub Copia.HubSync

variable {H : Type} [DecidableEq H]

/-- the loop against ANY listing (fresh or stale) = the model's fold of `syncFile` -/
theorem source_push_loop_is_model (hash : Bytes → H) (cname : HTree → List (List Char) → H → List (List Char))
    (listing : List (List Char) → Option H) (t : HTree) (files : List (List (List Char) × Bytes)) :
    Copia.Gen.Loops.pushLoop hash cname listing t files = files.foldl (syncFile hash cname listing) (t, {}) :=
  Copia.GenEqLoops.pushLoop_eq hash cname listing t files

/-- with the listing the hub gives at that moment it is the model's `hubSync` -/
theorem source_hub_sync_is_model (hash : Bytes → H) (cname : HTree → List (List Char) → H → List (List Char))
    (t : HTree) (files : List (List (List Char) × Bytes)) :
    Copia.Gen.Loops.pushLoop hash cname (fun k => (hget t k).map hash) t files = hubSync hash cname t files :=
  Copia.GenEqLoops.pushLoop_eq hash cname _ t files

end Copia.C13
