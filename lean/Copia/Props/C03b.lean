import Copia.Lemmas.GenEq
/-! C03 — `wire.rs::cas_decide` as translated from the source on this run: commit exactly when the
current hash equals the expected one (the test `specPut` / `specDel` and the sequential hub model use). -/
namespace Copia.C03

theorem source_cas_decide_is_model {H : Type} [DecidableEq H] (current expected : Option H) :
    Copia.Gen.casDecide current expected = .commit ↔ current = expected := by
  have := Copia.GenEq.casDecide_eq current expected
  rw [this]
  simp [Copia.Hub.casCommit]

end Copia.C03
