import Copia.Props.C09
/-!
# C09 — whole run: any number of files delivered concurrently (`--jobs N`), killed at any instant

`Copia.Props.C09` is about one file. A recursive run delivers many files, with up to `--jobs` deliveries in
flight at once; each delivery touches only its own destination path and its own staging sibling
(`<path>.copia-tmp`; distinct paths have distinct staging names, and reserved names are not
destinations). A run killed at any instant is therefore ANY list of (path, call) pairs whose calls at
each path form a prefix of that path's delivery — any interleaving, any cut.
-/
namespace Copia.C09
open Copia.Deliver

variable {K : Type} [DecidableEq K]

structure GState (K : Type) where
  dest : K → Option Bytes
  tmp : K → Option Bytes
  stamped : K → Bool

def GState.at (s : GState K) (k : K) : DState := { dest := s.dest k, tmp := s.tmp k, stamped := s.stamped k }

/-- one call of the delivery of path `e.1` -/
def gexec (s : GState K) (e : K × DStep) : GState K :=
  let d := exec (s.at e.1) e.2
  { dest := fun q => if q = e.1 then d.dest else s.dest q,
    tmp := fun q => if q = e.1 then d.tmp else s.tmp q,
    stamped := fun q => if q = e.1 then d.stamped else s.stamped q }

/-- the calls made at path `k` -/
def callsAt (k : K) (tr : List (K × DStep)) : List DStep := (tr.filter (fun e => e.1 = k)).map (·.2)

/-- what a path sees of the whole interleaved run is exactly its own calls -/
theorem at_fold (tr : List (K × DStep)) (s : GState K) (k : K) :
    (tr.foldl gexec s).at k = (callsAt k tr).foldl exec (s.at k) := by
  induction tr generalizing s with
  | nil => rfl
  | cons e t ih =>
    simp only [List.foldl_cons]
    rw [ih]
    by_cases h : e.1 = k
    · subst h
      have : callsAt e.1 (e :: t) = e.2 :: callsAt e.1 t := by simp [callsAt]
      rw [this, List.foldl_cons]
      congr 1
      simp [GState.at, gexec]
    · have : callsAt k (e :: t) = callsAt k t := by simp [callsAt, h]
      rw [this]
      congr 1
      have hk : ¬ k = e.1 := fun x => h x.symm
      simp [GState.at, gexec, hk]

/-- C09 (whole run, local / pull, any `--jobs`, killed at any instant): after ANY interleaving of ANY
prefixes of the per-file deliveries, every destination path holds its complete old bytes or the
complete bytes of its source file, and a path no delivery was started for is exactly as it was. -/
theorem parallel_atomic (chunks : K → List Bytes) (tr : List (K × DStep)) (s : GState K)
    (h : ∀ k, callsAt k tr <+: deliverSteps (chunks k)) (k : K) :
    ((tr.foldl gexec s).dest k = s.dest k ∨ (tr.foldl gexec s).dest k = some (chunks k).flatten) ∧
    (callsAt k tr = [] → (tr.foldl gexec s).dest k = s.dest k ∧ (tr.foldl gexec s).tmp k = s.tmp k) := by
  have hk := at_fold tr s k
  constructor
  · obtain ⟨j, hj⟩ : ∃ j, callsAt k tr = (deliverSteps (chunks k)).take j := by
      obtain ⟨t, ht⟩ := h k
      exact ⟨(callsAt k tr).length, by rw [← ht]; simp⟩
    have := atomic_prefix (s.at k) (chunks k) j
    rw [← hj, ← hk] at this
    exact this
  · intro he
    rw [he] at hk
    exact ⟨congrArg DState.dest hk, congrArg DState.tmp hk⟩

/-- non-vacuity: two files in flight, cut in the middle of the second one's chunks -/
example : (([(1, DStep.openTmp), (2, .openTmp), (1, .chunk [7]), (2, .chunk [8]), (1, .publish)] : List (Nat × DStep)).foldl gexec
    { dest := fun _ => some [0], tmp := fun _ => none, stamped := fun _ => false }).dest 1 = some [7] := by decide

end Copia.C09
