import Copia.Lemmas.GenEqLoopsW
/-!
# C12 — `read_frame`, from the source as it is now

`Copia.Gen.Loops.readFrame` is `wire.rs::read_frame` over an in-memory input as `tools/rs2lean_do.py` translates it on
every run: the four-byte prefix (a short one is a clean end of input), the test against `MAX_FRAME`, THEN the buffer of
that size, THEN `read_exact`, THEN the decoder on exactly those bytes. `Hub.serveLoop` is the model every C12 theorem
(`Props/C12`) is about.
-/
namespace Copia.C12
open Copia.Hub Copia.WireSupport Copia.GenEqLoops

variable {H : Type} [DecidableEq H]

/-- **one round of the model's serve loop is the translated `read_frame`** followed by the dispatch on its outcome — for
every input, tree and history of the session. -/
theorem source_read_frame_is_loop_round (hash : Bytes → H) (short : H → List Char) (decode : Bytes → Option (Req H))
    (fuel : Nat) (inp : Bytes) (t : HTree) (rs : List (Reply H)) (al : List Nat) :
    serveLoop hash short decode (fuel + 1) inp t rs al =
      match Copia.Gen.Loops.readFrame decode inp with
      | FrameRes.eof => { replies := rs.reverse, tree := t, exit := .clean, allocs := al.reverse }
      | FrameRes.tooLarge => { replies := rs.reverse, tree := t, exit := .frameTooLarge, allocs := al.reverse }
      | FrameRes.short a => { replies := rs.reverse, tree := t, exit := .ioError, allocs := (a :: al).reverse }
      | FrameRes.badBody a => { replies := rs.reverse, tree := t, exit := .badBody, allocs := (a :: al).reverse }
      | FrameRes.frame req a rest =>
        let st := handle hash short t req rest
        if st.fatal then { replies := rs.reverse, tree := t, exit := .ioError, allocs := (a :: al).reverse } else
        match st.reply with
        | none => { replies := rs.reverse, tree := st.tree, exit := .clean, allocs := (a :: al).reverse }
        | some r => serveLoop hash short decode fuel (rest.drop st.consumed) st.tree (r :: rs) (a :: al) :=
  serveLoop_step hash short decode fuel inp t rs al

/-- **whatever bytes arrive, the translated `read_frame` never reserves more than `MAX_FRAME` for a frame body** — the
test stands before the `vec![0u8; len]` (a reservation moved above the test changes the translation). -/
theorem source_read_frame_reserves_at_most_max {R : Type} (decode : Bytes → Option R) (inp : Bytes) :
    match Copia.Gen.Loops.readFrame decode inp with
    | FrameRes.short a => a ≤ Gen.maxFrame
    | FrameRes.badBody a => a ≤ Gen.maxFrame
    | FrameRes.frame _ a _ => a ≤ Gen.maxFrame
    | _ => True := by
  rw [readFrame_eq]
  by_cases h1 : inp.length < 4
  · simp only [h1, if_true]
  · by_cases h2 : be32 (inp.take 4) > Gen.maxFrame
    · simp only [h1, h2, if_true, if_false]
    · by_cases h3 : (inp.drop 4).length < be32 (inp.take 4)
      · simp only [h1, h2, h3, if_true, if_false]; omega
      · simp only [h1, h2, h3, if_false]
        cases decode ((inp.drop 4).take (be32 (inp.take 4))) <;> simp only <;> omega

/-- **a frame consumes exactly its prefix and its announced length** — the stream stays in step: what is left is the
input minus `4 + len` bytes, and the decoder saw exactly the `len` bytes in between. -/
theorem source_read_frame_stays_in_step {R : Type} (decode : Bytes → Option R) (inp : Bytes) (req : R) (a : Nat) (rest : Bytes)
    (h : Copia.Gen.Loops.readFrame decode inp = FrameRes.frame req a rest) :
    a = be32 (inp.take 4) ∧ rest = inp.drop (4 + a) ∧ decode ((inp.drop 4).take a) = some req := by
  rw [readFrame_eq] at h
  by_cases h1 : inp.length < 4
  · simp only [h1, if_true] at h; cases h
  · by_cases h2 : be32 (inp.take 4) > Gen.maxFrame
    · simp only [h1, h2, if_true, if_false] at h; cases h
    · by_cases h3 : (inp.drop 4).length < be32 (inp.take 4)
      · simp only [h1, h2, h3, if_true, if_false] at h; cases h
      · simp only [h1, h2, h3, if_false] at h
        cases hd : decode ((inp.drop 4).take (be32 (inp.take 4))) with
        | none => rw [hd] at h; cases h
        | some r =>
          rw [hd] at h
          injection h with h1' h2' h3'
          subst h1' h2' h3'
          exact ⟨rfl, by rw [List.drop_drop, Nat.add_comm], hd⟩

/-- **`serve.rs::serve`, translated on this run, is the model's `serve`** — for every input byte string and every tree: the
prologue is read and tested BEFORE anything else (a short one ends the session as an I/O error, a wrong one as a bad
prologue: no reply, the tree as it was), then frames are read by the translated `read_frame` and dispatched — `Hello` and
`List` answered in place, `Get` / `Put` / `Delete` handed to their handlers (the model's `handle`; `handle_put`,
`handle_delete` and `read_frame` are translated on their own), a handler's I/O failure ends the session without a reply, `Bye`
ends it — until the input is used up. Every C12 theorem of `Props/C12` is about `serve`. A statement added in front of the
prologue test (seed C12-J: a start-up sweep of the tree), another accepted prologue (seed C12-K), a reply written for an
unreadable frame change the translation. -/
theorem source_serve_is_model (hash : Bytes → H) (short : H → List Char) (decode : Bytes → Option (Req H)) (inp : Bytes) (t : HTree) :
    Copia.Gen.Loops.serveGen hash short decode (inp.length + 1) inp t = some (serve hash short decode inp t) :=
  serveGen_eq hash short decode inp t

end Copia.C12
