import Copia.Lemmas.Plan
/-!
# C15 — excludes protect, deletes are opt-in (pure part)

The matcher/exclusion/plan part of C15 as theorems over `Copia.Model.Plan`. The dry-run part
("`--dry-run` changes nothing and prints exactly the plan") is a statement about the CLI drivers
(`incremental.rs`, `bidir.rs`); it is carried by the one-way / bisync models (see Props/C04, C06) and
by the black-box correspondence of `./check C15`.
-/
namespace Copia.C15
open Copia.Plan

/-- C15 (exclusion semantics): a path is excluded iff some pattern (trailing `/` trimmed, empty
ignored) matches — a slash-free pattern against any single component, a pattern containing `/`
against the whole relative path — under the wildcard semantics `Matches` (`*` any run, `?` exactly
one character, everything else literal even in names containing `*` or `?`). -/
theorem excluded_iff (rel : List Char) (ex : List (List Char)) :
    isExcluded rel ex = true ↔
      ∃ pat ∈ ex, trimEndSlash pat ≠ [] ∧
        (if (trimEndSlash pat).contains '/' then Matches (trimEndSlash pat) rel
         else ∃ comp ∈ splitSlash rel, Matches (trimEndSlash pat) comp) :=
  isExcluded_iff rel ex

/-- C15: an excluded path is never transferred and never deleted. -/
theorem excluded_protected {K} [DecidableEq K] (le : K → K → Bool) (excl : K → Bool)
    (src dst : List (K × FileMeta)) (wd : Bool) (p : K) (h : excl p = true) :
    p ∉ (buildPlan le excl src dst wd).transfer ∧ p ∉ (buildPlan le excl src dst wd).delete := by
  constructor
  · intro hm
    obtain ⟨_, _, he, _⟩ := (mem_transfer le excl src dst wd p).mp hm
    rw [h] at he; cases he
  · intro hm
    obtain ⟨_, _, _, he⟩ := (mem_delete le excl src dst wd p).mp hm
    rw [h] at he; cases he

/-- C15: without `--delete` the plan removes nothing. -/
theorem no_delete_without_flag {K} [DecidableEq K] (le : K → K → Bool) (excl : K → Bool)
    (src dst : List (K × FileMeta)) : (buildPlan le excl src dst false).delete = [] := by
  simp [buildPlan]

/-- C15: deletions never touch a path that exists in the source. -/
theorem delete_only_stale {K} [DecidableEq K] (le : K → K → Bool) (excl : K → Bool)
    (src dst : List (K × FileMeta)) (wd : Bool) (p : K)
    (h : p ∈ (buildPlan le excl src dst wd).delete) : p ∉ src.map (·.1) ∧ p ∈ dst.map (·.1) := by
  obtain ⟨_, h2, h3, _⟩ := (mem_delete le excl src dst wd p).mp h
  exact ⟨(lookup_none_iff src p).mp h3, h2⟩

/-! Non-vacuity: a file whose name contains `*` is protected by `*.tmp`, component-wise. -/
example : isExcluded "d/*a.tmp".toList ["*.tmp".toList] = true := by decide
example : isExcluded "d/x".toList ["d/".toList] = true ∧ isExcluded "dd/x".toList ["d/".toList, [], "/".toList] = false := by decide

end Copia.C15
