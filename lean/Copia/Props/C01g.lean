import Copia.Props.C05c
/-! C01 — `single_sync.rs::run_sync` (translated on this run): the single-file `copia sync SRC DST`. The block size is tested FIRST
(`validate_block_size`, itself translated: `C05.source_valid_block_size`) — an invalid one ends the command before any of the three runs
starts —, then the pair of endpoints picks the run: local to local (the engine pipeline of `source_sync_files_is_model`), local to remote,
remote to local; remote to remote is refused. -/
namespace Copia.C01
open Copia.Gen.Loops

theorem source_single_sync_dispatch (bs : Nat) (sr dr : Bool) :
    singleDispatchGen bs sr dr =
      if validateBlockSizeGen bs = true then
        (match sr, dr with
         | false, false => some 0
         | false, true => some 1
         | true, false => some 2
         | true, true => none)
      else none := by
  unfold singleDispatchGen
  cases h : validateBlockSizeGen bs <;> cases sr <;> cases dr <;> rfl

/-- a run starts only with a block size that is a power of two in 512..=65536, and never for two remote endpoints -/
theorem source_single_sync_runs_only_when_valid (bs : Nat) (sr dr : Bool) (k : Nat) (h : singleDispatchGen bs sr dr = some k) :
    (512 ≤ bs ∧ bs ≤ 65536 ∧ 2 ^ Nat.log2 bs = bs) ∧ ¬ (sr = true ∧ dr = true) ∧ k < 3 := by
  rw [source_single_sync_dispatch] at h
  cases hv : validateBlockSizeGen bs with
  | false => simp [hv] at h
  | true =>
    refine ⟨Copia.C05.source_valid_block_size bs hv, ?_, ?_⟩
    · rintro ⟨rfl, rfl⟩; simp [hv] at h
    · cases sr <;> cases dr <;> simp [hv] at h <;> omega

example : singleDispatchGen 2048 false false = some 0 ∧ singleDispatchGen 1000 false false = none ∧ singleDispatchGen 4096 true true = none ∧
    singleDispatchGen 65536 true false = some 2 := by decide


/-- **the single-file pull, translated** (`run_sync_remote_to_local`): the command succeeds ONLY when the remote `cat` could be run, exited 0
and the write of the destination succeeded — and then the destination holds exactly the bytes `cat` printed, i.e. the remote file's; a
failed `ssh`, a non-zero remote status (missing file, no permission) or a failed write is an error, never a quiet success with other bytes.
(The write itself is `fs::write`, not a staged rename: the single-file command is outside C09's recursive runs.) -/
theorem source_single_pull_ok_iff (ssh : Option (Bool × List Nat)) (write_ok : Bool) (b : List Nat) :
    singlePullGen ssh write_ok = some b ↔ ssh = some (true, b) ∧ write_ok = true := by
  unfold singlePullGen
  cases ssh with
  | none => simp [Id.run]
  | some o =>
    obtain ⟨st, out⟩ := o
    cases st <;> cases write_ok <;> simp [Id.run]
    show some out = some b ↔ out = b
    exact ⟨fun h => Option.some.inj h, fun h => by rw [h]⟩

example : singlePullGen (some (true, [1, 2, 3])) true = some [1, 2, 3] ∧ singlePullGen (some (false, [])) true = none ∧ singlePullGen none true = none := by decide


/-- the single-file push (`run_sync_local_to_remote`, translated): it succeeds exactly when the push primitive does (`transfer_file_to_remote`,
translated on its own: `C04.source_push_stream_success` says what its success means), and it asks for no time stamp -/
theorem source_single_push_ok_iff (transfer : Option Nat) : singlePushGen transfer = true ↔ transfer.isSome = true := by
  cases transfer with
  | none => exact ⟨fun h => absurd h (by decide), fun h => absurd h (by decide)⟩
  | some n => exact ⟨fun _ => rfl, fun _ => rfl⟩


/-- the single-file local run (`run_sync_local_to_local`, translated): `copia sync LOCAL LOCAL` succeeds exactly when `sync_files` — run with the
block size the user gave — does (`source_sync_files_is_model` / `source_sync_files_delivers`: what that success means for the destination) -/
theorem source_single_local_ok_iff {R : Type} (sync_files : Nat → Option R) (bs : Nat) :
    singleLocalGen sync_files bs = true ↔ (sync_files bs).isSome = true := by
  unfold singleLocalGen
  generalize sync_files bs = o
  cases o with
  | none => exact ⟨fun h => absurd (show false = true from h) Bool.false_ne_true, fun h => absurd (show false = true from h) Bool.false_ne_true⟩
  | some r => exact ⟨fun _ => rfl, fun _ => rfl⟩

end Copia.C01
