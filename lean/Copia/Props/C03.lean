import Copia.Lemmas.HubRefine2
/-!
# C03 — hub commits are a linearizable compare-and-swap: no lost update (interleaved model)

Forward simulation from the interleaved system (`Copia.Model.HubConc`: N server processes, each
performing one Put or one Delete as its sequence of file-system calls, any interleaving, any kills)
to the atomic map `abs : Path → Option content` with `specPut` (CAS on the content hash; the loser is
stored at the conflict-copy name) and `specDel` (CAS delete): every concrete step is a stutter or
exactly one `specPut` / `specDel` of the stepping process's own request, whose linearisation point is
the rename / unlink inside the critical section.

`Get` is not a step kind: it reads one open handle, and `C10.fetch_reads_one_complete_version` shows
the inode behind a published path is never written again, so a Get is an atomic read of `abs` at its
open. `List` walks the tree without the lock and is not claimed atomic. Replies and real schedules
are covered by the schedule-controlled correspondence and its linearizability oracle.
-/
namespace Copia.C03
open Copia.HubConc

/-- C03 (refinement, Put and Delete): from any reachable state, every step of any process is either
invisible to clients or atomically performs that process's Put as specified by `specPut` or its
Delete as specified by `specDel`. -/
theorem refinement {S : Sys} {init : List Chunk → Prop} {s0 s s' : State}
    (wf : WF S) (h0 : Inv S init s0) (l0 : LInv S s0) (r : Reach S s0 s) (st : Step S s s') :
    abs S s' = abs S s ∨ (∃ i, abs S s' = specPut S (abs S s) (S.req i)) ∨
      (∃ i, abs S s' = specDel S (abs S s) (S.req i)) :=
  step_refines wf (reach_inv wf h0 l0 r).1 (reach_inv wf h0 l0 r).2 st

/-- C03 (no lost update): the atomic Put replaces the live content **only** when the hub's current
content hash equals the hash the client said it last saw. -/
theorem spec_commits_only_on_match (S : Sys) (m : Path → Option (List Chunk)) (r : Req)
    (h : (m r.dst).map S.H ≠ r.expected) (hne : S.cname m r.dst r.declared ≠ r.dst) :
    specPut S m r r.dst = m r.dst ∧ specPut S m r (S.cname m r.dst r.declared) = some r.chunks := by
  unfold specPut
  rw [if_neg h]
  constructor
  · simp [upd, Ne.symm hne]
  · simp [upd]

/-- C03 (no acknowledged or conflict-preserved content vanishes): the atomic Put never removes content a client
can see — a path keeps what it held, unless it is the destination and the compare matched (the acknowledged
commit that replaces it), or it is the conflict-copy name, which the repaired hub (D13) picks free or already
holding content of the same hash (`hfree`, established under the commit lock by `handle_put`; the sequential
model's `Hub.ccPick` is that loop). -/
theorem spec_put_preserves_content (S : Sys) (m : Path → Option (List Chunk)) (r : Req)
    (hfree : m (S.cname m r.dst r.declared) = none ∨ (m (S.cname m r.dst r.declared)).map S.H = some (S.H r.chunks))
    (q : Path) (c0 : List Chunk) (h : m q = some c0) :
    specPut S m r q = some c0 ∨ (q = r.dst ∧ (m r.dst).map S.H = r.expected) ∨
    (q = S.cname m r.dst r.declared ∧ S.H c0 = S.H r.chunks) := by
  unfold specPut
  split
  · next he =>
    by_cases hq : q = r.dst
    · exact Or.inr (Or.inl ⟨hq, he⟩)
    · left; simp [upd, hq, h]
  · by_cases hq : q = S.cname m r.dst r.declared
    · right; right
      refine ⟨hq, ?_⟩
      rcases hfree with e | e
      · rw [← hq, h] at e; cases e
      · rw [← hq, h] at e; exact Option.some.inj e
    · left; simp [upd, hq, h]

/-- C03 (acknowledged commit is live): when the hashes match, the Put's bytes are the live content. -/
theorem spec_commit_is_live (S : Sys) (m : Path → Option (List Chunk)) (r : Req)
    (h : (m r.dst).map S.H = r.expected) : specPut S m r r.dst = some r.chunks := by
  unfold specPut
  rw [if_pos h]; simp [upd]

/-- C03 (mutual exclusion): two processes are never both inside the critical section. -/
theorem mutual_exclusion {S : Sys} {init : List Chunk → Prop} {s0 s : State}
    (wf : WF S) (h0 : Inv S init s0) (l0 : LInv S s0) (r : Reach S s0 s) (i j : Pid)
    (hi : holds (s.pc i) = true) (hj : holds (s.pc j) = true) : i = j := by
  have li := (reach_inv wf h0 l0 r).2
  have a := li.holder i hi
  have b := li.holder j hj
  rw [a] at b; cases b; rfl

/-- C03 (the compare is against the CURRENT state): the hash a process compares with `expected` is the
hash of what the destination holds at the moment of its rename — no commit by another process can
slip in between (`LInv.cur` holds in every reachable state). -/
theorem compare_is_current {S : Sys} {init : List Chunk → Prop} {s0 s : State}
    (wf : WF S) (h0 : Inv S init s0) (l0 : LInv S s0) (r : Reach S s0 s) (i : Pid) (fd : Ino) (c : Option Hash)
    (h : s.pc i = .decided fd c) : c = (s.dir (S.req i).dst).map (fun n => S.H (s.ino n)) :=
  (reach_inv wf h0 l0 r).2.cur i fd c h

/-- C03 (delete is a CAS too): the atomic Delete removes the live file **only** when the hub's
current content hash equals the hash the client said it last saw; otherwise nothing changes. -/
theorem spec_delete_only_on_match (S : Sys) (m : Path → Option (List Chunk)) (r : Req) :
    ((m r.dst).map S.H = r.expected → specDel S m r r.dst = none ∧ ∀ q, q ≠ r.dst → specDel S m r q = m q) ∧
    ((m r.dst).map S.H ≠ r.expected → specDel S m r = m) := by
  constructor
  · intro h; unfold specDel; rw [if_pos h]
    exact ⟨by simp [upd], fun q hq => by simp [upd, hq]⟩
  · intro h; unfold specDel; rw [if_neg h]

/-- the same for a Delete's compare -/
theorem delete_compare_is_current {S : Sys} {init : List Chunk → Prop} {s0 s : State}
    (wf : WF S) (h0 : Inv S init s0) (l0 : LInv S s0) (r : Reach S s0 s) (i : Pid) (c : Option Hash)
    (h : s.pc i = .ddecided c) : c = (s.dir (S.req i).dst).map (fun n => S.H (s.ino n)) :=
  (reach_inv wf h0 l0 r).2.dcur i c h

end Copia.C03
