import Copia.Gen.LoopsScan
/-!
# C02 / C06 / C04 / C14 — the two local scans of `meta.rs`, from the source as it is now

`Copia.Gen.Loops.discoverFingerprints` (what `bisync`, `hub-sync` and the hub's `List` see of a tree) and
`discoverWithMeta` (the quick-check listing of a local `sync -r` side) are `meta.rs::discover_local_fingerprints` /
`discover_local_with_meta` as `tools/rs2lean_do.py` translates them on every run, over the walker's answer and the per-file
outcome of `fingerprint_path` / `std::fs::metadata`.
-/
namespace Copia.C06
open Copia.ScanSupport

variable {P C M : Type} [DecidableEq P]

theorem mapGet_mapIns (m : List (P × C)) (k k' : P) (v : C) :
    mapGet (mapIns m k v) k' = if k = k' then some v else mapGet m k' := by
  induction m with
  | nil => simp [mapIns, mapGet]
  | cons e r ih =>
    obtain ⟨k0, v0⟩ := e
    simp only [mapIns]
    by_cases h0 : k0 = k
    · subst h0
      by_cases h1 : k0 = k' <;> simp [mapGet, h1]
    · simp only [h0, if_false, mapGet, ih]
      by_cases h1 : k0 = k'
      · subst h1
        have : ¬ k = k0 := fun e => h0 e.symm
        simp [this]
      · simp [h1]

/-- the fingerprint scan as a fold -/
def fpFold (fp : P → Option C) (files : List P) (acc : List (P × C)) : List (P × C) :=
  files.foldl (fun o p => match fp p with
    | some c => mapIns o p c
    | none => o) acc

theorem scan_forIn (fp : P → Option C) (f : P → List (P × C) → Id (ForInStep (List (P × C))))
    (hf : ∀ p o, f p o = match fp p with
      | some c => ForInStep.yield (mapIns o p c)
      | none => ForInStep.yield o) :
    ∀ (files : List P) (acc : List (P × C)), forIn (m := Id) files acc f = fpFold fp files acc := by
  intro files
  induction files with
  | nil => intro acc; rfl
  | cons p ps ih =>
    intro acc
    simp only [List.forIn_cons, hf, bind, fpFold, List.foldl_cons]
    cases fp p <;> exact ih _

theorem fpFold_get (fp : P → Option C) :
    ∀ (files : List P) (acc : List (P × C)) (q : P),
      mapGet (fpFold fp files acc) q =
        if q ∈ files ∧ (fp q).isSome then fp q else mapGet acc q := by
  intro files
  induction files with
  | nil => intro acc q; simp [fpFold]
  | cons p ps ih =>
    intro acc q
    simp only [fpFold, List.foldl_cons] at ih ⊢
    rw [ih]
    by_cases hq : q ∈ ps ∧ (fp q).isSome = true
    · simp [hq.1, hq.2]
    · simp only [hq, if_false]
      cases hp : fp p with
      | none =>
        by_cases hqp : q = p
        · subst hqp; simp [hp]
        · have : ¬ (q ∈ p :: ps ∧ (fp q).isSome = true) := by
            intro h; apply hq; refine ⟨?_, h.2⟩
            cases List.mem_cons.mp h.1 with
            | inl e => exact absurd e hqp
            | inr e => exact e
          rw [if_neg this]
      | some c =>
        rw [mapGet_mapIns]
        by_cases hqp : p = q
        · subst hqp; simp [hp]
        · have hne : ¬ q = p := fun e => hqp e.symm
          have : ¬ (q ∈ p :: ps ∧ (fp q).isSome = true) := by
            intro h; apply hq; refine ⟨?_, h.2⟩
            cases List.mem_cons.mp h.1 with
            | inl e => exact absurd e hne
            | inr e => exact e
          rw [if_neg hqp, if_neg this]

/-- **the fingerprint scan lists exactly the files the walker listed and whose fingerprint could be read, each with that
fingerprint** — whatever their size, name or position (a file of some size left out — seed C06-L —, a component test on the
joined path — seed C07-K —, a per-root filter — seed C02-J — change the translation); and it fails when the walker fails. -/
theorem source_fingerprint_scan_is_exact (files : List P) (fp : P → Option C) :
    ∃ m, Copia.Gen.Loops.discoverFingerprints (some files) fp = some m ∧
      ∀ q, mapGet m q = if q ∈ files then fp q else none := by
  refine ⟨fpFold fp files [], ?_, ?_⟩
  · unfold Copia.Gen.Loops.discoverFingerprints
    simp only [Id.run, bind, pure]
    rw [scan_forIn fp _ (by intro p o; cases fp p <;> rfl)]
  · intro q
    rw [fpFold_get]
    by_cases hq : q ∈ files
    · cases hf : fp q <;> simp [hq, hf, mapGet]
    · simp [hq, mapGet]

theorem source_fingerprint_scan_fails_with_the_walker (fp : P → Option C) :
    Copia.Gen.Loops.discoverFingerprints (none : Option (List P)) fp = none := by
  unfold Copia.Gen.Loops.discoverFingerprints
  simp [Id.run, pure]

end Copia.C06

namespace Copia.C04
open Copia.ScanSupport Copia.C06

variable {P M : Type} [DecidableEq P]

def statOk (md : P → StatRes M) (p : P) : Option M :=
  match md p with
  | StatRes.ok m => some m
  | _ => none

theorem meta_forIn_ok (md : P → StatRes M)
    (f : P → (Option (Option (List (P × M))) × List (P × M)) → Id (ForInStep (Option (Option (List (P × M))) × List (P × M))))
    (hf : ∀ p s, f p s = match md p with
      | StatRes.ok m => ForInStep.yield (none, mapIns s.2 p m)
      | StatRes.notFound => ForInStep.yield (none, s.2)
      | StatRes.otherError => ForInStep.done (some none, s.2)) :
    ∀ (files : List P) (acc : List (P × M)), (∀ p ∈ files, md p ≠ StatRes.otherError) →
      forIn (m := Id) files (none, acc) f = (none, fpFold (statOk md) files acc) := by
  intro files
  induction files with
  | nil => intro acc _; rfl
  | cons p ps ih =>
    intro acc h
    have hp := h p List.mem_cons_self
    have hps : ∀ q ∈ ps, md q ≠ StatRes.otherError := fun q hq => h q (List.mem_cons_of_mem _ hq)
    simp only [List.forIn_cons, hf, bind, fpFold, List.foldl_cons, statOk]
    cases hm : md p with
    | ok m => simpa [fpFold, statOk] using ih (mapIns acc p m) hps
    | notFound => simpa [fpFold, statOk] using ih acc hps
    | otherError => exact absurd hm hp

theorem meta_forIn_err (md : P → StatRes M)
    (f : P → (Option (Option (List (P × M))) × List (P × M)) → Id (ForInStep (Option (Option (List (P × M))) × List (P × M))))
    (hf : ∀ p s, f p s = match md p with
      | StatRes.ok m => ForInStep.yield (none, mapIns s.2 p m)
      | StatRes.notFound => ForInStep.yield (none, s.2)
      | StatRes.otherError => ForInStep.done (some none, s.2)) :
    ∀ (files : List P) (acc : List (P × M)), (∃ p ∈ files, md p = StatRes.otherError) →
      (forIn (m := Id) files (none, acc) f).1 = some none := by
  intro files
  induction files with
  | nil => intro acc h; obtain ⟨p, hp, _⟩ := h; cases hp
  | cons p ps ih =>
    intro acc h
    simp only [List.forIn_cons, hf, bind]
    cases hm : md p with
    | otherError => rfl
    | ok m =>
      apply ih
      obtain ⟨q, hq, hqe⟩ := h
      cases List.mem_cons.mp hq with
      | inl e => subst e; rw [hm] at hqe; cases hqe
      | inr e => exact ⟨q, e, hqe⟩
    | notFound =>
      apply ih
      obtain ⟨q, hq, hqe⟩ := h
      cases List.mem_cons.mp hq with
      | inl e => subst e; rw [hm] at hqe; cases hqe
      | inr e => exact ⟨q, e, hqe⟩

/-- **a listed file whose `stat` fails with anything but NotFound fails the whole quick-check scan** (D23: it used to drop
out of the listing, and the run reported success without it) — for every list of files and every outcome of the stats -/
theorem source_meta_scan_fails_on_a_stat_error (files : List P) (md : P → StatRes M)
    (h : ∃ p ∈ files, md p = StatRes.otherError) : Copia.Gen.Loops.discoverWithMeta (some files) md = none := by
  unfold Copia.Gen.Loops.discoverWithMeta
  simp only [Id.run, bind, pure]
  rw [meta_forIn_err md _ (by intro p s; cases md p <;> rfl) files [] h]

/-- **otherwise it lists exactly the walker's files that still exist, each with its metadata** -/
theorem source_meta_scan_is_exact (files : List P) (md : P → StatRes M) (h : ∀ p ∈ files, md p ≠ StatRes.otherError) :
    ∃ m, Copia.Gen.Loops.discoverWithMeta (some files) md = some m ∧
      ∀ q, mapGet m q = if q ∈ files then statOk md q else none := by
  refine ⟨fpFold (statOk md) files [], ?_, ?_⟩
  · unfold Copia.Gen.Loops.discoverWithMeta
    simp only [Id.run, bind, pure]
    rw [meta_forIn_ok md _ (by intro p s; cases md p <;> rfl) files [] h]
  · intro q
    rw [fpFold_get]
    by_cases hq : q ∈ files
    · cases hf : statOk md q <;> simp [hq, hf, mapGet]
    · simp [hq, mapGet]

end Copia.C04
