import Copia.Lemmas.Hub2
/-!
# C13 — hub-sync lands the local tree on the hub and skips what is already there

Client model `Copia.Model.HubSync` over the hub's CAS-Put. Without interference: the exit-0
postcondition and "a second run sends nothing", for all hub trees and all local trees. With
interference (stale listing): each Put still lands the client's bytes at the path or at its
conflict-copy and never overwrites another client's commit. The real `copia hub-sync` (local target
and `host:root` through the SSH stand-in, incl. a relay that pauses a client between List and Put
while another client commits) is tied by `./check C13`.
-/
namespace Copia.C13
open Copia.Hub Copia.HubSync

variable {H : Type} [DecidableEq H]

/-- C13: whatever the hub holds, a CAS-Put lands the client's bytes on the hub: at the path (commit)
or at the conflict-copy next to it (stale listing). -/
theorem put_lands (hash : Bytes → H) (cname : HTree → List (List Char) → H → List (List Char))
    (t : HTree) (k : List (List Char)) (e : Option H) (c : Bytes) :
    hget (casPut hash cname t k e c).1 k = some c ∨ hget (casPut hash cname t k e c).1 (cname t k (hash c)) = some c := by
  unfold casPut
  split
  · left; simp [hget_hins]
  · right; simp [hget_hins]

/-- C13: a Put issued on a stale listing never overwrites what another client committed — the live
path is exactly as it was (provided the conflict-copy name is a different key). -/
theorem stale_put_does_not_overwrite (hash : Bytes → H) (cname : HTree → List (List Char) → H → List (List Char))
    (t : HTree) (k : List (List Char)) (e : Option H) (c : Bytes)
    (hstale : (hget t k).map hash ≠ e) (hne : cname t k (hash c) ≠ k) :
    hget (casPut hash cname t k e c).1 k = hget t k ∧ (casPut hash cname t k e c).2 = false := by
  unfold casPut
  rw [if_neg hstale]
  simp [hget_hins, Ne.symm hne]

/-- C13: a Put only ever touches the path it names or that path's conflict-copy name. -/
theorem put_touches_only_its_paths (hash : Bytes → H) (cname : HTree → List (List Char) → H → List (List Char))
    (t : HTree) (k q : List (List Char)) (e : Option H) (c : Bytes)
    (h1 : q ≠ k) (h2 : q ≠ cname t k (hash c)) :
    hget (casPut hash cname t k e c).1 q = hget t q := by
  unfold casPut
  split <;> simp [hget_hins, h1, h2]

/-- one loop iteration without interference keeps: (i) already-handled files in place, (ii) untouched paths -/
theorem syncFile_fresh (hash : Bytes → H) (cname : HTree → List (List Char) → H → List (List Char))
    (t0 : HTree) (st : HTree × Counters) (f : List (List Char) × Bytes)
    (hsame : hget st.1 f.1 = hget t0 f.1) :
    let r := syncFile hash cname (fun k => (hget t0 k).map hash) st f
    hget r.1 f.1 = some f.2 ∨ (hget t0 f.1).map hash = some (hash f.2) := by
  unfold syncFile
  simp only []
  by_cases he : (hget t0 f.1).map hash = some (hash f.2)
  · right; exact he
  · left
    simp only [he, if_false]
    unfold casPut
    rw [hsame]
    simp [hget_hins]


/-- loop invariant of an uninterfered run -/
theorem hubSync_inv (hash : Bytes → H) (cname : HTree → List (List Char) → H → List (List Char)) (t : HTree) :
    ∀ (todo done : List (List (List Char) × Bytes)) (st : HTree × Counters),
      ((done ++ todo).map (·.1)).Nodup →
      (∀ f ∈ done, (hget st.1 f.1).map hash = some (hash f.2)) →
      (∀ q, q ∉ done.map (·.1) → hget st.1 q = hget t q) →
      st.2.conflicts = 0 →
      let r := todo.foldl (syncFile hash cname (fun k => (hget t k).map hash)) st
      (∀ f ∈ done ++ todo, (hget r.1 f.1).map hash = some (hash f.2)) ∧
      (∀ q, q ∉ (done ++ todo).map (·.1) → hget r.1 q = hget t q) ∧ r.2.conflicts = 0 := by
  intro todo
  induction todo with
  | nil =>
    intro done st _ h1 h2 h3
    simp only [List.foldl_nil, List.append_nil]
    exact ⟨h1, h2, h3⟩
  | cons f rest ih =>
    intro done st hnd h1 h2 h3
    have hfk : f.1 ∉ done.map (·.1) := by
      intro hm
      rw [List.map_append, List.nodup_append] at hnd
      exact hnd.2.2 f.1 hm f.1 (by simp) rfl
    have hcur : hget st.1 f.1 = hget t f.1 := h2 f.1 hfk
    simp only [List.foldl_cons]
    have hnd' : (((done ++ [f]) ++ rest).map (·.1)).Nodup := by simpa using hnd
    have key := ih (done ++ [f]) (syncFile hash cname (fun k => (hget t k).map hash) st f) hnd'
    have e : done ++ f :: rest = (done ++ [f]) ++ rest := by simp
    rw [e]
    apply key
    · -- every handled file (incl. f) is on the hub
      intro g hg
      rcases List.mem_append.mp hg with hg | hg
      · have hgk : g.1 ≠ f.1 := by
          intro e2; exact hfk (e2 ▸ List.mem_map_of_mem (f := (·.1)) hg)
        unfold syncFile
        simp only []
        split
        · exact h1 g hg
        · unfold casPut
          rw [hcur]
          simp only [if_true]
          rw [hget_hins]; simp [hgk, h1 g hg]
      · simp only [List.mem_singleton] at hg
        subst hg
        unfold syncFile
        simp only []
        split
        · next he => rw [hcur]; exact he
        · unfold casPut
          rw [hcur]
          simp [hget_hins]
    · intro q hq
      have hq1 : q ∉ done.map (·.1) := fun hm => hq (by simp at hm ⊢; exact Or.inl hm)
      have hq2 : q ≠ f.1 := fun e2 => hq (by simp [e2])
      unfold syncFile
      simp only []
      split
      · exact h2 q hq1
      · unfold casPut
        rw [hcur]
        simp only [if_true]
        rw [hget_hins]; simp [hq2, h2 q hq1]
    · unfold syncFile
      simp only []
      split
      · exact h3
      · unfold casPut
        rw [hcur]
        simp [h3]

/-- C13 (exit 0 postcondition, no interference): every local file is on the hub at its path, hub
files at other paths are untouched, no conflict is reported. -/
theorem hubSync_post (hash : Bytes → H) (cname : HTree → List (List Char) → H → List (List Char)) (t : HTree)
    (localFiles : List (List (List Char) × Bytes)) (hnd : (localFiles.map (·.1)).Nodup) :
    (∀ f ∈ localFiles, (hget (hubSync hash cname t localFiles).1 f.1).map hash = some (hash f.2)) ∧
    (∀ q, q ∉ localFiles.map (·.1) → hget (hubSync hash cname t localFiles).1 q = hget t q) ∧
    (hubSync hash cname t localFiles).2.conflicts = 0 := by
  have := hubSync_inv hash cname t localFiles [] (t, {}) (by simpa using hnd) (by simp) (by simp) rfl
  simpa [hubSync] using this

/-- C13 (second run): when every local file is already on the hub with the same hash, the run sends
nothing and leaves the hub as it is. -/
theorem second_run_sends_nothing (hash : Bytes → H) (cname : HTree → List (List Char) → H → List (List Char)) (t : HTree)
    (localFiles : List (List (List Char) × Bytes))
    (hall : ∀ f ∈ localFiles, (hget t f.1).map hash = some (hash f.2)) :
    (hubSync hash cname t localFiles).1 = t ∧ (hubSync hash cname t localFiles).2.sent = 0 ∧
    (hubSync hash cname t localFiles).2.conflicts = 0 := by
  unfold hubSync
  have : ∀ (l : List (List (List Char) × Bytes)) (c : Counters), (∀ f ∈ l, (hget t f.1).map hash = some (hash f.2)) →
      (l.foldl (syncFile hash cname (fun k => (hget t k).map hash)) (t, c)).1 = t ∧
      (l.foldl (syncFile hash cname (fun k => (hget t k).map hash)) (t, c)).2.sent = c.sent ∧
      (l.foldl (syncFile hash cname (fun k => (hget t k).map hash)) (t, c)).2.conflicts = c.conflicts := by
    intro l
    induction l with
    | nil => intro c _; simp
    | cons f r ih =>
      intro c h
      simp only [List.foldl_cons]
      have hf := h f (List.mem_cons_self ..)
      have : syncFile hash cname (fun k => (hget t k).map hash) (t, c) f = (t, { c with skipped := c.skipped + 1 }) := by
        unfold syncFile; simp [hf]
      rw [this]
      exact ih _ (fun g hg => h g (List.mem_cons_of_mem _ hg))
  exact this localFiles {} hall

end Copia.C13
