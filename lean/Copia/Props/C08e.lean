import Copia.Gen.LoopsCrash
/-!
# C08 — `copy_atomic` and `Archive::save` in the SOURCE issue exactly the model's calls, in the model's order

`Copia.Gen.Loops.copyAtomic` / `archiveSave` are `bidir.rs::copy_atomic` and `archive.rs::Archive::save` translated
statement by statement into the list of file-system-mutating calls they make (`tools/rs2lean_do.py`; each I/O
statement is interpreted token-for-token: `fs::copy(src, tmp)` = stage, `File::open(tmp)?.sync_all()` = fsync of
the staged file, `rename(tmp, dst)` = publish; directory creation, JSON encoding and the best-effort directory
fsync have no counterpart in the crash model). The crash theorems (`whole_run_prefix`, `recovery`, …) are about
`copySteps` / `archSteps`: stage → fsync → rename, and for the record stage → fsync → (old copy aside) → rename.
-/
namespace Copia.C08
open Copia.Crash

theorem source_copy_atomic_is_model {P C : Type} (s : Side) (p : P) (c : C) :
    Copia.Gen.Loops.copyAtomic s p c = copySteps s p c := rfl

theorem source_archive_save_is_model {P C : Type} (hadArchive : Bool) :
    (Copia.Gen.Loops.archiveSave hadArchive : List (FsStep P C)) = archSteps hadArchive := by
  cases hadArchive <;> rfl

end Copia.C08
