import Copia.Lemmas.Checksum3
/-!
# C17 — rolling checksums equal their definition after any operations

Property theorems only. Model `Copia.Model.Checksum` (bit-precise `RollingChecksum` / `FastRollingChecksum`
of `src/checksum.rs`), spec `Copia.Spec.Checksum`, helpers `Copia.Lemmas.Checksum{1,2,3}`.
The quantifier is over **all** initial windows and **all** operation sequences of any length
(`ValidRun`: bytes are bytes, the window never exceeds `MAXW = 65536`, a slide removes the byte that
really is first).
-/
namespace Copia.C17
open Copia Copia.Checksum

/-- the modulus both types use (65521): the two constants extracted from the source agree. -/
theorem mods_agree : Gen.rollingMod = 65521 ∧ Gen.fastMod = 65521 ∧ Gen.maxBlock = 65536 := ⟨rfl, rfl, rfl⟩

/-- the ghost window stays a byte string of length ≤ MAXW along a valid run -/
theorem window_ok (w : List Nat) (op : Op) (hb : Bytes w) (hl : w.length ≤ MAXW) (hv : ValidOp w op) :
    Bytes (stepW w op) ∧ (stepW w op).length ≤ MAXW := by
  cases op with
  | push x =>
    obtain ⟨hx, hl2⟩ := hv
    exact ⟨hb.snoc hx, by simpa [stepW] using hl2⟩
  | roll o n =>
    obtain ⟨hn, t, rfl⟩ := hv
    exact ⟨hb.tail.snoc hn, by simpa [stepW] using hl⟩

/-- C17 (RollingChecksum): after any valid operation sequence the state **is** the state obtained by
constructing the checksum directly from the bytes currently in the window; its digest is
`((b mod 65521) << 16) | (a mod 65521)` for the exact sums; both components are below 65521 and the
reported length is the window length. -/
theorem rolling_eq_spec (w0 : List Nat) (ops : List Op) (hb : Bytes w0) (hl : w0.length ≤ MAXW)
    (hv : ValidRun w0 ops) :
    let s := ops.foldl Rolling.step (Rolling.new w0)
    let w := ops.foldl stepW w0
    s = Rolling.new w ∧ s.digest = specDigest 65521 w ∧
    s.a = specA w % 65521 ∧ s.b = specB w % 65521 ∧ s.a < 65521 ∧ s.b < 65521 ∧ s.count = w.length := by
  induction ops generalizing w0 with
  | nil =>
    simp only [List.foldl_nil]
    rw [Rolling.new_eq w0 hb hl]
    exact ⟨trivial, Rolling.digest_ofWindow w0, rfl, rfl, Nat.mod_lt _ (by decide), Nat.mod_lt _ (by decide), rfl⟩
  | cons op ops ih =>
    obtain ⟨hop, hrest⟩ := hv
    obtain ⟨hb', hl'⟩ := window_ok w0 op hb hl hop
    have hstep : (Rolling.new w0).step op = Rolling.new (stepW w0 op) := by
      rw [Rolling.new_eq w0 hb hl, Rolling.new_eq _ hb' hl']
      cases op with
      | push x => exact Rolling.push_ofWindow w0 x hop.1
      | roll o n =>
        obtain ⟨hn, t, rfl⟩ := hop
        exact (Rolling.roll_ofWindow o n t hb hn hl).2
    simp only [List.foldl_cons]
    rw [hstep]
    exact ih (stepW w0 op) hb' hl' hrest

/-- invariant of the lazy type along a run -/
theorem fast_good (w0 : List Nat) (ops : List Op) (hb : Bytes w0) (hl : w0.length ≤ MAXW)
    (hv : ValidRun w0 ops) : Good (ops.foldl Fast.step (Fast.new w0)) (ops.foldl stepW w0) := by
  have h0 := Fast.new_good w0 hb hl
  generalize Fast.new w0 = s at h0
  induction ops generalizing w0 s with
  | nil => simpa using h0
  | cons op ops ih =>
    obtain ⟨hop, hrest⟩ := hv
    obtain ⟨hb', hl'⟩ := window_ok w0 op hb hl hop
    have hstep : Good (s.step op) (stepW w0 op) := by
      cases op with
      | push x => exact (Fast.push_good s x w0 h0 hop.1 hop.2).2
      | roll o n =>
        obtain ⟨hn, t, rfl⟩ := hop
        exact (Fast.roll_good s o n t h0 hn).2
    simp only [List.foldl_cons]
    exact ih (stepW w0 op) hb' hl' hrest (s.step op) hstep

/-- C17 (FastRollingChecksum): digest = definition, reported length = window length. -/
theorem fast_eq_spec (w0 : List Nat) (ops : List Op) (hb : Bytes w0) (hl : w0.length ≤ MAXW)
    (hv : ValidRun w0 ops) :
    let s := ops.foldl Fast.step (Fast.new w0)
    let w := ops.foldl stepW w0
    s.digest = specDigest 65521 w ∧ s.digest = (Fast.new w).digest ∧ s.count = w.length := by
  have g := fast_good w0 ops hb hl hv
  have hw : Bytes (ops.foldl stepW w0) ∧ (ops.foldl stepW w0).length ≤ MAXW := ⟨g.bytes, g.lenle⟩
  exact ⟨Fast.digest_good _ _ g,
    by rw [Fast.digest_good _ _ g, Fast.digest_good _ _ (Fast.new_good _ hw.1 hw.2)], g.len⟩

/-- C17: both public types report the same digest after the same operations. -/
theorem types_agree (w0 : List Nat) (ops : List Op) (hb : Bytes w0) (hl : w0.length ≤ MAXW)
    (hv : ValidRun w0 ops) :
    (ops.foldl Rolling.step (Rolling.new w0)).digest = (ops.foldl Fast.step (Fast.new w0)).digest := by
  rw [(rolling_eq_spec w0 ops hb hl hv).2.1, (fast_eq_spec w0 ops hb hl hv).1]

/-- "every step's intermediates stay inside their integer width" along a run -/
def RollingRunOK : Rolling → List Op → Prop
  | _, [] => True
  | s, .push x :: ops => RollingRunOK (s.push x) ops      -- push uses wrapping_add: nothing can trap
  | s, .roll o n :: ops => s.rollOK o n ∧ RollingRunOK (s.roll o n) ops

def FastRunOK : Fast → List Op → Prop
  | _, [] => True
  | s, .push x :: ops => s.pushOK x ∧ FastRunOK (s.push x) ops
  | s, .roll o n :: ops => s.rollOK o n ∧ FastRunOK (s.roll o n) ops

/-- C17 (no intermediate overflow, lazy type): on the property's domain no `u64` intermediate of
`roll`/`push` overflows or goes below zero, whatever the number of operations (this is what the
`NORMALIZE_INTERVAL` buys) — so debug and release builds agree. -/
theorem fast_no_overflow (w0 : List Nat) (ops : List Op) (hb : Bytes w0) (hl : w0.length ≤ MAXW)
    (hv : ValidRun w0 ops) : FastRunOK (Fast.new w0) ops := by
  have h0 := Fast.new_good w0 hb hl
  generalize Fast.new w0 = s at h0
  induction ops generalizing w0 s with
  | nil => trivial
  | cons op ops ih =>
    obtain ⟨hop, hrest⟩ := hv
    obtain ⟨hb', hl'⟩ := window_ok w0 op hb hl hop
    cases op with
    | push x =>
      obtain ⟨ok, g⟩ := Fast.push_good s x w0 h0 hop.1 hop.2
      exact ⟨ok, ih _ hb' hl' hrest _ g⟩
    | roll o n =>
      obtain ⟨hn, t, rfl⟩ := hop
      obtain ⟨ok, g⟩ := Fast.roll_good s o n t h0 hn
      exact ⟨ok, ih _ hb' hl' hrest _ g⟩

/-- C17 (no intermediate overflow, eager type). -/
theorem rolling_no_overflow (w0 : List Nat) (ops : List Op) (hb : Bytes w0) (hl : w0.length ≤ MAXW)
    (hv : ValidRun w0 ops) : RollingRunOK (Rolling.new w0) ops := by
  induction ops generalizing w0 with
  | nil => trivial
  | cons op ops ih =>
    obtain ⟨hop, hrest⟩ := hv
    obtain ⟨hb', hl'⟩ := window_ok w0 op hb hl hop
    cases op with
    | push x =>
      have hstep : (Rolling.new w0).push x = Rolling.new (stepW w0 (.push x)) := by
        rw [Rolling.new_eq w0 hb hl, Rolling.new_eq _ hb' hl']; exact Rolling.push_ofWindow w0 x hop.1
      show RollingRunOK ((Rolling.new w0).push x) ops
      rw [hstep]; exact ih _ hb' hl' hrest
    | roll o n =>
      obtain ⟨hn, t, rfl⟩ := hop
      obtain ⟨ok, e⟩ := Rolling.roll_ofWindow o n t hb hn hl
      rw [Rolling.new_eq _ hb hl]
      refine ⟨ok, ?_⟩
      rw [e]
      have hb2 : Bytes (t ++ [n]) := hb'
      have hl2 : (t ++ [n]).length ≤ MAXW := hl'
      rw [← Rolling.new_eq _ hb2 hl2]
      exact ih _ hb2 hl2 hrest

/-- C17 (`new` does not wrap): the `u64` accumulation loop of both constructors returns the exact sums
for every window of the domain. -/
theorem new_exact (w : List Nat) (hb : Bytes w) (hl : w.length ≤ MAXW) :
    sumLoop w w.length 0 0 = (specA w, specB w) := by
  obtain ⟨f1, f2, f3⟩ := sums_fit w hb hl
  simpa using sumLoop_eq w w.length 0 0 rfl f1 f2 f3

/-! Non-vacuity: a concrete run (window of 0xFF bytes, slides and a push) meets the hypotheses. -/
example : Bytes [255, 255, 7] ∧ [255, 255, 7].length ≤ MAXW ∧
    ValidRun [255, 255, 7] [.roll 255 9, .push 3, .roll 255 0] := by
  refine ⟨by intro x hx; simp at hx; omega, by simp [MAXW, Gen.maxBlock], ?_⟩
  simp [ValidRun, ValidOp, stepW, MAXW, Gen.maxBlock]

end Copia.C17
