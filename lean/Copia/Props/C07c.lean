import Copia.Gen.LoopsArchive
/-!
# C07 / C06 — the record of one root pair is never taken for another pair's

`Copia.Gen.Loops.rootPairHash` is `archive.rs::root_pair_hash` as `tools/rs2lean_do.py` translates it on every run: the
hasher is fed the canonical bytes of root A, ONE NUL byte, the canonical bytes of root B — in that order, nothing else.
A path contains no NUL byte, so the hashed string determines both roots; the record's name (and the `root_pair_hash`
member that `Archive::load` compares) is a collision-free function of the ORDERED pair of canonical roots.
-/
namespace Copia.C07

theorem split_at_first_nul : ∀ (x x' y y' : List Nat), 0 ∉ x → 0 ∉ x' → x ++ 0 :: y = x' ++ 0 :: y' → x = x' ∧ y = y'
  | [], [], y, y', _, _, h => by simpa using h
  | [], c :: x', y, y', _, h', h => by
    simp only [List.nil_append, List.cons_append, List.cons.injEq] at h
    exact absurd (h.1 ▸ List.mem_cons_self) h'
  | c :: x, [], y, y', hx, _, h => by
    simp only [List.nil_append, List.cons_append, List.cons.injEq] at h
    exact absurd (h.1.symm ▸ List.mem_cons_self) hx
  | c :: x, c' :: x', y, y', hx, hx', h => by
    simp only [List.cons_append, List.cons.injEq] at h
    have := split_at_first_nul x x' y y' (fun m => hx (List.mem_cons_of_mem _ m)) (fun m => hx' (List.mem_cons_of_mem _ m)) h.2
    exact ⟨by rw [h.1, this.1], this.2⟩

/-- **two root pairs get the same record name only if they are the same ordered pair of canonical roots** — for a
collision-free hash and NUL-free paths: what the translated `root_pair_hash` feeds the hasher separates the two roots
unambiguously (a separator dropped, the roots sorted or joined with a byte that paths may contain, a lossy conversion of the
path bytes — each changes the translation). -/
theorem source_pair_key_is_injective {P D : Type} (H : List Nat → D) (hH : Function.Injective H) (canon : P → List Nat)
    (hnul : ∀ p, 0 ∉ canon p) (a b a' b' : P)
    (h : Copia.Gen.Loops.rootPairHash H canon a b = Copia.Gen.Loops.rootPairHash H canon a' b') :
    canon a = canon a' ∧ canon b = canon b' := by
  unfold Copia.Gen.Loops.rootPairHash at h
  simp only [Id.run, bind, pure, List.nil_append, List.append_assoc, List.singleton_append] at h
  exact split_at_first_nul _ _ _ _ (hnul a) (hnul a') (hH h)

/-- the pair is ORDERED: (A, B) and (B, A) name different records unless A and B resolve to the same directory -/
theorem source_pair_key_is_ordered {P D : Type} (H : List Nat → D) (hH : Function.Injective H) (canon : P → List Nat)
    (hnul : ∀ p, 0 ∉ canon p) (a b : P)
    (h : Copia.Gen.Loops.rootPairHash H canon a b = Copia.Gen.Loops.rootPairHash H canon b a) : canon a = canon b :=
  (source_pair_key_is_injective H hH canon hnul a b b a h).1

/-- non-vacuity: roots "/x" and "/xy/z" against "/x", "y/z"-style confusions are told apart -/
example : Copia.Gen.Loops.rootPairHash (P := List Nat) id id [47, 120] [121] ≠ Copia.Gen.Loops.rootPairHash (P := List Nat) id id [47, 120, 121] [] := by
  decide

end Copia.C07
