import Copia.Props.C01c
/-! C16 — `ops_eq_textbook` / `literals_le` / `edit_bound` are about the model's `scan`; the scan of both engines as it
stands in the source (translated on this run) IS that function. -/
namespace Copia.C16
open Copia.Delta
open Copia.Checksum (Fast)

theorem source_scan_is_model {D : Type} [DecidableEq D] (H : List Nat → D) (blocks : List (BlockSig D)) (bs : Nat) (src : List Nat)
    (hbs : 0 < bs) (hbs32 : bs < 4294967296) :
    Copia.Gen.Loops.scanSync (src.length + 1) H blocks bs src [] =
        some (scan H blocks bs (src.length + 1) src (src.drop bs) src.length (Fast.new (src.take (min bs src.length))) []) ∧
    Copia.Gen.Loops.scanAsync (src.length + 1) H blocks bs src [] =
        some (scan H blocks bs (src.length + 1) src (src.drop bs) src.length (Fast.new (src.take (min bs src.length))) []) :=
  ⟨Copia.C01.source_scan_sync_is_model H blocks bs src hbs hbs32, Copia.C01.source_scan_async_is_model H blocks bs src hbs hbs32⟩

end Copia.C16
