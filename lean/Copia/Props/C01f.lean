import Copia.Props.C01
import Copia.Gen.LoopsDelta
/-! C01 — `AsyncCopiaSync::sync_files` (the whole of the single-file `copia sync SRC DST`), as it stands in the source (translated on
this run: existence test, the plain copy for a missing destination, the "identical" fast path, signature → delta → patch over the
in-memory bytes, temp file + rename), leaves in the destination exactly what `C01.syncFiles` says — hence, by `C01.sync_files`, the
source's bytes, whatever the destination held (absent, identical, different) and whatever the block size. The reported counts are the
delta's (`bytes_matched + bytes_literal = source size`). A fast path taken for a destination that does not exist (seed C01-M), a patch
whose verdict is ignored, a rename of the wrong file change the translation. -/
namespace Copia.C01
open Copia.Delta

theorem source_sync_files_is_model {D : Type} [DecidableEq D] (H : List Nat → D) (bs : Nat) (src : List Nat) (dst : Option (List Nat)) :
    (Copia.Gen.Loops.syncFilesGen H bs src dst).map (·.1) = syncFiles H bs src dst := by
  unfold Copia.Gen.Loops.syncFilesGen syncFiles
  cases dst with
  | none => rfl
  | some basis =>
    by_cases he : src = basis
    · subst he
      simp [Id.run, pure]
    · have hb : (src == basis) = false := by simpa using he
      simp only [Id.run, Option.isSome_some, Bool.not_true, Bool.false_eq_true, if_false, hb, he, pure, bind]
      cases hp : patch H true basis (delta H (signature H bs basis) src) with
      | mk v out => cases v <;> rfl

/-- so the single-file sync delivers the source's bytes (the `CollisionFree` hypothesis is `C01.sync_files`'s) and reports counts that add up -/
theorem source_sync_files_delivers {D : Type} [DecidableEq D] (H : List Nat → D) (bs : Nat) (hbs : 0 < bs) (src : List Nat) (dst : Option (List Nat))
    (hcf : ∀ basis, dst = some basis → CollisionFree H bs basis src) :
    ∃ m l, Copia.Gen.Loops.syncFilesGen H bs src dst = some (src, m, l) := by
  have h := source_sync_files_is_model H bs src dst
  rw [sync_files H bs hbs src dst hcf] at h
  cases hg : Copia.Gen.Loops.syncFilesGen H bs src dst with
  | none => rw [hg] at h; cases h
  | some r =>
    rw [hg] at h
    obtain ⟨o, m, l⟩ := r
    simp only [Option.map_some, Option.some.injEq] at h
    exact ⟨m, l, by rw [← h]⟩

/-- `Delta::bytes_matched` / `bytes_literal` (translated) are the model's counters — the numbers every report prints and C16's bound is about -/
theorem source_byte_counters_are_model (ops : List Op) :
    Copia.Gen.Loops.bytesMatchedGen ops = matchedBytes ops ∧ Copia.Gen.Loops.bytesLiteralGen ops = literalBytes ops := by
  unfold Copia.Gen.Loops.bytesMatchedGen Copia.Gen.Loops.bytesLiteralGen
  simp only [Id.run, pure]
  induction ops with
  | nil => exact ⟨rfl, rfl⟩
  | cons op t ih =>
    cases op with
    | copy off len => simp only [List.filterMap_cons, List.sum_cons, matchedBytes, literalBytes, ih.1, ih.2]; exact ⟨trivial, trivial⟩
    | literal d => simp only [List.filterMap_cons, List.sum_cons, matchedBytes, literalBytes, ih.1, ih.2]; exact ⟨trivial, trivial⟩

/-- the three commands `copia signature`, `copia delta`, `copia patch` (`main.rs::run_signature / run_delta / run_patch`, translated), each fed the
file the previous one wrote: for a valid block size every command exits 0 and the last one's output file is the source, byte for byte. -/
theorem source_cli_pipeline_roundtrip {D : Type} [DecidableEq D] (H : List Nat → D) (bs : Nat) (hv : Copia.Gen.Loops.validateBlockSizeGen bs = true)
    (basis src : List Nat) (hcf : CollisionFree H bs basis src) :
    Copia.Gen.Loops.runSignatureGen H bs (some basis) = (true, some (signature H bs basis)) ∧
    Copia.Gen.Loops.runDeltaGen H (some (signature H bs basis)) (some src) = (true, some (delta H (signature H bs basis) src)) ∧
    Copia.Gen.Loops.runPatchGen H (some (delta H (signature H bs basis) src)) (some basis) = (true, some src) := by
  have hbs : 0 < bs := by
    cases bs with
    | zero => revert hv; decide
    | succ n => omega
  have hr := roundtrip H bs hbs basis src hcf
  refine ⟨?_, ?_, ?_⟩
  · unfold Copia.Gen.Loops.runSignatureGen
    simp [Id.run, pure, hv]
  · unfold Copia.Gen.Loops.runDeltaGen
    have : (signature H bs basis).blockSize = bs := rfl
    simp [Id.run, pure, this, hv]
  · unfold Copia.Gen.Loops.runPatchGen
    have hle : bs ≤ 65536 := by
      unfold Copia.Gen.Loops.validateBlockSizeGen at hv
      by_cases h1 : 2 ^ Nat.log2 bs = bs
      · by_cases h2 : 512 ≤ bs ∧ bs ≤ 65536
        · exact h2.2
        · simp [Id.run, pure, h1, h2] at hv
      · simp [Id.run, pure, h1] at hv
    have : (delta H (signature H bs basis) src).blockSize = bs := by
      show (signature H bs basis).blockSize % 4294967296 = bs
      have : (signature H bs basis).blockSize = bs := rfl
      rw [this]; omega
    simp [Id.run, pure, this, hv, hr]

end Copia.C01
