import Copia.Lemmas.GenEq
/-! C20 — `FrameHeader::validate` as translated from protocol.rs on this run (its guards, comparison
operators included) is what the model's header decoder checks. -/
namespace Copia.C20

/-- a 12-byte buffer decodes to a header exactly when its type byte is a declared code and the source's
`validate` lets the extracted magic, version and length through -/
theorem header_decode_uses_source_validate (b : Copia.Codec.Bytes) :
    (Copia.Codec.FrameHeader.decode b).isSome =
      (decide (b.length = Copia.Gen.frameHeaderSize) && Copia.Codec.validType ((b.drop 8).headD 0) &&
        Copia.Gen.headerValid (b.take 4) ((b.drop 9).headD 0) (Copia.Codec.ofLe ((b.drop 4).take 4))) :=
  Copia.GenEq.headerDecode_uses_source_validate b

/-- the bound itself is allowed, one more is not (what `>` rather than `>=` in the source means) -/
example : Copia.Gen.headerValid Copia.Gen.protocolMagic Copia.Gen.protocolVersion Copia.Gen.maxPayloadSize = true ∧
    Copia.Gen.headerValid Copia.Gen.protocolMagic Copia.Gen.protocolVersion (Copia.Gen.maxPayloadSize + 1) = false := by decide

end Copia.C20
