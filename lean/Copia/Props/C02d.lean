import Copia.Props.C02c
/-! C02 — the result of `run_bisync` (its last statement, translated on this run): the command exits 0 exactly when `apply` reported no
conflict path during the run — the counter `applyAndRecord` returns (`C02.source_run_is_model`). A run that preserved a conflict always
says so through its exit status; a run without conflicts never fails for that reason. -/
namespace Copia.C02

theorem source_bisync_exits_zero_iff_no_conflict (conflict_paths : Nat) :
    Copia.Gen.Loops.bisyncExitGen conflict_paths = true ↔ conflict_paths = 0 := by
  unfold Copia.Gen.Loops.bisyncExitGen
  cases conflict_paths <;> simp [Id.run, pure]

end Copia.C02
