import Copia.Lemmas.GenEqLoops
import Copia.Lemmas.GenEqLoops2
/-!
# C15 — the exclude test in the SOURCE is the model (translated on every run)

`excluded_iff` / `excluded_protected` are about `Copia.Plan.isExcluded` and `globMatch`. These two
theorems say that `plan.rs::is_excluded` and `plan.rs::glob_match`, translated statement by statement
from the current source (`tools/rs2lean_do.py` → `Copia/Gen/LoopsPlan.lean`), ARE those functions.
-/
namespace Copia.C15

theorem source_is_excluded_is_model (rel : List Char) (excludes : List (List Char)) :
    Copia.Gen.Loops.isExcluded Copia.Plan.globMatch rel excludes = Copia.Plan.isExcluded rel excludes :=
  Copia.GenEqLoops.isExcluded_eq rel excludes

theorem source_glob_match_is_model (p t : List Char) :
    Copia.Gen.Loops.globMatch ((t.length + 2) * (p.length + t.length + 2)) p t = some (Copia.Plan.globMatch p t) :=
  Copia.GenEqLoops.globMatch_eq p t

end Copia.C15
