import Copia.Props.C14
/-!
# C09 — running the same command again after a kill reaches the uninterrupted result

`rerun_reaches_uninterrupted`: let `D'` be ANY destination a killed run can leave behind
(`CrashOf`: outside the plan nothing changed; a planned transfer's path holds what it held, or the
complete source bytes with WHATEVER mtime — published but perhaps not yet stamped; a planned delete's
path holds what it held or nothing — that is what `C09.atomic_prefix` / `parallel_atomic` /
`list_atomic` establish for every kill point). Then the same command run on `D'` leaves at every
path the same bytes, size and whole-second mtime as the uninterrupted run on `D`.
-/
namespace Copia.C09
open Copia.Plan Copia.OneWay

variable {K C : Type} [DecidableEq K] [DecidableEq C]

/-- what a killed `sync -r SRC DST` can leave at the destination -/
def CrashOf (le : K → K → Bool) (excl : K → Bool) (wd : Bool) (S D D' : Tree K C) : Prop :=
  ∀ q,
    (q ∉ (buildPlan le excl (metaOf S) (metaOf D) wd).transfer → q ∉ (buildPlan le excl (metaOf S) (metaOf D) wd).delete →
      lookup D' q = lookup D q) ∧
    (q ∈ (buildPlan le excl (metaOf S) (metaOf D) wd).transfer →
      lookup D' q = lookup D q ∨
      ∃ e e', lookup S q = some e ∧ lookup D' q = some e' ∧ e'.content = e.content ∧ e'.size = e.size) ∧
    (q ∈ (buildPlan le excl (metaOf S) (metaOf D) wd).delete → lookup D' q = lookup D q ∨ lookup D' q = none)

theorem mem_of_lookup {V} (m : List (K × V)) (k : K) (v : V) (h : lookup m k = some v) : (k, v) ∈ m := by
  induction m with
  | nil => simp [lookup] at h
  | cons x r ih =>
    obtain ⟨k', v'⟩ := x
    by_cases e : k' = k
    · subst e; simp [lookup] at h; subst h; simp
    · simp [lookup, e] at h; exact List.mem_cons_of_mem _ (ih h)

theorem mem_keys_iff (t : Tree K C) (q : K) : q ∈ t.map (·.1) ↔ lookup t q ≠ none := by
  rw [Ne, lookup_none_iff]; simp

theorem rerun_reaches_uninterrupted (le : K → K → Bool) (excl : K → Bool) (wd : Bool) (S D D' : Tree K C)
    (hS : (S.map (·.1)).Nodup) (hc : CrashOf le excl wd S D D')
    (hran : (oneWay le excl wd S D).ranPlan = true) (q : K) :
    (lookup (oneWay le excl wd S D').dest q).map strip = (lookup (oneWay le excl wd S D).dest q).map strip := by
  have hran' : (oneWay le excl wd S D').ranPlan = true := by
    unfold oneWay at hran ⊢
    split
    · next h => simp [h] at hran
    · rfl
  have hplan : ∀ X : Tree K C, (oneWay le excl wd S X).ranPlan = true →
      (oneWay le excl wd S X).plan = buildPlan le excl (metaOf S) (metaOf X) wd := by
    intro X hx
    unfold oneWay at hx ⊢
    split
    · next h => simp [h] at hx
    · rfl
  rw [Copia.C04.post le excl wd S D' q hran', Copia.C04.post le excl wd S D q hran, hplan D' hran', hplan D hran]
  obtain ⟨hout, htr, hdel⟩ := hc q
  -- membership in the two plans
  have memT : ∀ X : Tree K C, q ∈ (buildPlan le excl (metaOf S) (metaOf X) wd).transfer ↔
      ∃ e, lookup S q = some e ∧ excl q = false ∧
        needsTransfer { size := e.size, mtime := e.mt } ((lookup X q).map fun e => ({ size := e.size, mtime := e.mt } : FileMeta)) = true := by
    intro X
    rw [mem_transfer, lookup_metaOf]
    constructor
    · rintro ⟨m, hm, hex, hnt⟩
      have hSm := lookup_of_mem_nodup (metaOf S) (by rw [keys_metaOf]; exact hS) q m hm
      rw [lookup_metaOf] at hSm
      cases hl : lookup S q with
      | none => simp [hl] at hSm
      | some e =>
        simp only [hl, Option.map_some, Option.some.injEq] at hSm
        exact ⟨e, rfl, hex, by rw [hSm]; exact hnt⟩
    · rintro ⟨e, hl, hex, hnt⟩
      refine ⟨{ size := e.size, mtime := e.mt }, ?_, hex, hnt⟩
      have : lookup (metaOf S) q = some { size := e.size, mtime := e.mt } := by rw [lookup_metaOf, hl]; rfl
      exact mem_of_lookup (metaOf S) q _ this
  have memD : ∀ X : Tree K C, q ∈ (buildPlan le excl (metaOf S) (metaOf X) wd).delete ↔
      wd = true ∧ lookup X q ≠ none ∧ lookup S q = none ∧ excl q = false := by
    intro X
    rw [mem_delete, lookup_metaOf, keys_metaOf, mem_keys_iff]
    constructor
    · rintro ⟨a, b, c, d⟩; exact ⟨a, b, by cases h : lookup S q <;> simp_all, d⟩
    · rintro ⟨a, b, c, d⟩; exact ⟨a, b, by simp [c], d⟩
  by_cases hT : q ∈ (buildPlan le excl (metaOf S) (metaOf D) wd).transfer
  · -- a planned transfer
    obtain ⟨e, hSe, hex, hnt⟩ := (memT D).mp hT
    have hnD : q ∉ (buildPlan le excl (metaOf S) (metaOf D) wd).delete := by
      intro h; have := ((memD D).mp h).2.2.1; rw [hSe] at this; cases this
    have hnD' : q ∉ (buildPlan le excl (metaOf S) (metaOf D') wd).delete := by
      intro h; have := ((memD D').mp h).2.2.1; rw [hSe] at this; cases this
    simp only [hnD, hnD', hT, if_false, if_true]
    by_cases hT' : q ∈ (buildPlan le excl (metaOf S) (metaOf D') wd).transfer
    · simp [hT']
    · simp only [hT', if_false]
      rcases htr hT with hsame | ⟨e0, e', h1, h2, h3, h4⟩
      · exfalso; apply hT'
        exact (memT D').mpr ⟨e, hSe, hex, by rw [hsame]; exact hnt⟩
      · rw [hSe] at h1; cases h1
        have hno : ¬ needsTransfer { size := e.size, mtime := e.mt }
            ((lookup D' q).map fun e => ({ size := e.size, mtime := e.mt } : FileMeta)) = true :=
          fun hn => hT' ((memT D').mpr ⟨e, hSe, hex, hn⟩)
        rw [h2] at hno ⊢
        simp only [Option.map_some, needsTransfer, Bool.or_eq_true, decide_eq_true_eq, not_or, Classical.not_not] at hno
        rw [hSe]
        simp only [Option.map_some, strip]
        congr 1
        cases e; cases e'
        simp_all
  · by_cases hDl : q ∈ (buildPlan le excl (metaOf S) (metaOf D) wd).delete
    · -- a planned delete
      obtain ⟨hwd, hDq, hSq, hex⟩ := (memD D).mp hDl
      have hnT' : q ∉ (buildPlan le excl (metaOf S) (metaOf D') wd).transfer := by
        intro h; obtain ⟨e, he, _⟩ := (memT D').mp h; rw [hSq] at he; cases he
      simp only [hDl, if_true]
      by_cases hDl' : q ∈ (buildPlan le excl (metaOf S) (metaOf D') wd).delete
      · simp [hDl']
      · simp only [hDl', hnT', if_false]
        rcases hdel hDl with hsame | hnone
        · exfalso; apply hDl'
          exact (memD D').mpr ⟨hwd, by rw [hsame]; exact hDq, hSq, hex⟩
        · rw [hnone]
    · -- outside the plan
      have hsame := hout hT hDl
      have hT' : q ∉ (buildPlan le excl (metaOf S) (metaOf D') wd).transfer := by
        intro h; apply hT; rw [memT] at h ⊢; rw [hsame] at h; exact h
      have hDl' : q ∉ (buildPlan le excl (metaOf S) (metaOf D') wd).delete := by
        intro h; apply hDl; rw [memD] at h ⊢; rw [hsame] at h; exact h
      simp [hT, hDl, hT', hDl', hsame]

end Copia.C09
