import Copia.Lemmas.GenEqLoopsU
import Copia.Lemmas.HubGetSolo
/-!
# C10 — `handle_get`, from the source as it is now, is the reader of `HubGet`

`Copia.Gen.Loops.handleGet` is `serve.rs::handle_get` as `tools/rs2lean_do.py` translates it on every run into the calls
it makes on its ONE open handle and the reply it writes: `File::open` (the name is resolved once), `metadata()` of the
handle, a first pass over the handle that feeds the hasher to end of file, the `Content{len, hash}` header, a rewind, a
second pass over the SAME handle limited to `len`. `HubGet.GStep` is the transition system in which these calls interleave
with any writer (`C10.get_reply_is_one_version`, `Props/C10b`); `soloGet` is its execution when nobody else moves.
-/
namespace Copia.C10
open Copia.HubConc Copia.HubGet Copia.Hub Copia.GenEqLoops

/-- `soloGet` IS an execution of the reader's transition system -/
theorem solo_get_is_an_execution (S : Sys) (s : State) (p : Path) : GReach S p ⟨s, .start⟩ ⟨s, (soloGet S s p).1⟩ :=
  soloGet_reach S s p

/-- **`handle_get` TRANSLATED on this run makes exactly the calls of `soloGet`** — for every system, state and path the hub
accepts: one open, the length from the handle, hash pass to end of file, header, send pass of `len` chunks on the same
handle. A second `open` by name, a length taken from a `stat` of the path, a header written before the hash pass change the
translation and this theorem no longer checks. -/
theorem source_handle_get_calls_are_solo_get (S : Sys) (s : State) (p : Path) :
    (Copia.Gen.Loops.handleGet S.H true ((s.dir p).map s.ino) true).1 = (soloGet S s p).2 := by
  rw [handleGet_eq]
  unfold soloGet
  cases s.dir p <;> simp

/-- **… and replies what that execution ends in**: "not found" when the name resolves to nothing, otherwise the length, the
hash and the bytes of the ONE file the open pinned. -/
theorem source_handle_get_reply_is_solo_get (S : Sys) (s : State) (p : Path) :
    (Copia.Gen.Loops.handleGet S.H true ((s.dir p).map s.ino) true).2 =
      match (soloGet S s p).1 with
      | .replied _ len h bytes => Reply.content len h bytes
      | _ => Reply.error "not found" := by
  rw [handleGet_eq]
  unfold soloGet
  cases s.dir p <;> simp

/-- what a Get announces is what it delivers: `len` chunks that hash to `hash` — for every file content -/
theorem source_get_delivers_what_it_announces (hashOf : List Chunk → Hash) (f : List Chunk) (len : Nat) (h : Hash) (bytes : List Chunk)
    (e : (Copia.Gen.Loops.handleGet hashOf true (some f) true).2 = Reply.content len h bytes) :
    bytes.length = len ∧ hashOf bytes = h := by
  rw [handleGet_eq] at e
  simp only [Bool.not_true, Bool.false_eq_true, if_false, List.take_length] at e
  injection e with e1 e2 e3
  subst e1 e2 e3
  exact ⟨rfl, rfl⟩

end Copia.C10
