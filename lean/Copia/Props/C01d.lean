import Copia.Lemmas.GenEqLoopsO
/-!
# C01 / C16 — `Delta::push_copy / push_literal / push_literal_byte` in the SOURCE are the model's operations

The scan theorems (`source_scan_*_is_model`) interpret `delta.push_*` as the model's accumulator operations. These
theorems close that gap: the three methods of `delta.rs`, translated statement by statement (`self.ops` oldest first,
merging through `last_mut()`, `checked_add` on the copy length), are the model's operations seen through `finish` —
contiguous copies merge unless the length would leave `u32`, literals append to a trailing literal.
-/
namespace Copia.C01
open Copia.Delta

theorem source_push_copy_is_model (rops : List Op) (off len : Nat) :
    Copia.Gen.Loops.pushCopyFwd (finish rops) off len = finish (pushCopy rops off len) :=
  (Copia.GenEqLoops.pushCopy_fwd rops off len).symm

theorem source_push_literal_is_model (rops : List Op) (data : List Nat) :
    Copia.Gen.Loops.pushLiteralFwd (finish rops) data = finish (pushLiteral rops data) :=
  (Copia.GenEqLoops.pushLiteral_fwd rops data).symm

theorem source_push_literal_byte_is_model (rops : List Op) (b : Nat) :
    Copia.Gen.Loops.pushLiteralByteFwd (finish rops) b = finish (pushLiteralByte rops b) :=
  (Copia.GenEqLoops.pushLiteralByte_fwd rops b).symm

end Copia.C01
