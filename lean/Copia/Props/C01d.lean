import Copia.Lemmas.GenEqLoopsO
import Copia.Lemmas.GenEqLoopsG
/-!
# C01 / C16 — `Delta::push_copy / push_literal / push_literal_byte` in the SOURCE are the model's operations

The scan theorems (`source_scan_*_is_model`) interpret `delta.push_*` as the model's accumulator operations. These
theorems close that gap: the three methods of `delta.rs`, translated statement by statement (`self.ops` oldest first,
merging through `last_mut()`, `checked_add` on the copy length), are the model's operations seen through `finish` —
contiguous copies merge unless the length would leave `u32`, literals append to a trailing literal.
-/
namespace Copia.C01
open Copia.Delta

theorem source_push_copy_is_model (rops : List Op) (off len : Nat) :
    Copia.Gen.Loops.pushCopyFwd (finish rops) off len = finish (pushCopy rops off len) :=
  (Copia.GenEqLoops.pushCopy_fwd rops off len).symm

theorem source_push_literal_is_model (rops : List Op) (data : List Nat) :
    Copia.Gen.Loops.pushLiteralFwd (finish rops) data = finish (pushLiteral rops data) :=
  (Copia.GenEqLoops.pushLiteral_fwd rops data).symm

theorem source_push_literal_byte_is_model (rops : List Op) (b : Nat) :
    Copia.Gen.Loops.pushLiteralByteFwd (finish rops) b = finish (pushLiteralByte rops b) :=
  (Copia.GenEqLoops.pushLiteralByte_fwd rops b).symm

/-- `Signature::generate`'s block list (both its rayon path for inputs above 64 KiB and its sequential path:
`chunks(bs).enumerate().map(|(i, chunk)| BlockSignature::compute(i as u32, chunk))`, rayon's `collect` keeping the order)
and `BlockSignature::compute`, TRANSLATED on this run, give the model's block list — for inputs of fewer than 2^32 bytes,
so that no block index is truncated by the `as u32` -/
theorem source_signature_blocks_is_model {D : Type} (H : List Nat → D) (bs : Nat) (data : List Nat)
    (hn : data.length ≤ 4294967296) :
    Copia.Gen.Loops.generateBlocks H bs data = (signature H bs data).blocks :=
  Copia.GenEqLoops.generateBlocks_eq H bs data hn

end Copia.C01
