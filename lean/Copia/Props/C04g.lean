import Copia.Lemmas.GenEqLoopsDirs
/-! C04 "trees of any nesting" — `transfer.rs::collect_dirs` (translated on this run), the directories `sync -r` creates before it delivers
(`create_local_dirs` / `create_remote_dirs` are handed this list): for ANY list of relative paths, with fuel above the deepest one, the result
is exactly the set of their proper, non-empty ancestors — every directory a planned file needs, at every depth, and nothing else (no planned
FILE's own path, no empty path, no directory outside the plan). -/
namespace Copia.C04
open Copia.GenEqLoops

theorem source_collect_dirs_is_exact (fuel : Nat) (files : List (List String)) (hf : ∀ f ∈ files, f.length < fuel) :
    ∃ ds, Copia.Gen.Loops.collectDirsGen fuel files = some ds ∧
      ∀ d, d ∈ ds ↔ ∃ f ∈ files, d ≠ [] ∧ d <+: f ∧ d ≠ f := by
  obtain ⟨ds, h, m⟩ := collect_mem fuel files [] hf
  refine ⟨ds, by rw [collectDirs_eq, h], fun d => ?_⟩
  rw [m]
  simp

/-- in particular the parent directory of every planned file that has one is created -/
theorem source_collect_dirs_has_every_parent (fuel : Nat) (files : List (List String)) (hf : ∀ f ∈ files, f.length < fuel)
    (ds : List (List String)) (h : Copia.Gen.Loops.collectDirsGen fuel files = some ds) (f : List String) (hfm : f ∈ files)
    (hdeep : 2 ≤ f.length) : f.dropLast ∈ ds := by
  obtain ⟨ds', h', m⟩ := source_collect_dirs_is_exact fuel files hf
  rw [h] at h'
  cases h'
  rw [m]
  have hne : f ≠ [] := by intro e; rw [e] at hdeep; simp at hdeep
  refine ⟨f, hfm, ?_, (prefix_dropLast_iff f f.dropLast hne).mp (List.prefix_refl _)⟩
  intro e
  have := congrArg List.length e
  rw [List.length_dropLast] at this
  simp at this
  omega

example : Copia.Gen.Loops.collectDirsGen 5 [["a", "b", "c.txt"], ["a", "d.txt"], ["top.txt"]] = some [["a", "b"], ["a"]] := by decide

end Copia.C04
