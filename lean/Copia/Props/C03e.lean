import Copia.Gen.LoopsHubPut
/-! C03 / C10 — the three helpers every hub handler goes through, as they stand in the source (translated on this run):

* `with_commit_lock`: the closure (the handler's read-decide-rename section, `C03.source_handle_*_calls_are_solo_*`) runs only after
  `commit.lock` was opened WITHOUT truncation and an EXCLUSIVE lock on it was obtained, and the lock is released only after the
  closure returned; when the open or the lock fails the closure does not run and the function does not return Ok. This is the
  mutual exclusion `HubConc.Step` builds in (`lock := some i` needs `lock = none`).
* `tmp_of`: the staging name is the destination's own name plus `.<pid>.copia-tmp`: two processes never share a staging name,
  whatever their destinations (`HubInv.WF.tmp_inj`), and every staging name has the staging shape (`WF.tmp_staging`).
* `current_hash`: any failure to fingerprint the live path reads as "absent"; otherwise it is the file's blake3. -/
namespace Copia.C03
open Copia.HubLock

theorem source_commit_lock_brackets_the_body (open_ok lock_ok : Bool) :
    (LockCall.body ∈ (Copia.Gen.Loops.withCommitLockGen open_ok lock_ok).1 ↔ (open_ok = true ∧ lock_ok = true)) ∧
    ((Copia.Gen.Loops.withCommitLockGen open_ok lock_ok).2 = true ↔ (open_ok = true ∧ lock_ok = true)) ∧
    (LockCall.body ∈ (Copia.Gen.Loops.withCommitLockGen open_ok lock_ok).1 →
      (Copia.Gen.Loops.withCommitLockGen open_ok lock_ok).1 =
        [LockCall.openLockFile true false true, LockCall.lockExclusive, LockCall.body, LockCall.unlock]) := by
  cases open_ok <;> cases lock_ok <;> decide

/-- no call of the function ever unlocks before the body or locks in any mode but exclusive -/
theorem source_commit_lock_calls (open_ok lock_ok : Bool) :
    (Copia.Gen.Loops.withCommitLockGen open_ok lock_ok).1 <+:
      [LockCall.openLockFile true false true, LockCall.lockExclusive, LockCall.body, LockCall.unlock] := by
  cases open_ok <;> cases lock_ok <;> decide

theorem source_current_hash_is_absent_or_the_files (F H : Type) (fp : Option F) (blake3 : F → H) :
    (Copia.Gen.Loops.currentHashGen fp blake3 = none ↔ fp = none) ∧
    (∀ h, Copia.Gen.Loops.currentHashGen fp blake3 = some h ↔ ∃ f, fp = some f ∧ blake3 f = h) := by
  have e : Copia.Gen.Loops.currentHashGen fp blake3 = fp.map blake3 := rfl
  rw [e]
  cases fp <;> simp

end Copia.C03

namespace Copia.C10

theorem tmpOf_def (dst pid : List Char) :
    Copia.Gen.Loops.tmpOfGen dst pid = dst ++ ('.' :: pid ++ ".copia-tmp".toList) := rfl

theorem dot_sep_unique : ∀ (i j a b : List Char), '.' ∉ i → '.' ∉ j → i ++ '.' :: a = j ++ '.' :: b → i = j ∧ a = b
  | [], [], a, b, _, _, h => by simpa using h
  | [], y :: j, a, b, _, hj, h => by
      simp only [List.nil_append, List.cons_append, List.cons.injEq] at h
      exact absurd (by rw [← h.1]; simp) hj
  | x :: i, [], a, b, hi, _, h => by
      simp only [List.nil_append, List.cons_append, List.cons.injEq] at h
      exact absurd (by rw [h.1]; simp) hi
  | x :: i, y :: j, a, b, hi, hj, h => by
      simp only [List.cons_append, List.cons.injEq] at h
      have := dot_sep_unique i j a b (fun m => hi (List.mem_cons_of_mem _ m)) (fun m => hj (List.mem_cons_of_mem _ m)) h.2
      exact ⟨by rw [h.1, this.1], this.2⟩

/-- two staging names coincide only for the same process (and then the same destination): process ids are digit strings -/
theorem source_staging_names_are_per_process (dst1 dst2 pid1 pid2 : List Char) (h1 : '.' ∉ pid1) (h2 : '.' ∉ pid2)
    (h : Copia.Gen.Loops.tmpOfGen dst1 pid1 = Copia.Gen.Loops.tmpOfGen dst2 pid2) : pid1 = pid2 ∧ dst1 = dst2 := by
  rw [tmpOf_def, tmpOf_def] at h
  have hr := congrArg List.reverse h
  simp only [List.reverse_append, List.reverse_cons, List.append_assoc, List.singleton_append] at hr
  have hc := List.append_cancel_left hr
  have := dot_sep_unique pid1.reverse pid2.reverse dst1.reverse dst2.reverse (by simpa using h1) (by simpa using h2) hc
  exact ⟨List.reverse_inj.mp this.1, List.reverse_inj.mp this.2⟩

/-- every staging name ends in `.copia-tmp` and is longer than its destination: it is never the live path itself -/
theorem source_staging_names_are_staging_shaped (dst pid : List Char) :
    ".copia-tmp".toList <:+ Copia.Gen.Loops.tmpOfGen dst pid ∧ Copia.Gen.Loops.tmpOfGen dst pid ≠ dst := by
  rw [tmpOf_def]
  refine ⟨⟨dst ++ '.' :: pid, by simp⟩, ?_⟩
  intro h
  have := congrArg List.length h
  simp at this

example : Copia.Gen.Loops.tmpOfGen "d/f".toList "4711".toList = "d/f.4711.copia-tmp".toList := by decide

end Copia.C10
