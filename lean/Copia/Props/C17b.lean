import Copia.Lemmas.GenEqChecksum
import Copia.Props.C17
/-!
# C17 — the checksum methods as TRANSLATED from `src/checksum.rs` on this run are the model

`tools/rs2lean_arith.py` regenerates `Copia.Gen.Checksum` from the Rust text of both `new`s (with their
accumulation loop), `roll`, `push` and `digest` of `RollingChecksum` and `FastRollingChecksum` on every
run of `./check C17` / `./check C16`. The theorems of `Copia.Props.C17` are stated about the
hand-written model; these say the translated source IS that model, function by function, so
`rolling_eq_spec`, `fast_eq_spec`, `types_agree`, … hold of what the source says now.
-/
namespace Copia.C17
open Copia.Checksum

theorem source_rolling_new_is_model (w : List Nat) : Copia.Gen.Checksum.rollingNew w = Rolling.new w :=
  Copia.GenEqChecksum.rollingNew_eq w
theorem source_rolling_roll_is_model (s : Rolling) (o n : Nat) : Copia.Gen.Checksum.rollingRoll s o n = s.roll o n :=
  Copia.GenEqChecksum.rollingRoll_eq s o n
theorem source_rolling_push_is_model (s : Rolling) (x : Nat) : Copia.Gen.Checksum.rollingPush s x = s.push x :=
  Copia.GenEqChecksum.rollingPush_eq s x
theorem source_rolling_digest_is_model (s : Rolling) : Copia.Gen.Checksum.rollingDigest s = s.digest :=
  Copia.GenEqChecksum.rollingDigest_eq s
theorem source_fast_new_is_model (w : List Nat) : Copia.Gen.Checksum.fastNew w = Fast.new w :=
  Copia.GenEqChecksum.fastNew_eq w
theorem source_fast_roll_is_model (s : Fast) (o n : Nat) : Copia.Gen.Checksum.fastRoll s o n = s.roll o n :=
  Copia.GenEqChecksum.fastRoll_eq s o n
theorem source_fast_push_is_model (s : Fast) (x : Nat) : Copia.Gen.Checksum.fastPush s x = s.push x :=
  Copia.GenEqChecksum.fastPush_eq s x
theorem source_fast_digest_is_model (s : Fast) : Copia.Gen.Checksum.fastDigest s = s.digest :=
  Copia.GenEqChecksum.fastDigest_eq s

end Copia.C17
