import Copia.Lemmas.WalkTreeLemmas
/-! C06 / C04 / C19 — `transfer.rs::discover_local_files`, the walker under every local listing (`sync -r`'s source and destination
scans, `bisync`'s two scans, the hub's List), as it stands in the source (translated on this run), run over ANY directory tree
(`Model/WalkTree`: regular files, symlinks to files, other symlinks, other kinds, entries whose type cannot be read, unreadable
directories, entry streams that yield an error), with fuel for the tree's directories:

* it fails exactly when some system call of the walk fails somewhere in the tree (`clean t = false`) — never a quiet partial listing
  (defect D22 was such a listing);
* otherwise it returns, sorted, exactly the regular files and symlinks-to-files of the tree, each once. -/
namespace Copia.C06
open Copia.WalkTree Copia.ScanSupport Copia.GenEqLoops

theorem source_walk_is_exact (r : Bool) (es : Entries) (le : List String → List String → Bool) (fuel : Nat)
    (hfuel : dirCount (Node.dir r es) < fuel) :
    ∃ l : List (List String), Copia.Gen.Loops.discoverFilesGen readDirT isFileT stripT le fuel ([], Node.dir r es) =
        some (if clean (Node.dir r es) then some (l.mergeSort le) else none) ∧ l.Perm (files [] (Node.dir r es)) := by
  obtain ⟨l, hl, hp⟩ := walkLoop_tree fuel [([], Node.dir r es)] [] (by intro q hq; simp at hq; exact ⟨r, es, by rw [hq]⟩)
    (by simpa [dcS] using hfuel)
  refine ⟨l, ?_, by simpa [filesS] using hp⟩
  rw [discoverFiles_eq, hl]
  have : cleanS [([], Node.dir r es)] = clean (Node.dir r es) := by simp [cleanS]
  rw [this]
  cases clean (Node.dir r es) <;> rfl

/-- a listing is returned only for a tree every part of which could be examined -/
theorem source_walk_fails_iff_unclean (r : Bool) (es : Entries) (le : List String → List String → Bool) (fuel : Nat)
    (hfuel : dirCount (Node.dir r es) < fuel) :
    Copia.Gen.Loops.discoverFilesGen readDirT isFileT stripT le fuel ([], Node.dir r es) = some none ↔ clean (Node.dir r es) = false := by
  obtain ⟨l, hl, _⟩ := source_walk_is_exact r es le fuel hfuel
  rw [hl]
  cases clean (Node.dir r es) <;> simp

/-- every file of the tree is in the listing, and nothing else is -/
theorem source_walk_lists_the_files (r : Bool) (es : Entries) (le : List String → List String → Bool) (fuel : Nat)
    (hfuel : dirCount (Node.dir r es) < fuel) (out : List (List String))
    (h : Copia.Gen.Loops.discoverFilesGen readDirT isFileT stripT le fuel ([], Node.dir r es) = some (some out)) :
    out.Perm (files [] (Node.dir r es)) := by
  obtain ⟨l, hl, hp⟩ := source_walk_is_exact r es le fuel hfuel
  rw [hl] at h
  cases hc : clean (Node.dir r es) with
  | false => simp [hc] at h
  | true =>
    simp only [hc, if_true, Option.some.injEq] at h
    subst h
    exact (List.mergeSort_perm l le).trans hp

-- non-vacuity: a tree with a sub-directory, a symlink to a file, a dangling symlink and a fifo is clean and has three files;
-- the same tree with an unreadable sub-directory, or with one entry whose type cannot be read, is not
example : clean (.dir true (.cons "a" (.leaf .file) (.cons "d" (.dir true (.cons "l" (.leaf .linkFile) (.cons "x" (.leaf .linkOther) .nil)))
    (.cons "p" (.leaf .other) (.cons "z" (.leaf .file) .nil))))) = true := by decide
example : files [] (.dir true (.cons "a" (.leaf .file) (.cons "d" (.dir true (.cons "l" (.leaf .linkFile) (.cons "x" (.leaf .linkOther) .nil)))
    (.cons "p" (.leaf .other) (.cons "z" (.leaf .file) .nil))))) = [["a"], ["d", "l"], ["z"]] := by decide
example : clean (.dir true (.cons "a" (.leaf .file) (.cons "d" (.dir false .nil) .nil))) = false := by decide
example : clean (.dir true (.cons "a" (.leaf .file) (.cons "b" (.leaf .badType) .nil))) = false := by decide

/-- `meta.rs::fingerprint_path` (translated): a fingerprint is the hash of the file's OWN bytes (of a symlink's target string), read at scan time,
or nothing at all — an entry that cannot be examined, opened or read is never given a guessed, cached or partial fingerprint. -/
theorem source_fingerprint_is_of_the_bytes {D : Type} (H : List Nat → D) (lstat : Option Bool) (target bytes : Option (List Nat))
    (fp : Copia.Reconcile.Fp D) :
    Copia.Gen.Loops.fingerprintPathGen H lstat target bytes = some fp ↔
      (lstat = some false ∧ ∃ b, bytes = some b ∧ fp = { digest := H b, ftype := Copia.Reconcile.FType.file }) ∨
      (lstat = some true ∧ ∃ t, target = some t ∧ fp = { digest := H t, ftype := Copia.Reconcile.FType.symlink }) := by
  unfold Copia.Gen.Loops.fingerprintPathGen
  cases lstat with
  | none => simp [Id.run, pure]
  | some sl =>
    cases sl with
    | false =>
      cases bytes with
      | none => simp [Id.run, pure]
      | some b => simp [Id.run, pure]; exact ⟨fun h => h.symm, fun h => h.symm⟩
    | true =>
      cases target with
      | none => simp [Id.run, pure]
      | some t => simp [Id.run, pure]; exact ⟨fun h => h.symm, fun h => h.symm⟩

end Copia.C06

namespace Copia.C04
open Copia.WalkTree Copia.ScanSupport

/-- C04's reading of the same fact: the walk's success is never a success over a partial listing -/
theorem source_walk_reports_every_failure (r : Bool) (es : Entries) (le : List String → List String → Bool) (fuel : Nat)
    (hfuel : dirCount (Node.dir r es) < fuel) (out : List (List String))
    (h : Copia.Gen.Loops.discoverFilesGen readDirT isFileT stripT le fuel ([], Node.dir r es) = some (some out)) :
    clean (Node.dir r es) = true ∧ ∀ p, p ∈ files [] (Node.dir r es) → p ∈ out := by
  refine ⟨?_, fun p hp => (Copia.C06.source_walk_lists_the_files r es le fuel hfuel out h).symm.subset hp⟩
  cases hc : clean (Node.dir r es) with
  | true => rfl
  | false =>
    have := (Copia.C06.source_walk_fails_iff_unclean r es le fuel hfuel).mpr hc
    rw [this] at h
    cases h

end Copia.C04
