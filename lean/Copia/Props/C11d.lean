import Copia.Gen.LoopsHubPut
import Copia.Gen.LoopsBidir
/-! C11 / C13 / C02 — the 12 characters that conflict-copy names carry (`wire.rs::short_hash` on the hub, `bidir.rs::short_hex` in bisync, both
translated on this run): two lowercase hex digits for each of the first six bytes of the hash. They contain no `/` (the hypothesis
`'/' ∉ short` of `C11.source_conflict_name_under_root`, now a theorem about the source), no `.` and no `-` (a conflict name never gains a
path component, is never `..`, and its `-N` suffix is unambiguous), they are 12 characters for a 32-byte hash, and two hashes get the same
12 characters only when their first six bytes agree. -/
namespace Copia.C11
open Copia.HexSupport

theorem hexDigit_is_hex (n : Nat) : hexDigit n ∈ "0123456789abcdef".toList := by
  unfold hexDigit
  split <;> decide

theorem hexDigit_inj : ∀ a b : Fin 16, hexDigit a.val = hexDigit b.val → a = b := by decide

theorem hex2_inj (a b : Nat) (ha : a < 256) (hb : b < 256) (h : hex2 a = hex2 b) : a = b := by
  simp only [hex2, List.cons.injEq, and_true] at h
  have h1 := hexDigit_inj ⟨a / 16 % 16, Nat.mod_lt _ (by decide)⟩ ⟨b / 16 % 16, Nat.mod_lt _ (by decide)⟩ h.1
  have h2 := hexDigit_inj ⟨a % 16, Nat.mod_lt _ (by decide)⟩ ⟨b % 16, Nat.mod_lt _ (by decide)⟩ h.2
  simp only [Fin.mk.injEq] at h1 h2
  omega

theorem forIn_hex (l : List Nat) (acc : List Char) :
    forIn (m := Id) l acc (fun b r => pure (ForInStep.yield (r ++ hex2 b))) = pure (acc ++ l.flatMap hex2) := by
  induction l generalizing acc with
  | nil => simp
  | cons b t ih => simp only [List.forIn_cons, pure_bind, List.flatMap_cons]; rw [ih]; simp

theorem shortHash_eq (h : List Nat) : Copia.Gen.Loops.shortHashGen h = (h.take 6).flatMap hex2 := by
  unfold Copia.Gen.Loops.shortHashGen
  have := forIn_hex (h.take 6) []
  simp only [Id.run, bind, pure, List.nil_append] at this ⊢
  exact this

theorem shortHex_eq (h : List Nat) : Copia.Gen.Loops.shortHexGen h = (h.take 6).flatMap hex2 := by
  unfold Copia.Gen.Loops.shortHexGen
  have := forIn_hex (h.take 6) []
  simp only [Id.run, bind, pure, List.nil_append] at this ⊢
  exact this

theorem flatMap_hex_chars (l : List Nat) : ∀ c ∈ l.flatMap hex2, c ∈ "0123456789abcdef".toList := by
  intro c hc
  obtain ⟨b, _, hb⟩ := List.mem_flatMap.mp hc
  simp only [hex2, List.mem_cons, List.not_mem_nil, or_false] at hb
  rcases hb with rfl | rfl <;> exact hexDigit_is_hex _

/-- the hub's and bisync's short hashes are strings over `0-9a-f`: no `/`, no `.`, no `-`, no NUL -/
theorem source_short_hash_is_hex (h : List Nat) :
    (∀ c ∈ Copia.Gen.Loops.shortHashGen h, c ∈ "0123456789abcdef".toList) ∧
    (∀ c ∈ Copia.Gen.Loops.shortHexGen h, c ∈ "0123456789abcdef".toList) := by
  rw [shortHash_eq, shortHex_eq]
  exact ⟨flatMap_hex_chars _, flatMap_hex_chars _⟩

theorem source_short_hash_has_no_separator (h : List Nat) :
    '/' ∉ Copia.Gen.Loops.shortHashGen h ∧ '.' ∉ Copia.Gen.Loops.shortHashGen h ∧ '-' ∉ Copia.Gen.Loops.shortHashGen h ∧
    '/' ∉ Copia.Gen.Loops.shortHexGen h ∧ '.' ∉ Copia.Gen.Loops.shortHexGen h ∧ '-' ∉ Copia.Gen.Loops.shortHexGen h := by
  have := source_short_hash_is_hex h
  refine ⟨fun m => ?_, fun m => ?_, fun m => ?_, fun m => ?_, fun m => ?_, fun m => ?_⟩ <;>
    first
      | (have := this.1 _ m; revert this; decide)
      | (have := this.2 _ m; revert this; decide)

theorem flatMap_hex_length (l : List Nat) : (l.flatMap hex2).length = 2 * l.length := by
  induction l with
  | nil => rfl
  | cons b t ih => simp only [List.flatMap_cons, List.length_append, ih, hex2, List.length_cons, List.length_nil]; omega

/-- a 32-byte hash gives 12 characters -/
theorem source_short_hash_length (h : List Nat) (hl : 6 ≤ h.length) :
    (Copia.Gen.Loops.shortHashGen h).length = 12 ∧ (Copia.Gen.Loops.shortHexGen h).length = 12 := by
  rw [shortHash_eq, shortHex_eq, flatMap_hex_length, List.length_take]
  omega

theorem flatMap_hex_inj : ∀ (l1 l2 : List Nat), (∀ b ∈ l1, b < 256) → (∀ b ∈ l2, b < 256) → l1.length = l2.length →
    l1.flatMap hex2 = l2.flatMap hex2 → l1 = l2
  | [], [], _, _, _, _ => rfl
  | [], _ :: _, _, _, hl, _ => by simp at hl
  | _ :: _, [], _, _, hl, _ => by simp at hl
  | a :: t1, b :: t2, h1, h2, hl, h => by
    simp only [List.flatMap_cons, hex2, List.cons_append, List.nil_append, List.cons.injEq] at h
    have hab : a = b := hex2_inj a b (h1 a (by simp)) (h2 b (by simp)) (by simp only [hex2, h.1, h.2.1])
    have := flatMap_hex_inj t1 t2 (fun x hx => h1 x (by simp [hx])) (fun x hx => h2 x (by simp [hx])) (by simpa using hl) h.2.2
    rw [hab, this]

/-- two hashes get the same 12 characters only when their first six bytes agree -/
theorem source_short_hash_determines_six_bytes (h1 h2 : List Nat) (hb1 : ∀ b ∈ h1, b < 256) (hb2 : ∀ b ∈ h2, b < 256)
    (hl1 : 6 ≤ h1.length) (hl2 : 6 ≤ h2.length) (h : Copia.Gen.Loops.shortHashGen h1 = Copia.Gen.Loops.shortHashGen h2) :
    h1.take 6 = h2.take 6 := by
  rw [shortHash_eq, shortHash_eq] at h
  exact flatMap_hex_inj _ _ (fun b hb => hb1 b (List.mem_of_mem_take hb)) (fun b hb => hb2 b (List.mem_of_mem_take hb))
    (by simp only [List.length_take]; omega) h

example : Copia.Gen.Loops.shortHexGen (List.replicate 32 0xab) = "abababababab".toList := by decide

end Copia.C11
