import Copia.Gen.LoopsCodec
import Copia.Lemmas.GenEq
/-!
# C20 — `Codec::write_message` / `read_message` and `FrameHeader::read_from`, from the source as it is now

`Copia.Gen.Loops.writeMessageGen` / `readHeaderGen` / `readMessageGen` are the three functions of `src/protocol.rs` as
`tools/rs2lean_do.py` translates them on every run, around the model's `encMsg` / `decodeMsg` / `FrameHeader.decode`
(what the differential harness compares byte for byte with `Message::encode` / `decode` and `FrameHeader::decode`): the
writer's ONE bound (`payload_len > MAX_PAYLOAD_SIZE`, parsed), the header before the payload, the reader's steps —
12 bytes, magic, decode, `validate()`, THEN `read_buf.resize(header.length)`, THEN `read_exact`, THEN decode.
-/
namespace Copia.C20
open Copia.Codec

/-- **`write_message` translated is the model's `writeMessage`** (the `u32::try_from` can never be what refuses: the bound
is below 2^32) -/
theorem source_write_message_is_model (m : Message) : Copia.Gen.Loops.writeMessageGen m = writeMessage m := by
  unfold Copia.Gen.Loops.writeMessageGen writeMessage
  by_cases h1 : (encMsg m).length > Gen.maxPayloadSize
  · by_cases h0 : (encMsg m).length > 4294967295
    · simp [Id.run, h0, h1, pure]
    · simp [Id.run, h0, h1, pure]
  · have h0 : ¬ (encMsg m).length > 4294967295 := by
      have : Gen.maxPayloadSize ≤ 4294967295 := by decide
      omega
    simp [Id.run, h0, h1, pure]

theorem decode_some {hb : Bytes} {h : FrameHeader} (hd : FrameHeader.decode hb = some h) :
    h.magic = hb.take 4 ∧ h.magic = Gen.protocolMagic ∧ h.version = Gen.protocolVersion ∧ h.length ≤ Gen.maxPayloadSize := by
  unfold FrameHeader.decode at hd
  by_cases c0 : hb.length ≠ Gen.frameHeaderSize
  · rw [if_pos c0] at hd; cases hd
  · rw [if_neg c0] at hd
    dsimp only at hd
    by_cases c1 : (!validType ((hb.drop 8).headD 0)) = true
    · rw [if_pos c1] at hd; cases hd
    · rw [if_neg c1] at hd
      by_cases c2 : hb.take 4 ≠ Gen.protocolMagic
      · rw [if_pos c2] at hd; cases hd
      · rw [if_neg c2] at hd
        by_cases c3 : (hb.drop 9).headD 0 ≠ Gen.protocolVersion
        · rw [if_pos c3] at hd; cases hd
        · rw [if_neg c3] at hd
          by_cases c4 : ofLe ((hb.drop 4).take 4) > Gen.maxPayloadSize
          · rw [if_pos c4] at hd; cases hd
          · rw [if_neg c4] at hd
            injection hd with hd
            subst hd
            exact ⟨rfl, by simpa using c2, by simpa using c3, by simp only; omega⟩

/-- `read_from` translated: 12 bytes, the magic test, `decode` — the magic test never refuses what `decode` accepts -/
theorem source_read_header_is_model (inp : Bytes) :
    Copia.Gen.Loops.readHeaderGen inp =
      match rdN 12 inp with
      | none => none
      | some (hb, r) => (FrameHeader.decode hb).map fun h => (h, r) := by
  unfold Copia.Gen.Loops.readHeaderGen
  have hs : Copia.Gen.frameHeaderSize = 12 := by decide
  rw [hs]
  cases hr : rdN 12 inp with
  | none => simp [Id.run, pure]
  | some x =>
    obtain ⟨hb, r⟩ := x
    simp only [Id.run, pure]
    by_cases hm : hb.take 4 = Gen.protocolMagic
    · simp [hm]
    · have : FrameHeader.decode hb = none := by
        cases hd : FrameHeader.decode hb with
        | none => rfl
        | some h =>
          have := decode_some hd
          exact absurd (this.1 ▸ this.2.1) hm
      simp [hm, this]

/-- **`read_message` translated is the model's `readMessage`** — for every input: same message, same rest of the stream,
same size reserved for the payload (`validate()` never refuses what `decode` let through: `header_decode_uses_source_validate`).
A reader with a limit of its own (seed C20-J: a per-kind ceiling the writer does not enforce) changes the translation. -/
theorem source_read_message_is_model (utf8 : Bytes → Bool) (inp : Bytes) :
    Copia.Gen.Loops.readMessageGen utf8 inp = readMessage utf8 inp := by
  unfold Copia.Gen.Loops.readMessageGen readMessage
  rw [source_read_header_is_model]
  cases hr : rdN 12 inp with
  | none => simp [Id.run, pure]
  | some x =>
    obtain ⟨hb, r⟩ := x
    cases hd : FrameHeader.decode hb with
    | none => simp [Id.run, pure, hd]
    | some h =>
      have hv : Copia.Gen.headerValid h.magic h.version h.length = true := by
        obtain ⟨_, h2, h3, h4⟩ := decode_some hd
        unfold Copia.Gen.headerValid
        have : ¬ h.length > Gen.maxPayloadSize := by omega
        simp [h2, h3, this]
      simp only [Id.run, pure, Option.map_some, hv, Bool.not_true, Bool.false_eq_true, if_false, hd]
      cases rdN h.length r with
      | none => rfl
      | some y => obtain ⟨p, r'⟩ := y; rfl

end Copia.C20
