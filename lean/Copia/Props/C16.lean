import Copia.Lemmas.Delta4
import Copia.Lemmas.Delta6
/-!
# C16 — the delta is at least as small as textbook greedy rsync

Spec: `Copia.Delta.textbook` (`Copia.Spec.Delta`): plain byte equality against the basis blocks, no
checksums. The theorem needs the rolling-checksum results of C17 (the weak hash threaded through
the scan *is* the window's checksum, and equals the signature side's for equal bytes), which is why
a checksum defect breaks this property while round trips stay green.
-/
namespace Copia.C16
open Copia.Delta
open Copia.Checksum (Bytes Fast)

variable {D : Type} [DecidableEq D]

/-- C16 (main): for every basis, every source of bytes and every block size `0 < bs ≤ 65536`, the
delta's op list is **exactly** the textbook greedy scan's (so it carries exactly — in particular no
more than — the textbook's literal bytes), provided `H` does not collide between a basis block
and a source window. -/
theorem ops_eq_textbook (H : List Nat → D) (bs : Nat) (hbs : 0 < bs) (hbs2 : bs ≤ 65536)
    (basis src : List Nat) (hsrc : Bytes src) (hcf : CollisionFree H bs basis src) :
    (delta H (signature H bs basis) src).ops = textbook bs basis src := by
  have hbsz : (signature H bs basis).blockSize = bs := rfl
  unfold delta textbook
  simp only [hbsz]
  by_cases hs : src.isEmpty = true
  · have : src = [] := by simpa using hs
    subst this
    have : ¬ bs = 0 := by omega
    simp [tscan, pushLiteral, this]
  · have hs' : src.isEmpty = false := by simpa using hs
    simp only [hs', Bool.false_eq_true, if_false]
    by_cases hb : (signature H bs basis).blocks.isEmpty = true
    · have hbe : basis = [] := (sigLoop_isEmpty H bs basis).mp hb
      simp only [hb, if_true]
      rw [hbe, tscan_empty_basis]
    · have hb' : (signature H bs basis).blocks.isEmpty = false := by simpa using hb
      simp only [hb', Bool.false_eq_true, if_false]
      congr 1
      apply scan_eq_tscan H bs hbs hbs2 basis src hsrc hcf (src.length + 1) 0 src (src.drop bs) src.length
        _ [] rfl rfl rfl
      intro hle
      have hm : min bs src.length = bs := Nat.min_eq_left hle
      rw [hm]
      exact Fast.new_good _ (bytes_take hsrc bs) (by show (List.take bs src).length ≤ 65536; rw [List.length_take]; omega)

/-- C16: no more literal bytes than the textbook greedy scan. -/
theorem literals_le (H : List Nat → D) (bs : Nat) (hbs : 0 < bs) (hbs2 : bs ≤ 65536)
    (basis src : List Nat) (hsrc : Bytes src) (hcf : CollisionFree H bs basis src) :
    literalBytes (delta H (signature H bs basis) src).ops ≤ literalBytes (textbook bs basis src) := by
  rw [ops_eq_textbook H bs hbs hbs2 basis src hsrc hcf]; exact Nat.le_refl _

/-- C16 (identical files): a source identical to the basis yields fewer literal bytes than one block
(only the partial tail, if any, is literal). -/
theorem identical (H : List Nat → D) (bs : Nat) (hbs : 0 < bs) (hbs2 : bs ≤ 65536)
    (x : List Nat) (hx : Bytes x) (hcf : CollisionFree H bs x x) :
    literalBytes (delta H (signature H bs x) x).ops < bs := by
  rw [ops_eq_textbook H bs hbs hbs2 x x hx hcf]
  unfold textbook
  rw [literalBytes_finish]
  have := tscan_identical bs hbs x (x.length + 1) 0 x [] (by simp) (by omega)
  simpa [litR] using this

/-- the statement of the edit bound in the property's own words: basis of distinct blocks, `cut`
(≤ k bytes) replaced by `mid` (≤ k bytes); insertion is `cut = []`, deletion `mid = []`. -/
def EditBoundStatement : Prop :=
  ∀ (bs : Nat) (basis pre mid post : List Nat) (k : Nat), 0 < bs → bs ≤ 65536 →
    basis.length % bs = 0 → mid.length ≤ k →
    (∀ i j, i < j → j * bs < basis.length → (basis.drop (i * bs)).take bs ≠ (basis.drop (j * bs)).take bs) →
    (∃ cut, basis = pre ++ cut ++ post ∧ cut.length ≤ k) →
    literalBytes (textbook bs basis (pre ++ mid ++ post)) ≤ k + 2 * bs

/-- C16 (edit bound, textbook side): proved — and without needing the blocks to be distinct or the
removed part to be short: what was put in (`mid`) plus two blocks bounds the literal bytes. -/
theorem edit_bound_statement : EditBoundStatement := by
  intro bs basis pre mid post k hbs _ hal hmid _ ⟨cut, hb, _⟩
  subst hb
  have := textbook_edit_bound bs hbs pre cut mid post hal
  omega

/-- C16 (edit bound, for the delta the code computes): for every basis `pre ++ cut ++ post` whose
length is a multiple of the block size and every source `pre ++ mid ++ post`, the delta carries at
most `|mid| + 2·bs` literal bytes (k inserted/replaced bytes cost at most k plus two blocks; a pure
deletion at most two blocks). -/
theorem edit_bound (H : List Nat → D) (bs : Nat) (hbs : 0 < bs) (hbs2 : bs ≤ 65536)
    (pre cut mid post : List Nat) (hsrc : Bytes (pre ++ mid ++ post))
    (hcf : CollisionFree H bs (pre ++ cut ++ post) (pre ++ mid ++ post))
    (hal : (pre ++ cut ++ post).length % bs = 0) :
    literalBytes (delta H (signature H bs (pre ++ cut ++ post)) (pre ++ mid ++ post)).ops ≤ mid.length + 2 * bs := by
  rw [ops_eq_textbook H bs hbs hbs2 _ _ hsrc hcf]
  exact textbook_edit_bound bs hbs pre cut mid post hal

/-! Non-vacuity + a concrete instance computed by the kernel: identity hash, block size 2. -/
example : (delta (fun x => x) (signature (fun x => x) 2 [1, 2, 3, 4, 5, 6]) [1, 2, 9, 3, 4, 5, 6]).ops
    = [.copy 0 2, .literal [9], .copy 2 4] := by decide
example : textbook 2 [1, 2, 3, 4, 5, 6] [1, 2, 9, 3, 4, 5, 6] = [.copy 0 2, .literal [9], .copy 2 4] := by decide

end Copia.C16
