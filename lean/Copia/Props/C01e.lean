import Copia.Lemmas.GenEqLoopsA
import Copia.Lemmas.GenEqLoopsG
/-!
# C01 — the async engine's signature does not depend on how the bytes arrive

`Copia.Gen.Loops.signatureAsync` is the read loops of `AsyncCopiaSync::signature` (`src/async_sync.rs`), from
`let mut blocks = Vec::new();` to the end of the `loop`, as `tools/rs2lean_do.py` translates them on every run: fill a
block-sized buffer with as many `read`s as it takes, sign the filled prefix, stop at the first round that read nothing.
The reader of the translation (`DeltaSupport.Reader`) hands out its bytes in reads of ITS choosing — any sequence of
positive sizes, then full reads (a pipe, a socket, `ssh cat`, a decompressor).
-/
namespace Copia.C01
open Copia.Delta Copia.DeltaSupport

variable {D : Type}

/-- **the async signature, from the source as it is now, is the model's signature for EVERY read schedule**: the block
list is `signature`'s and the file size is the input's length, whatever sizes the reads come in — once the fuel covers one
block and the input (every read before the end delivers at least one byte). A loop that signs "what one read delivered"
(seed C01-J: `BufReader::fill_buf`) changes the translation, and no proof of this statement exists for it. -/
theorem source_async_signature_is_model (H : List Nat → D) (bs fuel : Nat) (data caps : List Nat) (hbs : 0 < bs)
    (hf1 : bs + 1 ≤ fuel) (hf2 : data.length + 1 ≤ fuel) (hn : data.length ≤ 4294967295) :
    Copia.Gen.Loops.signatureAsync H fuel bs (data, caps) =
      some ((signature H bs data).fileSize, (signature H bs data).blocks) :=
  Copia.GenEqLoops.signatureAsync_eq H bs fuel data caps hbs hf1 hf2 hn

/-- two deliveries of the same bytes give the same signature -/
theorem source_async_signature_ignores_read_sizes (H : List Nat → D) (bs fuel : Nat) (data caps₁ caps₂ : List Nat) (hbs : 0 < bs)
    (hf1 : bs + 1 ≤ fuel) (hf2 : data.length + 1 ≤ fuel) (hn : data.length ≤ 4294967295) :
    Copia.Gen.Loops.signatureAsync H fuel bs (data, caps₁) = Copia.Gen.Loops.signatureAsync H fuel bs (data, caps₂) := by
  rw [source_async_signature_is_model H bs fuel data caps₁ hbs hf1 hf2 hn,
      source_async_signature_is_model H bs fuel data caps₂ hbs hf1 hf2 hn]

/-- **both engines' signatures, from the source, carry the same block list** (C01: the engines are interchangeable):
`Signature::generate` (translated, `generateBlocks`) and the async read loops (translated) for any read schedule -/
theorem source_engines_sign_alike (H : List Nat → D) (bs fuel : Nat) (data caps : List Nat) (hbs : 0 < bs)
    (hf1 : bs + 1 ≤ fuel) (hf2 : data.length + 1 ≤ fuel) (hn : data.length ≤ 4294967295) :
    (Copia.Gen.Loops.signatureAsync H fuel bs (data, caps)).map (·.2) = some (Copia.Gen.Loops.generateBlocks H bs data) := by
  rw [source_async_signature_is_model H bs fuel data caps hbs hf1 hf2 hn,
      Copia.GenEqLoops.generateBlocks_eq H bs data (by omega)]
  rfl

/-- non-vacuity: 7 bytes in blocks of 3, delivered as reads of 1, 3, 1 bytes and then whatever fits: three blocks
(3 + 3 + 1 bytes), indices 0 1 2, file size 7 -/
example : (Copia.Gen.Loops.signatureAsync (D := List Nat) id 8 3 ([1, 2, 3, 4, 5, 6, 7], [0, 2, 0])).map
      (fun r => (r.1, r.2.map (fun b => (b.index, b.strong)))) =
    some (7, [(0, [1, 2, 3]), (1, [4, 5, 6]), (2, [7])]) := by decide

end Copia.C01
