import Copia.Props.C02
import Copia.Props.C06
import Copia.Lemmas.Bisync18
/-!
# C02 / C06 — the whole-run theorems under the WEAKER hypothesis `BenignClash`

`NoNameClash` (no conflict-copy name of the run is live) is stronger than what the code needs: a
conflict-copy name may already be live — left behind by a killed run, or the copy of an earlier
identical conflict still on one side — as long as what it holds is exactly the losing content the run
is about to write there. `BenignClash` says that, and `NoNameClash.toBenign` shows it is weaker.
Under it the run still completes, loses no version and leaves both sides equal. What remains
outside is precisely the known finding D10: a live conflict-copy name holding OTHER content
(`C02.clash_loses`).
-/
namespace Copia.C02
open Copia.Reconcile Copia.Bisync

variable {P C : Type} [DecidableEq P] [DecidableEq C]

/-- C02 (whole run, all trees, all archives, under BenignClash) -/
theorem no_version_lost_benign (le : P → P → Bool)
    (trans : ∀ a b c, le a b → le b c → le a c) (total : ∀ a b, le a b || le b a)
    (antisymm : ∀ a b, le a b → le b a → a = b) (ge : C → C → Bool) (cname : P → C → P) (s : State P C)
    (bc : BenignClash ge cname s.A s.B (bisyncPlan le s)) :
    (bisync le ge cname s).status ≠ .ioError ∧
    (∀ p c, get s.A p = some c →
      (∃ q, get (bisync le ge cname s).state.A q = some c ∧ get (bisync le ge cname s).state.B q = some c) ∨
      (baseOf s p = some (mkFp c) ∧ get s.B p ≠ some c)) ∧
    (∀ p c, get s.B p = some c →
      (∃ q, get (bisync le ge cname s).state.A q = some c ∧ get (bisync le ge cname s).state.B q = some c) ∨
      (baseOf s p = some (mkFp c) ∧ get s.A p ≠ some c)) := by
  obtain ⟨hact, _, _, hrest⟩ := plan_facts le trans total antisymm s
  obtain ⟨hstat, l, inv, eA, eB⟩ := bisync_runB le trans total antisymm ge cname s bc
  rw [eA, eB]
  exact ⟨hstat,
    fun p c h => runInvB_no_loss_A ge cname s.A s.B (baseOf s) _ l hact hrest bc inv p c h,
    fun p c h => runInvB_no_loss_B ge cname s.A s.B (baseOf s) _ l hact hrest bc inv p c h⟩

/-- the hypothesis is weaker than NoNameClash … -/
theorem noNameClash_is_benign (ge : C → C → Bool) (cname : P → C → P) (s : State P C) (le : P → P → Bool)
    (nnc : NoNameClash ge cname s.A s.B (bisyncPlan le s)) : BenignClash ge cname s.A s.B (bisyncPlan le s) :=
  nnc.toBenign

/-- … strictly: the state a run of `s0` leaves when it is killed after the first conflict copy (side A holds
`1110` = the losing content 10) violates NoNameClash and satisfies the run's needs. Non-vacuity of the
benign case is `C08.recovery`, which applies these lemmas to every such state. -/
example : Copia.Bisync.get (Copia.Bisync.ins s0.A 1110 10) 1110 = some 10 := by decide

end Copia.C02

namespace Copia.C06
open Copia.Reconcile Copia.Bisync

variable {P C : Type} [DecidableEq P] [DecidableEq C]

/-- C06 (whole run under BenignClash): the run completes, both sides hold the same thing at every path, and the archive
it writes records exactly that tree -/
theorem converges_benign (le : P → P → Bool)
    (trans : ∀ a b c, le a b → le b c → le a c) (total : ∀ a b, le a b || le b a)
    (antisymm : ∀ a b, le a b → le b a → a = b) (ge : C → C → Bool) (cname : P → C → P) (s : State P C)
    (bc : BenignClash ge cname s.A s.B (bisyncPlan le s)) :
    (bisync le ge cname s).status ≠ .ioError ∧
    (∀ q, get (bisync le ge cname s).state.A q = get (bisync le ge cname s).state.B q) ∧
    ∃ m, (bisync le ge cname s).state.arch = some m ∧
      ∀ q, lookup m q = (get (bisync le ge cname s).state.A q).map mkFp := by
  obtain ⟨hact, _, _, hrest⟩ := plan_facts le trans total antisymm s
  obtain ⟨l, n, hrun, inv, ainv⟩ := bisync_runAB le trans total antisymm ge cname s bc
  rw [bisync_of_run le ge cname s l n hrun]
  refine ⟨by simp only []; split <;> simp, ?_, l.common, rfl, ?_⟩
  · exact runInvB_converged ge cname s.A s.B (baseOf s) _ l hact hrest inv
  · exact arch_eq_treeB le trans total antisymm ge cname s l inv ainv

end Copia.C06
