import Copia.Gen.Decisions
import Copia.Props.C02
/-!
# C07 — content survival with a lost, damaged or foreign archive (whole run)

Corollary of `C02.no_version_lost`: with `arch = none` there is no base, so the exception of C02 (the
version equalled the recorded base) can never apply — every content present on either side before
the run is on BOTH sides afterwards. Like C02 it needs `NoNameClash` (D10's boundary); path survival
(`C07.untrusted_run_removes_nothing`) needs no hypothesis at all.
-/
namespace Copia.C07
open Copia.Reconcile Copia.Bisync

variable {P C : Type} [DecidableEq P] [DecidableEq C]

/-- C07 (contents, whole run): lost / damaged / foreign archive ⇒ every file version present before
the run is present on both sides after it, and the run does not stop on an I/O error. -/
theorem untrusted_run_keeps_every_version (le : P → P → Bool)
    (trans : ∀ a b c, le a b → le b c → le a c) (total : ∀ a b, le a b || le b a)
    (antisymm : ∀ a b, le a b → le b a → a = b) (ge : C → C → Bool) (cname : P → C → P) (s : State P C)
    (harch : s.arch = none)
    (nnc : NoNameClash ge cname s.A s.B (bisyncPlan le s)) :
    (bisync le ge cname s).status ≠ .ioError ∧
    ∀ p c, (get s.A p = some c ∨ get s.B p = some c) →
      ∃ q, get (bisync le ge cname s).state.A q = some c ∧ get (bisync le ge cname s).state.B q = some c := by
  obtain ⟨hst, hA, hB⟩ := Copia.C02.no_version_lost le trans total antisymm ge cname s nnc
  refine ⟨hst, ?_⟩
  have hbase : ∀ p, baseOf s p = none := by intro p; simp [baseOf, harch]
  intro p c h
  rcases h with h | h
  · rcases hA p c h with r | ⟨hb, _⟩
    · exact r
    · rw [hbase] at hb; cases hb
  · rcases hB p c h with r | ⟨hb, _⟩
    · exact r
    · rw [hbase] at hb; cases hb

end Copia.C07


namespace Copia.C07

/-- C07 (`Archive::load`, the acceptance test TRANSLATED from archive.rs on this run): a parsed archive is trusted exactly
when its format version is the current one (1) AND its pair hash is the expected pair's — every other version (0, 2, …)
and every other pair is refused. What comes before (unreadable file, JSON that does not parse into the five fields) is
`None` by `?`, checked by the translator's shape test and on the real binary. -/
theorem source_load_accepts_iff (a : Copia.Gen.ArchHdr) (expected : String) :
    Copia.Gen.archiveAccept a expected = true ↔ a.formatVersion = 1 ∧ a.pairHash = expected := by
  simp only [Copia.Gen.archiveAccept, Copia.Gen.archiveFormatVersion, Bool.and_eq_true]
  constructor
  · rintro ⟨h1, h2⟩; exact ⟨of_decide_eq_true h1, of_decide_eq_true h2⟩
  · rintro ⟨h1, h2⟩; exact ⟨decide_eq_true h1, decide_eq_true h2⟩

end Copia.C07
