import Copia.Lemmas.ReconcileTable
/-!
# C18 — the three-way reconcile decision is exactly the documented table

Property theorems only. Model: `Copia.Model.Reconcile` (mirrors `src/bin/copia/reconcile.rs`);
spec: `Copia.Spec.ReconcileTable`; helpers: `Copia.Lemmas.*`. The tie to the Rust code is the
exhaustive correspondence run by `./check C18`.
-/
namespace Copia.C18
open Copia.Reconcile

/-- C18 (per path): the decision is exactly the documented table. -/
theorem path_eq_table {D} [DecidableEq D] (a b z : Option (Fp D)) :
    reconcilePath a b z = table a.isSome b.isSome z.isSome (eqo a b) (eqo a z) (eqo b z) := by
  cases a with
  | none => cases b <;> cases z <;> simp [reconcilePath, table, eqo, Fp.same_iff]
  | some av =>
    cases b with
    | none => cases z <;> simp [reconcilePath, table, eqo, Fp.same_iff]
    | some bv =>
      cases z with
      | none => simp [reconcilePath, table, eqo, Fp.same_iff]
      | some zv =>
        simp only [reconcilePath, table, eqo, Fp.same_eq_decide, Option.isSome_some]
        by_cases h1 : av = bv <;> by_cases h2 : av = zv <;> by_cases h3 : bv = zv <;>
          simp_all

/-- C18: the decision depends only on presence and the equality pattern — two triples (over possibly
different digest types: abstract ids, or 32-byte BLAKE3 values) with the same pattern get the same
decision. -/
theorem data_independent {D E} [DecidableEq D] [DecidableEq E]
    (a b z : Option (Fp D)) (a' b' z' : Option (Fp E))
    (ha : a.isSome = a'.isSome) (hb : b.isSome = b'.isSome) (hz : z.isSome = z'.isSome)
    (hab : eqo a b = eqo a' b') (haz : eqo a z = eqo a' z') (hbz : eqo b z = eqo b' z') :
    reconcilePath a b z = reconcilePath a' b' z' := by
  rw [path_eq_table, path_eq_table, ha, hb, hz, hab, haz, hbz]

/-- C18: mirror symmetry in the two sides. -/
theorem mirror {D} [DecidableEq D] (a b z : Option (Fp D)) :
    reconcilePath b a z = swapAct (reconcilePath a b z) := by
  rw [path_eq_table, path_eq_table, eqo_comm a b]
  have ht := eqo_cons a b z
  revert ht
  cases a.isSome <;> cases b.isSome <;> cases z.isSome <;> cases eqo a b <;> cases eqo a z <;>
    cases eqo b z <;> simp [table, swapAct]

/-- C18: never a delete without a base. -/
theorem no_delete_without_base {D} [DecidableEq D] (a b : Option (Fp D)) :
    reconcilePath a b none ≠ .deleteA ∧ reconcilePath a b none ≠ .deleteB := by
  rw [path_eq_table]
  cases a.isSome <;> cases b.isSome <;> cases eqo a b <;> simp [table, eqo]

/-- C18: a delete is issued only on positive evidence: the other side is absent and the survivor
equals the base. -/
theorem delete_needs_evidence {D} [DecidableEq D] (a b z : Option (Fp D)) :
    (reconcilePath a b z = .deleteA → b = none ∧ a.isSome ∧ z = a) ∧
    (reconcilePath a b z = .deleteB → a = none ∧ b.isSome ∧ z = b) := by
  rw [path_eq_table]
  have ht := table_delete a.isSome b.isSome z.isSome (eqo a b) (eqo a z) (eqo b z)
  constructor
  · intro h
    obtain ⟨h1, h2, h3⟩ := ht.1 h
    exact ⟨by simpa using h2, h1, ((eqo_true _ _ h3).1).symm⟩
  · intro h
    obtain ⟨h1, h2, h3⟩ := ht.2 h
    exact ⟨by simpa using h1, h2, ((eqo_true _ _ h3).1).symm⟩

/-- C18 (trees): the plan is exactly the non-trivial per-path decisions over the union of both
sides' paths, with every base ignored when the base is untrusted. -/
theorem mem_reconcile {K D} [DecidableEq K] [DecidableEq D] (le : K → K → Bool)
    (a b base : List (K × Fp D)) (trust : Bool) (p : K) (act : Action) :
    (p, act) ∈ reconcile le a b base trust ↔
      (p ∈ a.map (·.1) ∨ p ∈ b.map (·.1)) ∧
      act = reconcilePath (lookup a p) (lookup b p) (if trust then lookup base p else none) ∧
      act ≠ .noop := by
  unfold reconcile
  simp only [List.mem_filterMap, mem_unionKeys]
  constructor
  · rintro ⟨q, hq, hsome⟩
    by_cases hne : reconcilePath (lookup a q) (lookup b q) (if trust then lookup base q else none) ≠ .noop
    · rw [if_pos hne] at hsome
      simp only [Option.some.injEq, Prod.mk.injEq] at hsome
      obtain ⟨rfl, rfl⟩ := hsome
      exact ⟨hq, rfl, hne⟩
    · rw [if_neg hne] at hsome
      simp at hsome
  · rintro ⟨hk, rfl, hne⟩
    exact ⟨p, hk, by rw [if_pos hne]⟩

/-- C18 (trees): the plan is strictly sorted by path (hence duplicate-free), for any total order `le`. -/
theorem reconcile_sorted {K D} [DecidableEq K] [DecidableEq D] (le : K → K → Bool)
    (trans : ∀ a b c, le a b → le b c → le a c) (total : ∀ a b, le a b || le b a)
    (antisymm : ∀ a b, le a b → le b a → a = b)
    (a b base : List (K × Fp D)) (trust : Bool) :
    (reconcile le a b base trust).Pairwise (fun x y => le x.1 y.1 = true ∧ x.1 ≠ y.1) := by
  unfold reconcile
  refine List.Pairwise.filterMap _ ?_ (unionKeys_sorted le trans total antisymm a b)
  intro x y hxy u hu v hv
  have hu1 : u.1 = x := by
    by_cases hne : reconcilePath (lookup a x) (lookup b x) (if trust then lookup base x else none) ≠ .noop
    · rw [if_pos hne] at hu; simp at hu; rw [← hu]
    · rw [if_neg hne] at hu; simp at hu
  have hv1 : v.1 = y := by
    by_cases hne : reconcilePath (lookup a y) (lookup b y) (if trust then lookup base y else none) ≠ .noop
    · rw [if_pos hne] at hv; simp at hv; rw [← hv]
    · rw [if_neg hne] at hv; simp at hv
  rw [hu1, hv1]; exact hxy

/-- C18 (trees): an untrusted base yields no delete anywhere in the plan. -/
theorem untrusted_no_delete {K D} [DecidableEq K] [DecidableEq D] (le : K → K → Bool)
    (a b base : List (K × Fp D)) (p : K) (act : Action)
    (h : (p, act) ∈ reconcile le a b base false) : act ≠ .deleteA ∧ act ≠ .deleteB := by
  have := (mem_reconcile le a b base false p act).mp h
  obtain ⟨_, rfl, _⟩ := this
  simpa using no_delete_without_base (lookup a p) (lookup b p)

/-! Non-vacuity: concrete non-trivial instances. -/
example : reconcilePath (some ⟨1, .file⟩) (some ⟨2, .file⟩) (some (⟨1, .file⟩ : Fp Nat)) = .propagateBtoA := by decide
example : reconcilePath (some ⟨1, .file⟩) none (some (⟨1, .symlink⟩ : Fp Nat)) = .conflict .deleteVsModify := by decide
example : reconcile (fun (x y : Nat) => decide (x ≤ y)) [(2, ⟨7, .file⟩), (1, ⟨5, .file⟩)] [(1, ⟨5, .file⟩)]
    [(1, (⟨5, .file⟩ : Fp Nat))] true = [(2, .propagateAtoB)] := by
  simp [reconcile, unionKeys, lookup, reconcilePath, List.mergeSort, dedupAdj, Fp.same]
