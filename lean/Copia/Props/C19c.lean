import Copia.Gen.LoopsScan
/-!
# C19 / C04 — `parse_remote_meta_output`, from the source as it is now, is the model's listing parser

`Copia.Gen.Loops.parseRemoteMetaGen` is `meta.rs::parse_remote_meta_output` as `tools/rs2lean_do.py` translates it on
every run: records split at NUL, empty ones skipped, the FIRST two TABs cut size and mtime off (everything after the second
TAB is the path — `splitn(3, ..)`), a size that is not a `u64` skips the record, the mtime is the part before the first `.`
parsed as `i64` (0 if that fails), a leading `./` is stripped, an empty path skips the record, later records replace earlier
ones of the same path. `Meta.parseRemoteMeta` is the model `C19.parse_format` is about.
-/
namespace Copia.C19
open Copia.Meta

theorem parse_forIn (f : List Char → List (List Char × Copia.Plan.FileMeta) → Id (ForInStep (List (List Char × Copia.Plan.FileMeta))))
    (hf : ∀ e m, f e m = ForInStep.yield (match parseEntry e with
      | some (k, v) => insertAL m k v
      | none => m)) :
    ∀ (es : List (List Char)) (acc : List (List Char × Copia.Plan.FileMeta)),
      forIn (m := Id) es acc f = es.foldl (fun m e => match parseEntry e with
        | some (k, v) => insertAL m k v
        | none => m) acc := by
  intro es
  induction es with
  | nil => intro acc; rfl
  | cons e es ih => intro acc; simp only [List.forIn_cons, hf, bind, List.foldl_cons]; exact ih _

/-- **the listing parser TRANSLATED on this run is the model's** — for every byte string (seen as characters) the remote
`find` may print. A record required to have EXACTLY three TAB-separated fields (seed C04-K), a `split('\\t')` (seed C19-I),
a parser that consumes the listing in pieces (seed C19-K) change the translation. -/
theorem source_listing_parser_is_model (out : List Char) :
    Copia.Gen.Loops.parseRemoteMetaGen out = parseRemoteMeta out := by
  unfold Copia.Gen.Loops.parseRemoteMetaGen parseRemoteMeta
  simp only [Id.run, bind, pure, id]
  refine (parse_forIn _ ?_ _ _).trans ?_
  · intro e m
    unfold parseEntry
    cases he : e.isEmpty
    · simp only [Bool.false_eq_true, if_false]
      cases h1 : cut '\t' e with
      | none => simp
      | some x =>
        obtain ⟨size, rest⟩ := x
        dsimp only
        cases h2 : cut '\t' rest with
        | none => simp
        | some y =>
          obtain ⟨mt, path⟩ := y
          dsimp only
          cases h3 : parseU64 size with
          | none => simp
          | some sz =>
            dsimp only
            cases h4 : (stripDotSlash path).isEmpty <;> simp only [h4, Bool.not_true, Bool.not_false, Bool.false_eq_true, if_false, if_true]
            cases splitOnChar '.' mt <;> rfl
    · simp [he]
  · congr 1

end Copia.C19
