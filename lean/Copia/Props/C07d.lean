import Copia.Gen.LoopsArchive
/-! C07 — which archive is trusted, from the source as it is now. `Archive::load` and the three lines of `run_bisync` that turn its answer
into `trust_base` and `base` (both translated on this run): a base is used only when the archive file could be READ, PARSED, says it is
format `FORMAT_VERSION` and names THIS root pair; every other case — absent, unreadable, truncated, garbage, another format, another
pair's record — gives `trust_base = false` and an EMPTY base, which is the state `C07.untrusted_plan_no_delete` /
`untrusted_run_removes_nothing` are about (`reconcile` with `trust_base = false`). A load that falls back to `.bak`, accepts a newer
format, skips the pair comparison, or a caller that keeps the entries of a rejected archive changes the translation. -/
namespace Copia.C07

theorem source_archive_load_trusts_only (A B : Type) (read : Option B) (from_slice : B → Option A) (fv : A → Nat) (rph : A → List Nat)
    (expected : List Nat) (a : A) :
    Copia.Gen.Loops.archiveLoadGen read from_slice fv rph expected = some a ↔
      ∃ b, read = some b ∧ from_slice b = some a ∧ fv a = Copia.Gen.archiveFormatVersion ∧ rph a = expected := by
  unfold Copia.Gen.Loops.archiveLoadGen
  cases read with
  | none => simp [Id.run]
  | some b =>
    cases hfs : from_slice b with
    | none => simp [Id.run, hfs]
    | some a' =>
      by_cases hv : fv a' = Copia.Gen.archiveFormatVersion <;> by_cases hp : rph a' = expected <;>
        simp [Id.run, hfs, hv, hp, pure] <;> (intro h; subst h; simp_all)

/-- every archive fault C07 lists ends in the no-base state: no trust, and NOTHING of the rejected file is used -/
theorem source_archive_fault_means_no_base (A B E : Type) (read : Option B) (from_slice : B → Option A) (fv : A → Nat) (rph : A → List Nat)
    (expected : List Nat) (entries : A → List E)
    (hfault : read = none ∨ ∃ b, read = some b ∧ (from_slice b = none ∨
        ∃ a, from_slice b = some a ∧ (fv a ≠ Copia.Gen.archiveFormatVersion ∨ rph a ≠ expected))) :
    Copia.Gen.Loops.bisyncTrustGen (Copia.Gen.Loops.archiveLoadGen read from_slice fv rph expected) entries = (false, []) := by
  have hnone : Copia.Gen.Loops.archiveLoadGen read from_slice fv rph expected = none := by
    cases hl : Copia.Gen.Loops.archiveLoadGen read from_slice fv rph expected with
    | none => rfl
    | some a =>
      obtain ⟨b, hr, hf, hv, hp⟩ := (source_archive_load_trusts_only A B read from_slice fv rph expected a).mp hl
      rcases hfault with h | ⟨b', hr', h⟩
      · rw [h] at hr; cases hr
      · rw [hr'] at hr; cases hr
        rcases h with h | ⟨a', hf', h⟩
        · rw [h] at hf; cases hf
        · rw [hf'] at hf; cases hf
          rcases h with h | h
          · exact absurd hv h
          · exact absurd hp h
  rw [hnone]
  rfl

/-- a trusted archive's entries are the base, unchanged -/
theorem source_trusted_archive_is_the_base (A E : Type) (a : A) (entries : A → List E) :
    Copia.Gen.Loops.bisyncTrustGen (some a) entries = (true, entries a) := rfl

-- non-vacuity: format 1 of this pair is accepted; format 2, another pair, unparsable bytes are not
example : Copia.Gen.Loops.archiveLoadGen (some [1]) (fun b => some (b, [7])) (fun a => a.1.length) (fun a => a.2) [7] = some ([1], [7]) := by decide
example : Copia.Gen.Loops.archiveLoadGen (some [1, 1]) (fun b => some (b, [7])) (fun a => a.1.length) (fun a => a.2) [7] = none := by decide
example : Copia.Gen.Loops.archiveLoadGen (some [1]) (fun b => some (b, [8])) (fun a => a.1.length) (fun a => a.2) [7] = none := by decide
example : Copia.Gen.Loops.archiveLoadGen (A := List Nat × List Nat) (some [1]) (fun _ => none) (fun a => a.1.length) (fun a => a.2) [7] = none := by decide

/-- `archive.rs::archive_path` (translated): under one HOME, two pairs' records live in the same file only if the pair hashes are equal — with
`C07.source_pair_key_is_injective` (the hash's input determines the ordered pair of canonical roots) a record is never read as another pair's -/
theorem source_archive_path_is_injective (home : Option (List Char)) (p1 p2 : List Char)
    (h : Copia.Gen.Loops.archivePathGen home p1 = Copia.Gen.Loops.archivePathGen home p2) : p1 = p2 := by
  unfold Copia.Gen.Loops.archivePathGen at h
  simp only [Id.run, pure, List.cons.injEq, and_true, true_and] at h
  exact List.append_cancel_right h

end Copia.C07
