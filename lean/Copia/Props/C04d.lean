import Copia.Lemmas.GenEqLoopsRun
import Copia.Props.C04
/-! C04 / C15 — `incremental.rs::run_local`, the orchestration of a local `sync -r` (scan, the "No files found" return, plan, the
dry-run gate, the "Already up to date" return, the deliveries, the deletions, the report), as it stands in the source (translated
on this run), IS the model's one-way run: `oneWay` for a real run, `oneWayDry` for `--dry-run`. Every theorem of `Props/C04`
(`post`, `untouched_outside_plan`, `order_independent`, `partial_failure_stays_in_plan`, …) and the delete rules of `Props/C15` are
therefore statements about this function's text: a gate moved below a mutation, deletions performed before the deliveries they
make room for, a guard that skips the deletions of a real run but not of the printed plan (seed C15-M) change the translation. -/
namespace Copia.C04
open Copia.OneWay Copia.Plan

variable {K C : Type} [DecidableEq K]

theorem source_run_local_is_model (le : K → K → Bool) (excl : K → Bool) (del : Bool) (S D : Tree K C) :
    Copia.Gen.Loops.runLocalGen le excl del false S D = oneWay le excl del S D := by
  rw [Copia.GenEqLoops.runLocal_eq]; rfl

theorem source_run_local_dry_is_model (le : K → K → Bool) (excl : K → Bool) (del : Bool) (S D : Tree K C) :
    Copia.Gen.Loops.runLocalGen le excl del true S D = oneWayDry le excl del S D := by
  rw [Copia.GenEqLoops.runLocal_eq]; rfl

/-- `run_remote` (push and pull share it; what differs per direction — remote commands, quoting, staging — is C04's quoting theorems,
the `deliver_*` translations and the black-box runs) is the same one-way run -/
theorem source_run_remote_is_model (le : K → K → Bool) (excl : K → Bool) (del : Bool) (S D : Tree K C) :
    Copia.Gen.Loops.runRemoteGen le excl del false S D = oneWay le excl del S D ∧
    Copia.Gen.Loops.runRemoteGen le excl del true S D = oneWayDry le excl del S D := by
  constructor <;> (rw [Copia.GenEqLoops.runRemote_eq]; rfl)

end Copia.C04

namespace Copia.C15
open Copia.OneWay Copia.Plan

variable {K C : Type} [DecidableEq K]

/-- `--dry-run` of the translated orchestration leaves the destination as it is, and the plan it prints is the plan the real run,
from the same state, carries out in full: every printed `send` is delivered, every printed `delete` is deleted. -/
theorem source_dry_run_local (le : K → K → Bool) (excl : K → Bool) (del : Bool) (S D : Tree K C) :
    (Copia.Gen.Loops.runLocalGen le excl del true S D).dest = D ∧
    (Copia.Gen.Loops.runLocalGen le excl del true S D).plan = (Copia.Gen.Loops.runLocalGen le excl del false S D).plan ∧
    (Copia.Gen.Loops.runLocalGen le excl del false S D).dest =
      (Copia.Gen.Loops.runLocalGen le excl del true S D).plan.delete.foldl tdel
        ((Copia.Gen.Loops.runLocalGen le excl del true S D).plan.transfer.foldl (deliver S) D) := by
  rw [Copia.C04.source_run_local_is_model, Copia.C04.source_run_local_dry_is_model]
  unfold oneWayDry oneWay
  by_cases h : (S.isEmpty && !del) = true
  · simp [h]
  · simp [h]

/-- the same for push and pull -/
theorem source_dry_run_remote (le : K → K → Bool) (excl : K → Bool) (del : Bool) (S D : Tree K C) :
    (Copia.Gen.Loops.runRemoteGen le excl del true S D).dest = D ∧
    (Copia.Gen.Loops.runRemoteGen le excl del true S D).plan = (Copia.Gen.Loops.runRemoteGen le excl del false S D).plan ∧
    (Copia.Gen.Loops.runRemoteGen le excl del false S D).dest =
      (Copia.Gen.Loops.runRemoteGen le excl del true S D).plan.delete.foldl tdel
        ((Copia.Gen.Loops.runRemoteGen le excl del true S D).plan.transfer.foldl (deliver S) D) := by
  rw [(Copia.C04.source_run_remote_is_model le excl del S D).1, (Copia.C04.source_run_remote_is_model le excl del S D).2]
  unfold oneWayDry oneWay
  by_cases h : (S.isEmpty && !del) = true
  · simp [h]
  · simp [h]

end Copia.C15
