import Copia.Props.C19c
/-! C14 / C19 — `meta.rs::discover_remote_with_meta` (translated on this run): the remote listing is `Command::output()`'s WHOLE stdout,
used only when ssh could be run and the listing command exited 0, and handed as one piece to `parse_remote_meta_output` — the parser of
`C19.source_listing_parser_is_model`. A listing decoded piece by piece (seed C14-M: lossy UTF-8 per 64 KiB read), one taken from a
command that failed half-way, a parse of a prefix change the translation. -/
namespace Copia.C14

theorem source_remote_listing_is_the_whole_output (output : Option (Bool × List Char)) (m : List (List Char × Copia.Plan.FileMeta)) :
    Copia.Gen.Loops.discoverRemoteGen output = some m ↔ ∃ out, output = some (true, out) ∧ m = Copia.Meta.parseRemoteMeta out := by
  unfold Copia.Gen.Loops.discoverRemoteGen
  cases output with
  | none => simp [Id.run, pure]
  | some o =>
    obtain ⟨ok, out⟩ := o
    cases ok with
    | false => simp [Id.run, pure]
    | true =>
      simp only [Id.run, pure, Bool.not_true, Bool.false_eq_true, if_false, Option.some.injEq, Prod.mk.injEq, true_and]
      rw [Copia.C19.source_listing_parser_is_model]
      constructor
      · intro h; exact ⟨out, rfl, h.symm⟩
      · rintro ⟨o2, h1, h2⟩; rw [h2, h1]

end Copia.C14
