import Copia.Props.C01
namespace Copia.C01
open Copia.Delta Copia.Checksum

/-- `data.chunks(bs)`: consecutive blocks of `bs` bytes, the last one possibly shorter -/
def chunksOf (bs : Nat) : Nat → List Nat → List (List Nat)
  | 0, _ => []
  | fuel+1, l => if l.isEmpty then [] else l.take bs :: chunksOf bs fuel (l.drop bs)

/-- `BlockSignature::compute(i, chunk)` -/
def blockSig {D} (H : List Nat → D) (i : Nat) (chunk : List Nat) : BlockSig D :=
  { index := i, weak := (Rolling.new chunk).digest, strong := H chunk }

/-- `.chunks(bs).enumerate().map(compute).collect()` — the form both the sequential iterator and
rayon's order-preserving `par_chunks … collect` compute: a pure map over the numbered chunks -/
def sigMap {D} (H : List Nat → D) (bs : Nat) (i0 : Nat) (cs : List (List Nat)) : List (BlockSig D) :=
  match cs with
  | [] => []
  | c :: r => blockSig H i0 c :: sigMap H bs (i0 + 1) r

/-- C01 (signature paths): the loop form (the async engine's fill-a-buffer loop, `sigLoop`) and the
map-over-chunks form (the sync engine's sequential and rayon-parallel paths) produce the same block
list, for every data and block size. -/
theorem signature_paths_agree {D} (H : List Nat → D) (bs : Nat) :
    ∀ (fuel i : Nat) (l : List Nat), sigLoop H bs fuel i l = sigMap H bs i (chunksOf bs fuel l) := by
  intro fuel
  induction fuel with
  | zero => intro i l; simp [sigLoop, chunksOf, sigMap]
  | succ n ih =>
    intro i l
    unfold sigLoop chunksOf
    split
    · simp [sigMap]
    · simp only [sigMap, blockSig]
      rw [ih]

/-- each element of the map depends only on its own chunk and index: computing the elements in any
order (or concurrently) and putting them back in index order gives the same list -/
theorem sigMap_get {D} (H : List Nat → D) (bs : Nat) (cs : List (List Nat)) (i0 j : Nat) (h : j < cs.length) :
    (sigMap H bs i0 cs)[j]? = some (blockSig H (i0 + j) cs[j]) := by
  induction cs generalizing i0 j with
  | nil => simp at h
  | cons c r ih =>
    cases j with
    | zero => simp [sigMap]
    | succ k =>
      simp only [sigMap, List.getElem?_cons_succ, List.getElem_cons_succ]
      rw [ih (i0 + 1) k (by simpa using h)]
      congr 2; omega

end Copia.C01
