import Copia.Gen.LoopsDeliver
/-! C04 / C09 — the push primitive (`transfer.rs::transfer_file_to_remote`, translated on this run; the remote command's text and its `&&` chain are
`gen_constants.py`'s and `C09d`'s). It reports a file as sent exactly when: `metadata` gave a length `n`, ssh was spawned with THAT `n` in the
remote command's `wc -c` guard, every chunk read from the file was written to ssh's stdin, and the remote command exited 0; what was sent is
the chunks in order. So the size the remote side compares the staged file with is the size the sender saw BEFORE streaming: a file that grows,
shrinks, or whose sender dies mid-stream cannot pass the guard. -/
namespace Copia.C04

theorem push_loop {R : Type} (chunks : List (List Nat)) : ∀ (sent : List Nat),
    forIn (m := Id) chunks ((none : Option R), sent) (fun chunk r => ForInStep.yield (none, r.2 ++ chunk)) = (none, sent ++ chunks.flatten) := by
  induction chunks with
  | nil => intro sent; simp; rfl
  | cons c t ih => intro sent; simp only [List.forIn_cons, List.flatten_cons]; exact (ih _).trans (by simp)

theorem source_push_stream_success (ml : Option Nat) (sp si : Bool) (fc : Option (List (List Nat))) (wo : Bool) (w : Option Bool) (n : Nat)
    (h : (Copia.Gen.Loops.pushStreamGen ml sp si fc wo w).1 = some n) :
    ml = some n ∧ sp = true ∧ si = true ∧ w = some true ∧ (Copia.Gen.Loops.pushStreamGen ml sp si fc wo w).2.1 = some n ∧
    ∃ cs, fc = some cs ∧ (Copia.Gen.Loops.pushStreamGen ml sp si fc wo w).2.2 = cs.flatten := by
  unfold Copia.Gen.Loops.pushStreamGen at h ⊢
  cases ml with
  | none => simp [Id.run, pure] at h
  | some m =>
    cases sp with
    | false => simp [Id.run, pure] at h
    | true =>
      cases si with
      | false => simp [Id.run, pure] at h
      | true =>
        cases fc with
        | none => simp [Id.run, pure] at h
        | some cs =>
          cases wo with
          | true =>
            simp only [Id.run, pure, bind, Bool.not_true, Bool.false_eq_true, if_false] at h ⊢
            have e := push_loop (R := Option Nat × Option Nat × List Nat) cs []
            simp only [List.nil_append] at e
            rw [e] at h ⊢
            cases w with
            | none => simp at h
            | some st =>
              cases st with
              | false => simp at h
              | true =>
                simp only [Bool.not_true, Bool.false_eq_true, if_false] at h ⊢
                exact ⟨h, trivial, trivial, trivial, h, cs, rfl, rfl⟩
          | false =>
            cases cs with
            | nil =>
              simp only [Id.run, pure, bind, List.forIn_nil] at h ⊢
              cases w with
              | none => simp at h
              | some st =>
                cases st with
                | false => simp at h
                | true =>
                  simp only [Bool.not_true, Bool.false_eq_true, if_false] at h ⊢
                  exact ⟨h, trivial, trivial, trivial, h, [], rfl, rfl⟩
            | cons c t =>
              simp [Id.run, pure, bind] at h

end Copia.C04
