import Copia.Props.C02c
import Copia.Props.C15b
/-!
# C15 — `bisync --dry-run`: the translated source stops at the gate

`Copia.Gen.Loops.applyAndRecord` is the section of `run_bisync` from `let plan = reconcile(…)` to `arc.save(&apath)?;`
as `tools/rs2lean_do.py` translates it from the current text of `src/bin/copia/bidir.rs` on every run, the
`if opts.dry_run { … return Ok(()); }` gate included. `Copia.C15.bisyncDry` (C15b) is the model's dry run.
-/
namespace Copia.C15
open Copia.Reconcile Copia.Bisync

variable {P C : Type} [DecidableEq P] [DecidableEq C]

/-- **`bisync --dry-run`, from the source as it is now**: the translated section, run with `dry_run = true`, leaves exactly
the state the model's dry run leaves — the two trees as they were, no archive written — for every state, every
comparator and every conflict-name function. The gate therefore stands before the first `apply` and before `arc.save`;
moving it, or recording on a dry run, changes the translation and this theorem no longer checks. -/
theorem source_bisync_dry_run_is_model (le : P → P → Bool) (ge : C → C → Bool) (cname : P → C → P) (s : State P C) :
    Copia.Gen.Loops.applyAndRecord le ge cname (scan s.A) (scan s.B) (s.arch.getD []) s.arch.isSome true (s.A, s.B) =
      some (((bisyncDry le s).1.A, (bisyncDry le s).1.B), none, 0) :=
  Copia.C02.source_dry_run_changes_nothing le ge cname s

/-- the plan the dry run prints is the plan the translated source computes (`reconcile` translated = the model's) -/
theorem source_bisync_dry_run_plan (le : P → P → Bool) (s : State P C) :
    (bisyncDry le s).2 = Copia.Gen.Loops.reconcile le (scan s.A) (scan s.B) (s.arch.getD []) s.arch.isSome := by
  rw [Copia.GenEqLoops.reconcile_eq]; rfl

/-- non-vacuity: a state with something to do — the real run (same translated section, `dry_run = false`) changes B … -/
example :
    (Copia.Gen.Loops.applyAndRecord (P := Nat) (C := Nat) (· ≤ ·) (· ≥ ·) (fun p _ => p + 100) (scan [(1, 7)]) (scan []) [] false false ([(1, 7)], [])).map (·.1.2)
      = some [(1, 7)] := by decide +kernel

/-- … and the dry run does not -/
example :
    (Copia.Gen.Loops.applyAndRecord (P := Nat) (C := Nat) (· ≤ ·) (· ≥ ·) (fun p _ => p + 100) (scan [(1, 7)]) (scan []) [] false true ([(1, 7)], [])).map (·.1.2)
      = some [] := by decide +kernel

end Copia.C15
