import Copia.Lemmas.GenEq
/-! C19 — `plan.rs::needs_transfer` as translated from the source on this run is the model's quick check. -/
namespace Copia.C19

theorem source_needs_transfer_is_model (src : Copia.Plan.FileMeta) (dst : Option Copia.Plan.FileMeta) :
    Copia.Gen.needsTransfer src dst = Copia.Plan.needsTransfer src dst :=
  Copia.GenEq.needsTransfer_eq src dst

end Copia.C19
