import Copia.Lemmas.GenEq
import Copia.Lemmas.GenEqLoops
import Copia.Lemmas.GenEqLoops2
/-!
# C19 — the planner and its matcher in the SOURCE are the model (translated on every run)

`Copia.Gen.needsTransfer` comes from `tools/rs2lean.py`; `Copia.Gen.Loops.buildPlan`, `isExcluded`,
`globMatch` from `tools/rs2lean_do.py` (`Copia/Gen/LoopsPlan.lean`): `plan.rs` statement by statement,
loops included. These theorems make `glob_iff`, `plan_*`, `excluded_iff` (C15) and the one-way
theorems built on the plan statements about that text.
-/
namespace Copia.C19

theorem source_needs_transfer_is_model (src : Copia.Plan.FileMeta) (dst : Option Copia.Plan.FileMeta) :
    Copia.Gen.needsTransfer src dst = Copia.Plan.needsTransfer src dst :=
  Copia.GenEq.needsTransfer_eq src dst

/-- `plan.rs::build_plan` (both loops, the `continue`, the two sorts) = the model's `buildPlan` -/
theorem source_build_plan_is_model {K : Type} [DecidableEq K] (le : K → K → Bool) (excl : K → Bool)
    (src dst : List (K × Copia.Plan.FileMeta)) (withDelete : Bool) :
    Copia.Gen.Loops.buildPlan le excl src dst withDelete = Copia.Plan.buildPlan le excl src dst withDelete :=
  Copia.GenEqLoops.buildPlan_eq le excl src dst withDelete

/-- `plan.rs::is_excluded` (trailing-slash trim, empty pattern skipped, whole-path vs per-component
matching, early `return true`) = the model's `isExcluded` -/
theorem source_is_excluded_is_model (rel : List Char) (excludes : List (List Char)) :
    Copia.Gen.Loops.isExcluded Copia.Plan.globMatch rel excludes = Copia.Plan.isExcluded rel excludes :=
  Copia.GenEqLoops.isExcluded_eq rel excludes

/-- `plan.rs::glob_match` — the index loop with `star` / `mark` backtracking and the trailing-star
loop — run for at most the model's fuel per `while` FINISHES (`some`, not `none`) and answers what
the model's matcher answers. With `glob_iff`: the source's matcher terminates and decides exactly
the wildcard semantics, for every pattern and text. -/
theorem source_glob_match_is_model (p t : List Char) :
    Copia.Gen.Loops.globMatch ((t.length + 2) * (p.length + t.length + 2)) p t = some (Copia.Plan.globMatch p t) :=
  Copia.GenEqLoops.globMatch_eq p t

end Copia.C19
