import Copia.Model.Delta
/-!
# C05 — patch never reports success on wrong bytes

For **all** `basis` and `δ` (no well-formedness hypothesis whatsoever). Model: `Copia.Delta.patch`
(both engines' `patch`, `Delta::validate`). `H` is an arbitrary strong hash.
-/
namespace Copia.C05
open Copia.Delta

variable {D : Type} [DecidableEq D]

/-- C05: with verification enabled, success implies the produced bytes hash to the delta's checksum. -/
theorem ok_implies_checksum (H : List Nat → D) (basis : List Nat) (δ : Delta D) (out : List Nat)
    (h : patch H true basis δ = (.ok, out)) : H out = δ.checksum := by
  unfold patch at h
  split at h
  · simp at h
  · split at h
    · simp at h
    · next o ho =>
      split at h
      · simp at h
      · next hc =>
        simp only [Prod.mk.injEq, true_and] at h
        subst h
        simpa using hc

/-- C05: the verdict is one of the four reported outcomes and every outcome other than `ok` is an
error (totality is by construction: `patch` is a total function). Success also implies the delta
passed bounds validation against its declared basis size. -/
theorem ok_implies_valid (H : List Nat → D) (v : Bool) (basis : List Nat) (δ : Delta D) (out : List Nat)
    (h : patch H v basis δ = (.ok, out)) : validate δ = true ∧ applyOps basis δ.ops [] = (true, out) := by
  unfold patch at h
  split at h
  · simp at h
  · next hv =>
    split at h
    · simp at h
    · next o ho =>
      split at h
      · simp at h
      · simp only [Prod.mk.injEq, true_and] at h
        subst h
        exact ⟨by simpa using hv, ho⟩

/-- C05 (no read outside the basis): whenever the op loop consumes a copy, the range read lies
inside the **real** basis — otherwise the loop stops with a short-read error. -/
theorem reads_in_bounds (basis : List Nat) (ops : List Op) (acc out : List Nat)
    (h : applyOps basis ops acc = (true, out)) :
    ∀ off len, Op.copy off len ∈ ops → off + len ≤ basis.length := by
  induction ops generalizing acc with
  | nil => intro _ _ hm; cases hm
  | cons op t ih =>
    intro off len hm
    cases op with
    | copy o l =>
      unfold applyOps at h
      split at h
      · next hb =>
        rcases List.mem_cons.mp hm with he | hm'
        · cases he; exact hb
        · exact ih _ h off len hm'
      · simp at h
    | literal d =>
      unfold applyOps at h
      rcases List.mem_cons.mp hm with he | hm'
      · cases he
      · exact ih _ h off len hm'

/-- C05: a delta that fails validation is never applied (nothing is written). -/
theorem invalid_writes_nothing (H : List Nat → D) (v : Bool) (basis : List Nat) (δ : Delta D)
    (h : validate δ = false) : patch H v basis δ = (.invalidCopyBounds, []) := by
  simp [patch, h]

/-! Non-vacuity: a wrong basis is rejected, the right one accepted (H = identity). -/
example : (patch (fun x => x) true [1, 2, 3, 4]
    { blockSize := 2, sourceSize := 3, basisSize := 4, ops := [.copy 2 2, .literal [9]], checksum := [3, 4, 9] }).1 = .ok := by decide
example : (patch (fun x => x) true [1, 2, 7, 4]
    { blockSize := 2, sourceSize := 3, basisSize := 4, ops := [.copy 2 2, .literal [9]], checksum := [3, 4, 9] }).1 = .checksumMismatch := by decide

end Copia.C05
