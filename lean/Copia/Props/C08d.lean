import Copia.Props.C08c
import Copia.Props.C02
import Copia.Props.C06
import Copia.Lemmas.Crash8
import Copia.Props.C02b
/-!
# C08 — recovery: running `bisync` again after a kill at ANY point

`recovery`: take any pair of trees and any archive (under `NoNameClash`, the boundary of the known
finding D10), kill the run before its k-th mutating call for ANY k, and run `bisync` again on what
is left — with the old record if the record on disk is still the old one, and with WHATEVER record
(absent, the new one, anything) otherwise. The second run does not stop on an I/O error and leaves,
at every path and on both sides, exactly what the uninterrupted run would have left. Hence
(`recovery_loses_nothing`) no version is lost in the sense of C02.

Staging files (`*.copia-tmp`) are not paths of the model's trees: the model's second run is the real
one's after the leftover-staging retries the property allows. That clause is exercised on the real
binary by the kill sweep of `./check C08` (9 scenarios, every kill point, up to 4 recovery runs).

The proof needed the repair of D16: the entry the second run plans for a conflict-copy name the
killed run had already written on one side can be a DELETE (when the archive still records that
name); `Bisync13.apply_stale` is where the re-validation against the live other side is used.
-/
namespace Copia.C08
open Copia.Crash Copia.Reconcile Copia.Bisync

variable {P C : Type} [DecidableEq P] [DecidableEq C]

/-- C08 (recovery, every kill point, every state under NoNameClash) -/
theorem recovery (le : P → P → Bool)
    (trans : ∀ a b c, le a b → le b c → le a c) (total : ∀ a b, le a b || le b a)
    (antisymm : ∀ a b, le a b → le b a → a = b) (ge : C → C → Bool) (cname : P → C → P) (s : State P C)
    (nnc : NoNameClash ge cname s.A s.B (bisyncPlan le s)) (had : Bool) (k : Nat)
    (arch' : Option (List (P × Fp C))) :
    let r := ((steps le ge cname s had).take k).foldl exec (initC s)
    (r.arch = .old → arch' = s.arch) →
    let T : State P C := { A := r.A, B := r.B, arch := arch' }
    (bisync le ge cname T).status ≠ .ioError ∧
    ∀ q, get (bisync le ge cname T).state.A q = get (bisync le ge cname s).state.A q ∧
         get (bisync le ge cname T).state.B q = get (bisync le ge cname s).state.B q := by
  intro r hold T
  have hall : steps le ge cname s had = (runGroups le ge cname s).flatMap Group.steps ++ archSteps had :=
    steps_eq le ge cname s had
  obtain ⟨_, _, _, _, hdata⟩ := whole_run_prefix le ge cname s had k
  by_cases hk : k < ((runGroups le ge cname s).flatMap Group.steps).length
  · -- killed inside the data part: the record is the old one
    have hro : r.arch = .old := by
      apply Classical.byContradiction
      intro hne
      have := (hdata hne).1
      omega
    have harch : T.arch = s.arch := hold hro
    obtain ⟨done, todo, hplan, inv⟩ := crash_state le trans total antisymm ge cname s nnc k hk
    have hr : r = (((runGroups le ge cname s).flatMap Group.steps).take k).foldl exec (initC s) := by
      show ((steps le ge cname s had).take k).foldl exec (initC s) = _
      rw [hall, List.take_append_of_le_length (by omega)]
    rw [← hr] at inv
    exact recovery_from_crashInv le trans total antisymm ge cname s nnc done todo hplan T harch inv
  · -- every data call was made: both sides already hold the uninterrupted result
    have hr : r = ((archSteps had).take (k - ((runGroups le ge cname s).flatMap Group.steps).length)).foldl exec
        (((runGroups le ge cname s).flatMap Group.steps).foldl exec (initC s)) := by
      show ((steps le ge cname s had).take k).foldl exec (initC s) = _
      rw [hall, List.take_append, List.take_of_length_le (by omega), List.foldl_append]
    have inv0 := groups_keep (Pre s) (runGroups le ge cname s) (initC s) (initC_inv s) (runGroups_ok le ge cname s)
    obtain ⟨_, _, hA, hB⟩ := archive_steps_outcome (((runGroups le ge cname s).flatMap Group.steps).foldl exec (initC s))
      had inv0.archOld (k - ((runGroups le ge cname s).flatMap Group.steps).length)
    have hfin := complete_run_is_the_run le trans total antisymm ge cname s nnc
    obtain ⟨_, hconv, _⟩ := Copia.C06.converges le trans total antisymm ge cname s nnc
    have hTA : ∀ q, get T.A q = get (bisync le ge cname s).state.A q := by
      intro q; show get r.A q = _; rw [hr, hA]; exact (hfin q).1
    have hTB : ∀ q, get T.B q = get (bisync le ge cname s).state.B q := by
      intro q; show get r.B q = _; rw [hr, hB]; exact (hfin q).2
    obtain ⟨hstat, hsame⟩ := recovery_converged le trans total antisymm ge cname T
      (fun q => by rw [hTA, hTB]; exact hconv q)
    exact ⟨hstat, fun q => ⟨(hsame q).1.trans (hTA q), (hsame q).2.trans (hTB q)⟩⟩

/-- C08 (recovery loses nothing): every content either side held when the KILLED run started is on both
sides after crash + recovery, unless it was the recorded base at its path and the other side had
changed or deleted it — the exemption of C02, judged against the state before the killed run. -/
theorem recovery_loses_nothing (le : P → P → Bool)
    (trans : ∀ a b c, le a b → le b c → le a c) (total : ∀ a b, le a b || le b a)
    (antisymm : ∀ a b, le a b → le b a → a = b) (ge : C → C → Bool) (cname : P → C → P) (s : State P C)
    (nnc : NoNameClash ge cname s.A s.B (bisyncPlan le s)) (had : Bool) (k : Nat)
    (arch' : Option (List (P × Fp C))) :
    let r := ((steps le ge cname s had).take k).foldl exec (initC s)
    (r.arch = .old → arch' = s.arch) →
    let T : State P C := { A := r.A, B := r.B, arch := arch' }
    (∀ p c, get s.A p = some c →
      (∃ q, get (bisync le ge cname T).state.A q = some c ∧ get (bisync le ge cname T).state.B q = some c) ∨
      (baseOf s p = some (mkFp c) ∧ get s.B p ≠ some c)) ∧
    (∀ p c, get s.B p = some c →
      (∃ q, get (bisync le ge cname T).state.A q = some c ∧ get (bisync le ge cname T).state.B q = some c) ∨
      (baseOf s p = some (mkFp c) ∧ get s.A p ≠ some c)) := by
  intro r hold T
  obtain ⟨_, hsame⟩ := recovery le trans total antisymm ge cname s nnc had k arch' hold
  obtain ⟨_, hA, hB⟩ := Copia.C02.no_version_lost le trans total antisymm ge cname s nnc
  constructor
  · intro p c h
    rcases hA p c h with ⟨q, h1, h2⟩ | h'
    · exact Or.inl ⟨q, by rw [(hsame q).1]; exact h1, by rw [(hsame q).2]; exact h2⟩
    · exact Or.inr h'
  · intro p c h
    rcases hB p c h with ⟨q, h1, h2⟩ | h'
    · exact Or.inl ⟨q, by rw [(hsame q).1]; exact h1, by rw [(hsame q).2]; exact h2⟩
    · exact Or.inr h'

/-- C08 / C06 (the recovery run records what it leaves): when the killed run's record is still the old one, the
recovery run completes, leaves both sides equal at every path, and the archive it writes records exactly that tree —
so the run after it plans nothing (C06's idempotence applies to it as to any completed run). -/
theorem recovery_records_the_tree (le : P → P → Bool)
    (trans : ∀ a b c, le a b → le b c → le a c) (total : ∀ a b, le a b || le b a)
    (antisymm : ∀ a b, le a b → le b a → a = b) (ge : C → C → Bool) (cname : P → C → P) (s : State P C)
    (nnc : NoNameClash ge cname s.A s.B (bisyncPlan le s)) (k : Nat)
    (hk : k < ((runGroups le ge cname s).flatMap Group.steps).length) :
    let r := (((runGroups le ge cname s).flatMap Group.steps).take k).foldl exec (initC s)
    let T : State P C := { A := r.A, B := r.B, arch := s.arch }
    (bisync le ge cname T).status ≠ .ioError ∧
    (∀ q, get (bisync le ge cname T).state.A q = get (bisync le ge cname T).state.B q) ∧
    ∃ m, (bisync le ge cname T).state.arch = some m ∧
      ∀ q, lookup m q = (get (bisync le ge cname T).state.A q).map mkFp := by
  intro r T
  obtain ⟨done, todo, hplan, inv⟩ := crash_state le trans total antisymm ge cname s nnc k hk
  have bc := benign_of_crashInv le trans total antisymm ge cname s nnc done todo hplan T rfl inv
  exact Copia.C06.converges_benign le trans total antisymm ge cname T bc

/-- non-vacuity: `recovery`'s hypotheses are met by the run of `C02.s0` (a divergent edit + a delete against a
trusted archive, `C02.s0_noNameClash`) for every kill point and every record — e.g. killed before its 5th call -/
example := recovery (fun a b => decide (a ≤ b)) (by intro a b c; simp; omega) (by intro a b; simp; omega)
  (by intro a b; simp; omega) (fun a b => decide (a ≥ b)) (fun p c => 1000 + 100 * p + c) Copia.C02.s0
  Copia.C02.s0_noNameClash true 4 Copia.C02.s0.arch (fun _ => rfl)

end Copia.C08
