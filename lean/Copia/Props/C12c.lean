import Copia.Lemmas.GenEqLoopsW
/-!
# C12 / C13 — `write_frame` and `read_frame` are inverse, from the source as it is now

`Copia.Gen.Loops.writeFrameGen` is `wire.rs::write_frame` (serialise, refuse a body of 2^32 bytes or more and one above
`MAX_FRAME`, the length as four big-endian bytes, the body) as translated on this run. Whatever follows a written frame on the
wire, the translated `read_frame` returns exactly the written body's decoding, reserves exactly the body's length and leaves
exactly what followed: every reply `serve` writes and every request `HubClient` writes is read back in step by the other side.
-/
namespace Copia.C12
open Copia.Hub Copia.WireSupport Copia.GenEqLoops

theorem be32_be32enc (n : Nat) (h : n < 4294967296) : be32 (be32enc n) = n := by
  simp only [be32enc, be32]
  omega

theorem source_write_frame_shape {T : Type} (enc : T → Option Bytes) (msg : T) (w : Bytes)
    (h : Copia.Gen.Loops.writeFrameGen enc msg = some w) :
    ∃ buf, enc msg = some buf ∧ buf.length ≤ Copia.Gen.maxFrame ∧ buf.length < 4294967296 ∧ w = be32enc buf.length ++ buf := by
  unfold Copia.Gen.Loops.writeFrameGen at h
  cases he : enc msg with
  | none => simp [Id.run, he] at h
  | some buf =>
    simp only [Id.run, he] at h
    by_cases h1 : buf.length ≥ 4294967296
    · simp [h1, pure] at h
    · by_cases h2 : buf.length > Copia.Gen.maxFrame
      · simp [h1, h2, pure] at h
      · simp only [h1, h2, if_false, decide_false, Bool.false_eq_true, pure, List.nil_append, Option.some.injEq] at h
        exact ⟨buf, rfl, by omega, by omega, h.symm⟩

/-- **what `write_frame` writes, `read_frame` reads back** — one frame, the same body, the rest of the input untouched -/
theorem source_frame_roundtrip {T R : Type} (enc : T → Option Bytes) (dec : Bytes → Option R) (msg : T) (w rest : Bytes)
    (h : Copia.Gen.Loops.writeFrameGen enc msg = some w) :
    ∃ buf, enc msg = some buf ∧
      Copia.Gen.Loops.readFrame dec (w ++ rest) =
        match dec buf with
        | some r => FrameRes.frame r buf.length rest
        | none => FrameRes.badBody buf.length := by
  obtain ⟨buf, he, hmax, h32, hw⟩ := source_write_frame_shape enc msg w h
  refine ⟨buf, he, ?_⟩
  subst hw
  rw [readFrame_eq]
  have hlen : (be32enc buf.length).length = 4 := rfl
  have htake : (be32enc buf.length ++ buf ++ rest).take 4 = be32enc buf.length := by
    rw [List.append_assoc, List.take_append_of_le_length (by omega), List.take_of_length_le (by omega)]
  have hdrop : (be32enc buf.length ++ buf ++ rest).drop 4 = buf ++ rest := by
    rw [List.append_assoc, List.drop_append_of_le_length (by omega), List.drop_of_length_le (by omega)]; rfl
  rw [htake, hdrop, be32_be32enc _ h32]
  have h1 : ¬ (be32enc buf.length ++ buf ++ rest).length < 4 := by simp only [List.length_append, hlen]; omega
  have h2 : ¬ buf.length > Copia.Gen.maxFrame := by omega
  have h3 : ¬ (buf ++ rest).length < buf.length := by simp only [List.length_append]; omega
  simp only [h1, h2, h3, if_false]
  rw [List.take_left' rfl, List.drop_left' rfl]
  cases dec buf <;> rfl

end Copia.C12
