import Copia.Lemmas.GenEqLoops
import Copia.Props.C09d
/-!
# C04 — the planner in the SOURCE is the model (translated on every run)

`post`, `untouched_outside_plan`, … are about the plan `Copia.Plan.buildPlan` computes. This theorem
says `plan.rs::build_plan`, translated statement by statement from the current source
(`tools/rs2lean_do.py` → `Copia/Gen/LoopsPlan.lean`), IS that function.
-/
namespace Copia.C04

theorem source_build_plan_is_model {K : Type} [DecidableEq K] (le : K → K → Bool) (excl : K → Bool)
    (src dst : List (K × Copia.Plan.FileMeta)) (withDelete : Bool) :
    Copia.Gen.Loops.buildPlan le excl src dst withDelete = Copia.Plan.buildPlan le excl src dst withDelete :=
  Copia.GenEqLoops.buildPlan_eq le excl src dst withDelete

/-- C04 (push: a file is counted as delivered only if it was): the remote command of the current source
exits 0 iff the stream was staged, its size matched the announced size, the destination was not a directory,
and the rename over the destination and the mtime stamp succeeded (`Gen.pushConns` regenerated from transfer.rs; `Model/Shell.eval`) -/
theorem source_push_failure_is_reported (ok : Nat → Bool) :
    (Copia.Shell.eval ok Copia.Gen.pushConns).2 = true ↔ (ok 0 = true ∧ ok 1 = true ∧ ok 2 = true ∧ ok 3 = true ∧ ok 4 = true) :=
  Copia.C09.push_command_status ok

end Copia.C04
