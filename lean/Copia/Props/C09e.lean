import Copia.Gen.LoopsDeliver
/-!
# C09 — `deliver_local` and `deliver_pull` in the SOURCE make exactly the model's calls, in the model's order

`Copia.Gen.Loops.deliverLocal` / `deliverPull` are `incremental.rs::deliver_local` / `deliver_pull` translated
statement by statement into the calls they make on the destination and its staging sibling
(`tools/rs2lean_do.py`; the copy / the ssh stream into `tmp_path(dst)` = `openTmp` followed by the data chunks,
`rename(tmp, dst)` = `publish`, `set_local_mtime` = `stamp`). `atomic_prefix`, `parallel_atomic` and
`rerun_reaches_uninterrupted` are about `deliverSteps`: stage, then publish, then stamp.
-/
namespace Copia.C09
open Copia.Deliver

theorem source_deliver_local_is_model (chunks : List Bytes) (t : Int) :
    Copia.Gen.Loops.deliverLocal chunks (some t) = deliverSteps chunks := by
  simp [Copia.Gen.Loops.deliverLocal, deliverSteps, Id.run, pure]

theorem source_deliver_pull_is_model (chunks : List Bytes) (t : Int) :
    Copia.Gen.Loops.deliverPull chunks (some t) = deliverSteps chunks := by
  simp [Copia.Gen.Loops.deliverPull, deliverSteps, Id.run, pure]

/-- without an mtime to preserve the only difference is the missing stamp -/
theorem source_deliver_without_mtime (chunks : List Bytes) :
    Copia.Gen.Loops.deliverLocal chunks none ++ [DStep.stamp] = deliverSteps chunks ∧
    Copia.Gen.Loops.deliverPull chunks none ++ [DStep.stamp] = deliverSteps chunks := by
  simp [Copia.Gen.Loops.deliverLocal, Copia.Gen.Loops.deliverPull, deliverSteps, Id.run, pure]

end Copia.C09
