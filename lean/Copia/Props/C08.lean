import Copia.Model.Crash
/-!
# C08 — bisync is crash-safe: the record never runs ahead of the data (micro-step model)

Prefix invariants of `Copia.Crash.exec` over step lists. What is proved here is about arbitrary step
lists with the *shape* `steps` produces (data steps, then the archive steps); that the real run makes
exactly these calls in this order is the trace-conformance part of `./check C08`.
-/
namespace Copia.C08
open Copia.Crash Copia.Bisync

variable {P C : Type} [DecidableEq P]

/-- the archive steps never touch a tree or a staging area -/
theorem arch_steps_keep_trees (s : CState P C) (st : FsStep P C)
    (h : st = .archStage ∨ st = .archSync ∨ st = .archBak ∨ st = .archPublish) :
    (exec s st).A = s.A ∧ (exec s st).B = s.B := by
  rcases h with h | h | h | h <;> subst h <;> simp [exec]
  split <;> simp

/-- data steps never touch the record -/
theorem data_steps_keep_record (s : CState P C) (st : FsStep P C)
    (h : st ≠ .archBak ∧ st ≠ .archPublish ∧ st ≠ .archSync) :
    (exec s st).arch = s.arch := by
  cases st with
  | stage sd p c => cases sd <;> rfl
  | sync sd p => cases sd <;> simp [exec] <;> split <;> rfl
  | publish sd p => cases sd <;> simp [exec] <;> split <;> rfl
  | unlink sd p => cases sd <;> rfl
  | archStage => rfl
  | archSync => exact absurd rfl h.2.2
  | archBak => exact absurd rfl h.1
  | archPublish => exact absurd rfl h.2.1

/-- C08 (record after data): executing any prefix of `data ++ archSteps`, the record is still the old
one as long as the prefix lies inside the data part — the new record can only appear after **every**
data step has been executed. -/
theorem record_old_during_data (s0 : CState P C) (data : List (FsStep P C))
    (hd : ∀ st ∈ data, st ≠ .archBak ∧ st ≠ .archPublish ∧ st ≠ .archSync) (k : Nat) (hk : k ≤ data.length)
    (hadArchive : Bool) :
    (((data ++ archSteps hadArchive).take k).foldl exec s0).arch = s0.arch := by
  have htake : (data ++ archSteps hadArchive).take k = data.take k := by
    rw [List.take_append_of_le_length hk]
  rw [htake]
  have hd' : ∀ st ∈ data.take k, st ≠ .archBak ∧ st ≠ .archPublish ∧ st ≠ .archSync :=
    fun st hst => hd st (List.mem_of_mem_take hst)
  generalize data.take k = l at hd'
  induction l generalizing s0 with
  | nil => rfl
  | cons x t ih =>
    simp only [List.foldl_cons]
    rw [ih (exec s0 x) (fun st hst => hd' st (List.mem_cons_of_mem _ hst))]
    exact data_steps_keep_record s0 x (hd' x (List.mem_cons_self ..))

/-- C08 (record states): the archive steps move the record old → (bak) → new and never produce
anything else; `new` needs a complete, fsync'ed temporary. -/
theorem archive_steps_outcome (s : CState P C) (hadArchive : Bool) (hold : s.arch = .old) (k : Nat) :
    let r := ((archSteps (P := P) (C := C) hadArchive).take k).foldl exec s
    (r.arch = .old ∨ r.arch = .bak ∨ r.arch = .new) ∧
    (r.arch = .new → (archSteps (P := P) (C := C) hadArchive).length ≤ k) ∧
    r.A = s.A ∧ r.B = s.B := by
  cases hadArchive
  · match k with
    | 0 => simp [archSteps, hold]
    | 1 => simp [archSteps, exec, hold]
    | 2 => simp [archSteps, exec, hold]
    | k+3 => simp [archSteps, exec, hold]
  · match k with
    | 0 => simp [archSteps, hold]
    | 1 => simp [archSteps, exec, hold]
    | 2 => simp [archSteps, exec, hold]
    | 3 => simp [archSteps, exec, hold]
    | k+4 => simp [archSteps, exec, hold]

/-- C08 (no unsynced publish): a step list in which every `publish` is preceded by a `sync` of the
same staged file never publishes volatile bytes. This is the shape `copySteps` has. -/
theorem copySteps_publishes_synced (s : CState P C) (sd : Side) (p : P) (c : C) :
    ((copySteps sd p c).foldl exec s).unsyncedPublished = s.unsyncedPublished := by
  cases sd <;> simp [copySteps, exec, stageGet, stagePut]

/-- C08 (atomic visibility): the three steps of one `copy_atomic` change the live tree only at the
last one; before it the destination path is exactly as it was. -/
theorem copy_invisible_until_publish (s : CState P C) (p : P) (c : C) (k : Nat) (hk : k < 3) :
    (((copySteps Side.B p c).take k).foldl exec s).B = s.B ∧
    (((copySteps Side.A p c).take k).foldl exec s).A = s.A := by
  match k, hk with
  | 0, _ => simp [copySteps]
  | 1, _ => simp [copySteps, exec]
  | 2, _ => simp [copySteps, exec, stageGet, stagePut]

/-- and after the last one it holds the complete delivered content -/
theorem copy_publishes_content (s : CState P C) (p : P) (c : C) :
    ((copySteps Side.B p c).foldl exec s).B = ins s.B p c ∧
    ((copySteps Side.A p c).foldl exec s).A = ins s.A p c := by
  simp [copySteps, exec, stageGet, stagePut]

end Copia.C08
