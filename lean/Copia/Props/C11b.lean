import Copia.Lemmas.GenEqLoopsH
/-!
# C11 — the path guard in the SOURCE is the model (translated on every run)

`under_root`, `refused_iff`, `accepted_*_under_root` are about `Copia.Hub.safeJoin`. This theorem says that
`serve.rs::safe_join`, translated statement by statement from the current source (`tools/rs2lean_do.py` →
`Copia/Gen/LoopsHub.lean`; `Path::components()` is the model's `components`, `Component::Prefix` cannot occur),
IS that function: absolute paths, `..` / root components anywhere, and a first name `.copia` are refused,
everything else is `root/rel`.
-/
namespace Copia.C11

theorem source_safe_join_is_model (root rel : List Char) :
    Copia.Gen.Loops.safeJoin root rel = Copia.Hub.safeJoin root rel :=
  Copia.GenEqLoops.safeJoin_eq root rel

end Copia.C11
