import Copia.Gen.LoopsDeliver
/-! C04 — the pull primitive (`dir_sync.rs::transfer_file_from_remote`, translated on this run): `ssh host cat FILE` streamed into the staging
file. It reports success — which `deliver_pull` turns into a rename over the destination and a file counted as sent — exactly when ssh was
spawned, the local file created, `tokio::io::copy` returned without a read or write error, the final `flush` (which collects the result of
the LAST write — tokio file writes complete in the background) succeeded, AND the remote `cat` exited with status 0; the byte count is
`copy`'s. A remote `cat` that dies, a full local disk, a short stream are errors of this file, never a quiet short delivery (seed C04-M
replaced copy + flush by a hand-written loop + `sync_all`, which parks the last write's error: the translation changes). -/
namespace Copia.C04

theorem source_pull_stream_ok_iff (spawn_ok stdout_ok create_ok : Bool) (copy : Option Nat) (flush_ok : Bool) (wait : Option Bool) (n : Nat) :
    Copia.Gen.Loops.pullStreamGen spawn_ok stdout_ok create_ok copy flush_ok wait = some n ↔
      (spawn_ok = true ∧ stdout_ok = true ∧ create_ok = true ∧ copy = some n ∧ flush_ok = true ∧ wait = some true) := by
  unfold Copia.Gen.Loops.pullStreamGen
  cases spawn_ok <;> cases stdout_ok <;> cases create_ok <;> cases copy <;> cases flush_ok <;> cases wait <;>
    simp [Id.run, pure]
  rename_i w
  cases w <;> simp

end Copia.C04
