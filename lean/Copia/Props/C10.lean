import Copia.Lemmas.HubRefine2
/-!
# C10 — hub paths only ever hold complete, hash-verified content

Interleaved model `Copia.Model.HubConc`: N server processes, any interleaving of their file-system
steps, any kills. `Inv` is inductive over `Step` (all fifteen step kinds, Put and Delete, `Copia.Lemmas.HubInv.step_inv`);
here it is lifted to every reachable state. The hypothesis `WF.tmp_inj` (per-process staging names) is
what the pinned code violated (D6): with a shared staging name the invariant is false and the model
exhibits the torn file as a run.
-/
namespace Copia.C10
open Copia.HubConc

/-- C10: in EVERY reachable state — under any interleaving of the servers' steps and with any
processes killed at any point — every client-visible (non-staging) path holds initial content or
the complete bytes of one Put whose streamed hash equalled its declared hash. -/
theorem visible_paths_hold_verified_content {S : Sys} {init : List Chunk → Prop} {s0 s : State}
    (wf : WF S) (h0 : Inv S init s0) (l0 : LInv S s0) (r : Reach S s0 s)
    (p : Path) (n : Ino) (hp : S.staging p = false) (hd : s.dir p = some n) :
    Valid S init (s.ino n) :=
  (reach_inv wf h0 l0 r).1.pub p n hp hd

/-- C10: a Put whose streamed bytes do not hash to its declared hash never gets as far as the
commit decision, in any reachable state — so it can change no client-visible path. -/
theorem wrong_hash_never_publishes {S : Sys} {init : List Chunk → Prop} {s0 s : State}
    (wf : WF S) (h0 : Inv S init s0) (l0 : LInv S s0) (r : Reach S s0 s) (i : Pid)
    (hbad : S.H (S.req i).chunks ≠ (S.req i).declared) (fd : Ino) (c : Option Hash) :
    s.pc i ≠ .decided fd c ∧ s.pc i ≠ .locked fd ∧ s.pc i ≠ .verified fd := by
  have hfull := (reach_inv wf h0 l0 r).1.full i fd
  refine ⟨?_, ?_, ?_⟩ <;> intro h <;> exact hbad (hfull (by rw [h]; rfl)).2

/-- C10: a staging inode that a live process is still filling is never visible to clients, and two
processes never share a staging inode. -/
theorem staging_private {S : Sys} {init : List Chunk → Prop} {s0 s : State}
    (wf : WF S) (h0 : Inv S init s0) (l0 : LInv S s0) (r : Reach S s0 s) (i j : Pid) (fi fj : Ino)
    (hi : fdOf (s.pc i) = some fi) (hj : fdOf (s.pc j) = some fj) (hij : i ≠ j) (p : Path)
    (hp : S.staging p = false) : fi ≠ fj ∧ s.dir p ≠ some fi :=
  ⟨fd_ne wf (reach_inv wf h0 l0 r).1 hi hj hij, fd_not_pub wf (reach_inv wf h0 l0 r).1 hi hp⟩

/-- an initial state (no process has started, the lock is free, distinct paths have distinct inodes,
no staging file exists, visible files hold initial content) satisfies both invariants -/
theorem init_ok {S : Sys} {init : List Chunk → Prop} (s0 : State)
    (hpc : ∀ i, s0.pc i = .start) (hlock : s0.lock = none)
    (hinj : ∀ p q n, s0.dir p = some n → s0.dir q = some n → p = q)
    (hfresh : ∀ p n, s0.dir p = some n → n < s0.next)
    (hpub : ∀ p n, S.staging p = false → s0.dir p = some n → init (s0.ino n)) :
    Inv S init s0 ∧ LInv S s0 := by
  refine ⟨⟨hinj, hfresh, ?_, ?_, ?_, ?_⟩, ⟨?_, ?_, ?_⟩⟩
  · intro i fd h; rw [hpc i] at h; cases h
  · intro i fd k h; rw [hpc i] at h; cases h
  · intro i fd h; rw [hpc i] at h; cases h
  · intro p n hp hd; exact Or.inl (hpub p n hp hd)
  · intro i h; rw [hpc i] at h; cases h
  · intro i fd c h; rw [hpc i] at h; cases h
  · intro i c h; rw [hpc i] at h; cases h

/-- C10 (fetch): the inode behind a client-visible path is never written again — whatever the other
processes do afterwards (writes, truncations of their staging files, commits over the path, deletes,
kills), a reader that opened the path at state `s` reads exactly the complete verified content it
held then. (`handle_get` reads size and bytes from ONE open handle after the D7 repair.) -/
theorem fetch_reads_one_complete_version {S : Sys} {init : List Chunk → Prop} {s0 s t : State}
    (wf : WF S) (h0 : Inv S init s0) (l0 : LInv S s0) (r0 : Reach S s0 s) (r : Reach S s t)
    (p : Path) (n : Ino) (hp : S.staging p = false) (hd : s.dir p = some n) :
    t.ino n = s.ino n ∧ Valid S init (s.ino n) :=
  ⟨(sealed_reach wf h0 l0 r0 (published_sealed wf (reach_inv wf h0 l0 r0).1 p n hp hd) r).content,
   (reach_inv wf h0 l0 r0).1.pub p n hp hd⟩

end Copia.C10
