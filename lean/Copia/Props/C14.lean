import Copia.Props.C04
/-!
# C14 — an unchanged tree is never re-sent (model level)

After a run, the same command plans no transfer and no delete; a file is sent only if absent or
differing in size / whole-second mtime. The whole-second floor through each of the three
writer/reader pairs (`set_local_mtime`/`stat`, `touch -d @s`/`find %T@`) is tied by the black-box
second runs of `./check C14` (mtimes 0, sub-second, far future).
-/
namespace Copia.C14
open Copia.Plan Copia.OneWay Copia.C04

variable {K C : Type} [DecidableEq K]

/-- C14: immediately after a run, the same command plans nothing: no transfer (every non-excluded
source file now matches in size and whole-second mtime) and no delete. -/
theorem second_run_plans_nothing (le : K → K → Bool) (excl : K → Bool) (wd : Bool) (S D : Tree K C)
    (hS : (S.map (·.1)).Nodup) (hran : (oneWay le excl wd S D).ranPlan = true) :
    (buildPlan le excl (metaOf S) (metaOf (oneWay le excl wd S D).dest) wd).transfer = [] ∧
    (buildPlan le excl (metaOf S) (metaOf (oneWay le excl wd S D).dest) wd).delete = [] := by
  have hplan : (oneWay le excl wd S D).plan = buildPlan le excl (metaOf S) (metaOf D) wd := by
    unfold oneWay at hran ⊢
    split
    · next h => simp [h] at hran
    · rfl
  constructor
  · apply List.eq_nil_iff_forall_not_mem.mpr
    intro p hp
    obtain ⟨m, hm, hex, hnt⟩ := (mem_transfer le excl _ _ wd p).mp hp
    have hSm : lookup (metaOf S) p = some m :=
      lookup_of_mem_nodup (metaOf S) (by rw [keys_metaOf]; exact hS) p m hm
    rw [lookup_metaOf] at hSm
    cases hl : lookup S p with
    | none => simp [hl] at hSm
    | some e =>
      simp only [hl, Option.map_some, Option.some.injEq] at hSm
      have hnd : p ∉ (oneWay le excl wd S D).plan.delete := by
        rw [hplan]; intro hd
        have := ((mem_delete le excl _ _ wd p).mp hd).2.2.1
        rw [lookup_metaOf, hl] at this; simp at this
      rw [lookup_metaOf, post le excl wd S D p hran] at hnt
      simp only [hnd, if_false] at hnt
      by_cases ht : p ∈ (oneWay le excl wd S D).plan.transfer
      · simp only [ht, if_true, hl, Option.map_some] at hnt
        subst hSm
        simp [needsTransfer, strip] at hnt
      · simp only [ht, if_false] at hnt
        -- not transferred in the first run although in src and not excluded: it already matched
        rw [hplan] at ht
        have : ¬ needsTransfer m (lookup (metaOf D) p) = true := by
          intro hn; exact ht ((mem_transfer le excl _ _ wd p).mpr ⟨m, hm, hex, hn⟩)
        rw [lookup_metaOf] at this
        exact this hnt
  · apply List.eq_nil_iff_forall_not_mem.mpr
    intro p hp
    obtain ⟨hwd, hk, hns, hex⟩ := (mem_delete le excl _ _ wd p).mp hp
    rw [keys_metaOf] at hk
    have hsome : (lookup (oneWay le excl wd S D).dest p).isSome := by
      cases hl : lookup (oneWay le excl wd S D).dest p with
      | some e => rfl
      | none => exact absurd hk ((lookup_none_iff _ p).mp hl)
    rw [post le excl wd S D p hran] at hsome
    by_cases hd : p ∈ (oneWay le excl wd S D).plan.delete
    · simp [hd] at hsome
    · simp only [hd, if_false] at hsome
      by_cases ht : p ∈ (oneWay le excl wd S D).plan.transfer
      · rw [hplan] at ht
        have := transfer_in_src le excl S D wd p ht
        rw [lookup_metaOf] at hns
        cases hl : lookup S p with
        | none => simp [hl] at this
        | some e => simp [hl] at hns
      · simp only [ht, if_false] at hsome
        apply hd
        rw [hplan]
        refine (mem_delete le excl _ _ wd p).mpr ⟨hwd, ?_, hns, hex⟩
        rw [keys_metaOf]
        cases hl : lookup D p with
        | none => simp [hl] at hsome
        | some e =>
          exact Classical.byContradiction fun hnk => by
            have := (lookup_none_iff D p).mpr hnk
            rw [hl] at this; cases this

/-- C14 (general form): a file is sent only if it is absent from the destination or differs from it
in size or whole-second mtime. -/
theorem sent_only_if_needed (le : K → K → Bool) (excl : K → Bool) (wd : Bool) (S D : Tree K C) (p : K)
    (h : p ∈ (buildPlan le excl (metaOf S) (metaOf D) wd).transfer) :
    lookup D p = none ∨ ∃ s d, (p, s) ∈ metaOf S ∧ lookup (metaOf D) p = some d ∧ (s.size ≠ d.size ∨ s.mtime ≠ d.mtime) := by
  obtain ⟨m, hm, _, hnt⟩ := (mem_transfer le excl _ _ wd p).mp h
  rcases (needsTransfer_iff m _).mp hnt with hn | ⟨d, hd, hne⟩
  · left
    rw [lookup_metaOf] at hn
    cases hl : lookup D p with
    | none => rfl
    | some e => simp [hl] at hn
  · exact Or.inr ⟨m, d, hm, hd, hne⟩

end Copia.C14
