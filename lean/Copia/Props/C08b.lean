import Copia.Lemmas.Crash3
/-!
# C08 — whole-run statement (every kill point of a whole `bisync` run)

`whole_run_prefix` lifts the per-copy and per-record lemmas of `Copia.Props.C08` to the complete list
of mutating calls of a run (`Crash.steps`: the plan's deliveries in plan order, then the archive
save), for every pair of trees, every archive and every prefix length.
-/
namespace Copia.C08
open Copia.Crash Copia.Reconcile Copia.Bisync

variable {P C : Type} [DecidableEq P] [DecidableEq C]

/-- C08 (whole run, every kill point): after ANY prefix of the mutating calls of a run
* no staged file was ever renamed into place without having been fsync'ed;
* every live path on either side holds a complete content that some path held when the run started;
* the record is the new one only if the WHOLE run was executed;
* the record is no longer the old one only if every data step was executed (so every file the new
  record describes has already been flushed and renamed into place on both sides). -/
theorem whole_run_prefix (le : P → P → Bool) (ge : C → C → Bool) (cname : P → C → P) (s : State P C)
    (had : Bool) (k : Nat) :
    let all := steps le ge cname s had
    let data := (runGroups le ge cname s).flatMap Group.steps
    let r := (all.take k).foldl exec (initC s)
    r.unsyncedPublished = false ∧
    (∀ p c, get r.A p = some c → Pre s c) ∧ (∀ p c, get r.B p = some c → Pre s c) ∧
    (r.arch = .new → all.length ≤ k) ∧
    (r.arch ≠ .old → data.length ≤ k ∧ r.A = (data.foldl exec (initC s)).A ∧ r.B = (data.foldl exec (initC s)).B) := by
  intro all data r
  have hall : all = data ++ archSteps had := steps_eq le ge cname s had
  by_cases hk : k < data.length
  · -- the kill falls inside the data part
    obtain ⟨done, g, rest, j, hgs, hj, ht⟩ := take_flatMap Group.steps (runGroups le ge cname s) k hk
    have hr : r = ((g.steps.take j).foldl exec ((done.flatMap Group.steps).foldl exec (initC s))) := by
      show (all.take k).foldl exec (initC s) = _
      rw [hall, List.take_append_of_le_length (by omega), ht, List.foldl_append]
    have hdone : ∀ x ∈ done, x.ok (Pre s) := fun x hx =>
      runGroups_ok le ge cname s x (by rw [hgs]; exact List.mem_append_left _ hx)
    have inv := groups_keep (Pre s) done (initC s) (initC_inv s) hdone
    obtain ⟨hA, hB, hU, hR⟩ := group_partial ((done.flatMap Group.steps).foldl exec (initC s)) g j hj
    rw [hr]
    refine ⟨by rw [hU]; exact inv.synced, by rw [hA]; exact inv.liveA, by rw [hB]; exact inv.liveB, ?_, ?_⟩
    · intro h; rw [hR, inv.archOld] at h; cases h
    · intro h; rw [hR, inv.archOld] at h; exact absurd rfl h
  · -- every data step has run; the kill falls inside (or after) the archive steps
    have hr : r = ((archSteps had).take (k - data.length)).foldl exec (data.foldl exec (initC s)) := by
      show (all.take k).foldl exec (initC s) = _
      rw [hall, List.take_append, List.take_of_length_le (by omega), List.foldl_append]
    have inv := groups_keep (Pre s) (runGroups le ge cname s) (initC s) (initC_inv s) (runGroups_ok le ge cname s)
    obtain ⟨_, hnew, hA, hB⟩ := archive_steps_outcome (data.foldl exec (initC s)) had inv.archOld (k - data.length)
    rw [hr]
    refine ⟨by rw [arch_steps_keep_synced]; exact inv.synced, by rw [hA]; exact inv.liveA, by rw [hB]; exact inv.liveB, ?_, ?_⟩
    · intro h
      have := hnew h
      rw [hall, List.length_append]; omega
    · intro _; exact ⟨by omega, hA, hB⟩

end Copia.C08
