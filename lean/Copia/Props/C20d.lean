import Copia.Gen.LoopsCodec
import Copia.Lemmas.Codec1
/-! C20 — `FrameHeader::encode` and `FrameHeader::decode` themselves, from the source as it is now (translated on this run; `from_u8` and `validate`
are the regenerated `Gen.fromU8Arms` / `Gen.headerValid`): on the 12-byte array they ARE the model's header codec — the byte order of the array
literal (magic, little-endian length, type, version, little-endian flags), the order of the checks in `decode` (`from_u8` first, then `validate`),
the field each check reads. `C20.source_read_header_is_model` / `source_write_message_is_model` call the model's header codec; with these two theorems
the whole framed path is source text. -/
namespace Copia.C20
open Copia.Codec

theorem source_header_encode_is_model (h : FrameHeader) (hm : h.magic.length = 4) :
    Copia.Gen.Loops.headerEncodeGen h = h.encode := by
  unfold Copia.Gen.Loops.headerEncodeGen FrameHeader.encode
  obtain ⟨magic, length, msgType, version, flags⟩ := h
  simp only at hm ⊢
  match magic, hm with
  | [m0, m1, m2, m3], _ =>
    simp only [Id.run, pure, le, List.getD_cons_zero, List.getD_cons_succ, List.take, List.cons_append, List.nil_append]

theorem source_header_decode_is_model (buf : Bytes) (hl : buf.length = 12) :
    Copia.Gen.Loops.headerDecodeGen buf = FrameHeader.decode buf := by
  match buf, hl with
  | [b0, b1, b2, b3, b4, b5, b6, b7, b8, b9, b10, b11], _ =>
    unfold Copia.Gen.Loops.headerDecodeGen FrameHeader.decode validType
    have e1 : Copia.Gen.fromU8Arms = Copia.Gen.msgTypeCodes := rfl
    simp only [Id.run, pure, List.getD_cons_zero, List.getD_cons_succ, List.length_cons, List.length_nil, Copia.Gen.frameHeaderSize, e1,
      List.take, List.drop, List.headD, ne_eq, not_true_eq_false, if_false, Copia.Gen.headerValid]
    by_cases ht : Copia.Gen.msgTypeCodes.contains b8 = true
    · simp only [ht, Bool.not_true, Bool.false_eq_true, if_false]
      by_cases h1 : [b0, b1, b2, b3] = Copia.Gen.protocolMagic
      · by_cases h2 : b9 = Copia.Gen.protocolVersion
        · by_cases h3 : ofLe [b4, b5, b6, b7] > Copia.Gen.maxPayloadSize
          · simp [h1, h2, h3]
          · simp [h1, h2, h3]
        · simp [h1, h2]
      · simp [h1]
    · have hnm : b8 ∉ Copia.Gen.msgTypeCodes := by simpa using ht
      simp [hnm]

/-- so decoding what `encode` wrote gives the header back (for a header that passes the checks), through the SOURCE's two functions -/
theorem source_header_roundtrip (h : FrameHeader) (hm : h.magic.length = 4) (hd : FrameHeader.decode h.encode = some h) :
    Copia.Gen.Loops.headerDecodeGen (Copia.Gen.Loops.headerEncodeGen h) = some h := by
  rw [source_header_encode_is_model h hm, source_header_decode_is_model _ ?_, hd]
  unfold FrameHeader.encode
  simp [le_length, hm]

end Copia.C20
