import Copia.Lemmas.Delta2
/-!
# C01 — delta round-trip reconstructs the source byte-for-byte

Model: `Copia.Model.Delta` (one function per operation; that the sync engine, the async engine, both
signature paths and the CLI file chain all equal it is what the correspondence of `./check C01` shows).
`H` is an arbitrary strong hash; the only assumption on it is the explicit, finite `CollisionFree`.
-/
namespace Copia.C01
open Copia.Delta
open Copia.Checksum (Fast)

variable {D : Type} [DecidableEq D]

/-- what the scan accumulates denotes exactly the source, and every copy lies inside the basis -/
theorem delta_denotes (H : List Nat → D) (bs : Nat) (hbs : 0 < bs) (basis src : List Nat)
    (hcf : CollisionFree H bs basis src) :
    InB basis (delta H (signature H bs basis) src).ops ∧
    render basis (delta H (signature H bs basis) src).ops = src := by
  have hbsz : (signature H bs basis).blockSize = bs := rfl
  unfold delta
  simp only [hbsz]
  by_cases hs : src.isEmpty = true
  · have : src = [] := by simpa using hs
    subst this
    exact ⟨fun _ _ h => by simp [finish] at h, rfl⟩
  · have hs' : src.isEmpty = false := by simpa using hs
    simp only [hs', Bool.false_eq_true, if_false]
    by_cases hb : (signature H bs basis).blocks.isEmpty = true
    · simp only [hb, if_true]
      refine ⟨fun o l h => ?_, ?_⟩
      · have := (mem_finish_copy _ o l).mp h
        exact absurd (copy_mem_pushLiteral [] src o l this) (by simp)
      · rw [render_finish, renderR_pushLiteral]; rfl
    · have hb' : (signature H bs basis).blocks.isEmpty = false := by simpa using hb
      simp only [hb', Bool.false_eq_true, if_false]
      have hsc := scan_render H bs hbs basis src (signature H bs basis).blocks
        (honest_signature H bs hbs basis) hcf (src.length + 1) 0 src (src.drop bs) src.length
        (Fast.new (src.take (min bs src.length))) [] rfl (by omega) rfl rfl (fun _ _ h => by cases h)
      refine ⟨fun o l h => hsc.1 o l ((mem_finish_copy _ o l).mp h), ?_⟩
      rw [render_finish, hsc.2]; rfl

/-- C01 (round trip): applying the delta computed from `src` against the signature of `basis` to
that basis succeeds and yields exactly `src` — for every basis, source and positive block size. -/
theorem roundtrip (H : List Nat → D) (bs : Nat) (hbs : 0 < bs) (basis src : List Nat)
    (hcf : CollisionFree H bs basis src) :
    patch H true basis (delta H (signature H bs basis) src) = (.ok, src) := by
  obtain ⟨hin, hr⟩ := delta_denotes H bs hbs basis src hcf
  have hval : validate (delta H (signature H bs basis) src) = true := by
    unfold validate
    rw [List.all_eq_true]
    intro op hop
    cases op with
    | literal d => rfl
    | copy o l =>
      have := hin o l hop
      have hbsz : (delta H (signature H bs basis) src).basisSize = basis.length := rfl
      simp only [hbsz, decide_eq_true_eq]
      omega
  unfold patch
  rw [hval]
  simp only [Bool.not_true, Bool.false_eq_true, if_false]
  rw [applyOps_render basis _ [] hin, hr]
  have hc : (delta H (signature H bs basis) src).checksum = H src := rfl
  simp [hc]

/-- C01 without any assumption on `H`: the round trip succeeds **or** `H` collides on an explicit
pair (a basis block and a source window) — nothing else can go wrong. -/
theorem roundtrip_or_collision (H : List Nat → D) (bs : Nat) (hbs : 0 < bs) (basis src : List Nat) :
    patch H true basis (delta H (signature H bs basis) src) = (.ok, src) ∨
    ∃ j k, H ((basis.drop (j * bs)).take bs) = H ((src.drop k).take bs) ∧
      (basis.drop (j * bs)).take bs ≠ (src.drop k).take bs := by
  by_cases hcf : CollisionFree H bs basis src
  · exact Or.inl (roundtrip H bs hbs basis src hcf)
  · right
    unfold CollisionFree at hcf
    obtain ⟨j, hj⟩ := Classical.not_forall.mp hcf
    obtain ⟨k, hk⟩ := Classical.not_forall.mp hj
    obtain ⟨h1, h2⟩ := Classical.not_imp.mp hk
    exact ⟨j, k, h1, h2⟩

theorem render_length (basis : List Nat) (ops : List Op) (h : InB basis ops) :
    (render basis ops).length = literalBytes ops + matchedBytes ops := by
  induction ops with
  | nil => rfl
  | cons op t ih =>
    have ht : InB basis t := fun o l hm => h o l (List.mem_cons_of_mem _ hm)
    cases op with
    | copy o l =>
      have := h o l (List.mem_cons_self ..)
      simp [render, renderOp, literalBytes, matchedBytes, ih ht]; omega
    | literal d => simp [render, renderOp, literalBytes, matchedBytes, ih ht]; omega

/-- C01 (well-formed delta): declared source size and checksum are those of the source, copy and
literal lengths sum to the source size, every copy lies inside the basis, and the declared basis
size is the basis's. -/
theorem delta_wellformed (H : List Nat → D) (bs : Nat) (hbs : 0 < bs) (basis src : List Nat)
    (hcf : CollisionFree H bs basis src) :
    let δ := delta H (signature H bs basis) src
    δ.sourceSize = src.length ∧ δ.checksum = H src ∧ δ.basisSize = basis.length ∧
    literalBytes δ.ops + matchedBytes δ.ops = src.length ∧
    (∀ off len, Op.copy off len ∈ δ.ops → off + len ≤ basis.length) := by
  obtain ⟨hin, hr⟩ := delta_denotes H bs hbs basis src hcf
  refine ⟨rfl, rfl, rfl, ?_, hin⟩
  have := render_length basis _ hin
  rw [hr] at this
  exact this.symm

/-- C01 (`sync_files`, the single-file `sync` command): whatever the destination was — absent,
identical, or different — it ends up holding the source bytes. -/
def syncFiles (H : List Nat → D) (bs : Nat) (src : List Nat) (dst : Option (List Nat)) : Option (List Nat) :=
  match dst with
  | none => some src                                   -- no basis: plain copy
  | some basis =>
    if src = basis then some basis                     -- fast path: identical
    else match patch H true basis (delta H (signature H bs basis) src) with
      | (.ok, out) => some out                         -- write temp, rename
      | _ => none                                      -- error: destination untouched

theorem sync_files (H : List Nat → D) (bs : Nat) (hbs : 0 < bs) (src : List Nat) (dst : Option (List Nat))
    (hcf : ∀ basis, dst = some basis → CollisionFree H bs basis src) :
    syncFiles H bs src dst = some src := by
  cases dst with
  | none => rfl
  | some basis =>
    unfold syncFiles
    by_cases he : src = basis
    · simp [he]
    · simp only [he, if_false]
      rw [roundtrip H bs hbs basis src (hcf basis rfl)]

/-! Non-vacuity: identity `H` is collision-free, so the hypotheses are satisfiable; a concrete run. -/
theorem id_collisionFree (bs : Nat) (basis src : List Nat) :
    CollisionFree (fun x => x) bs basis src := fun _ _ h => h

example : patch (fun x => x) true [1, 2, 3, 4, 5, 6, 7]
    (delta (fun x => x) (signature (fun x => x) 2 [1, 2, 3, 4, 5, 6, 7]) [9, 3, 4, 1, 2, 7]) = (.ok, [9, 3, 4, 1, 2, 7]) :=
  roundtrip _ 2 (by decide) _ _ (id_collisionFree _ _ _)

end Copia.C01
