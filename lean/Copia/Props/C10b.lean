import Copia.Lemmas.HubGet
/-!
# C10 — what a client can FETCH: `handle_get` beside any writers

`Copia.Model.HubGet`: one Get (open, length, hashing pass, header, streaming pass — each chunk read a
separate step) interleaved in any way with the Put/Delete processes of `HubConc`, kills included.
-/
namespace Copia.C10
open Copia.HubConc Copia.HubGet

/-- C10 (fetch, the whole reply): under EVERY interleaving of the reader's calls with any writers'
steps and kills, the reply `Content{len, hash}` + streamed bytes of a Get of a non-staging path is
one single complete version: the announced hash is the hash of exactly the bytes streamed, the
announced length is their length, they are initial content or the complete bytes of one write whose
hash the hub verified, and the path held exactly them at an instant after the request began. -/
theorem get_reply_is_one_version {S : Sys} {init : List Chunk → Prop} {s0 t : State} {p : Path}
    {n : Ino} {len : Nat} {h : Hash} {bytes : List Chunk}
    (wf : WF S) (h0 : Inv S init s0) (l0 : LInv S s0) (hp : S.staging p = false)
    (r : GReach S p ⟨s0, .start⟩ ⟨t, .replied n len h bytes⟩) :
    h = S.H bytes ∧ len = bytes.length ∧ Valid S init bytes ∧
      ∃ s, Reach S s0 s ∧ Reach S s t ∧ view S s p = some bytes := by
  obtain ⟨_, c, ⟨_, v, s, r1, r2, e1, e2⟩, el, eh, eb⟩ := ginv_reach wf h0 l0 hp r
  subst eb
  refine ⟨eh, el, v, s, r1, r2, ?_⟩
  simp [view, hp, e1, e2]

/-- C10 (fetch): a "not found" answer means the path was absent at an instant after the request began -/
theorem get_not_found_was_absent {S : Sys} {init : List Chunk → Prop} {s0 t : State} {p : Path}
    (wf : WF S) (h0 : Inv S init s0) (l0 : LInv S s0) (hp : S.staging p = false)
    (r : GReach S p ⟨s0, .start⟩ ⟨t, .notFound⟩) :
    ∃ s, Reach S s0 s ∧ Reach S s t ∧ view S s p = none := by
  obtain ⟨_, s, r1, r2, e⟩ := ginv_reach wf h0 l0 hp r
  exact ⟨s, r1, r2, by simp [view, hp, e]⟩

/-- C10 (fetch): while the reply is being produced nothing the reader has already hashed or streamed
can be taken back: at every intermediate point what went to the hasher, and what went to the client,
is a prefix of the one version pinned at `open`. -/
theorem get_reads_prefixes {S : Sys} {init : List Chunk → Prop} {s0 t : State} {p : Path}
    {n : Ino} {len : Nat} {h : Hash} {sent : List Chunk}
    (wf : WF S) (h0 : Inv S init s0) (l0 : LInv S s0) (hp : S.staging p = false)
    (r : GReach S p ⟨s0, .start⟩ ⟨t, .announced n len h sent⟩) :
    ∃ c, t.ino n = c ∧ h = S.H c ∧ len = c.length ∧ sent = c.take sent.length ∧ Valid S init c := by
  obtain ⟨_, c, ⟨sl, v, _⟩, el, eh, es⟩ := ginv_reach wf h0 l0 hp r
  exact ⟨c, sl.content, eh, el, es, v⟩

/-- non-vacuity: a concrete Get (two chunks) runs to its reply, with a writer step (a kill) in the middle -/
def sx : State := { dir := fun p => if p = 0 then some 0 else none, ino := fun n => if n = 0 then [7, 8] else [],
                    next := 1, lock := none, pc := fun _ => .start }
def Sx : Sys := { H := fun c => c.sum, staging := fun p => decide (100 ≤ p), tmpOf := fun i p => 100 + i + p,
                  cname := fun _ p _ => p, req := fun _ => ⟨0, none, [], 0⟩ }

example : ∃ t, GReach Sx 0 ⟨sx, .start⟩ ⟨t, .replied 0 2 15 [7, 8]⟩ := by
  have a1 := GReach.step (GReach.refl _) (GStep.openOk (S := Sx) (p := 0) sx 0 rfl)
  have a2 := GReach.step a1 (GStep.stat sx 0)
  have a3 := GReach.step a2 (GStep.hashStart sx 0 _)
  have a4 := GReach.step a3 (GStep.hashRead sx 0 _ [] 7 rfl)
  have a5 := GReach.step a4 (GStep.fs sx _ _ (Step.kill sx 3))
  have a6 := GReach.step a5 (GStep.hashRead _ 0 _ [7] 8 rfl)
  have a7 := GReach.step a6 (GStep.hashEof _ 0 _ [7, 8] rfl)
  have a8 := GReach.step a7 (GStep.sendRead _ 0 _ _ [] 7 (by decide) rfl)
  have a9 := GReach.step a8 (GStep.sendRead _ 0 _ _ [7] 8 (by decide) rfl)
  exact ⟨_, GReach.step a9 (GStep.sendDone _ 0 _ _ [7, 8] (Or.inl rfl))⟩

end Copia.C10
