import Copia.Props.C08b
import Copia.Lemmas.Crash5
namespace Copia.C08
open Copia.Crash Copia.Reconcile Copia.Bisync

variable {P C : Type} [DecidableEq P] [DecidableEq C]

/-- C08 (the crash model's complete run IS the run): under NoNameClash, executing every data call of
`Crash.steps` from the pre-run state leaves, at every path and on both sides, exactly what the run
model `Bisync.bisync` (the `apply` loop over live trees) leaves. Together with `whole_run_prefix`:
a run that is not killed ends in the state the uninterrupted run produces, and the new record is
written only then. -/
theorem complete_run_is_the_run (le : P → P → Bool)
    (trans : ∀ a b c, le a b → le b c → le a c) (total : ∀ a b, le a b || le b a)
    (antisymm : ∀ a b, le a b → le b a → a = b) (ge : C → C → Bool) (cname : P → C → P) (s : State P C)
    (nnc : NoNameClash ge cname s.A s.B (bisyncPlan le s)) (q : P) :
    let final := ((runGroups le ge cname s).flatMap Group.steps).foldl exec (initC s)
    get final.A q = get (bisync le ge cname s).state.A q ∧ get final.B q = get (bisync le ge cname s).state.B q := by
  intro final
  obtain ⟨hact, hlive, hnd, _⟩ := plan_facts le trans total antisymm s
  obtain ⟨l, n, hrun, inv, _⟩ := bisync_run le trans total antisymm ge cname s nnc
  rw [bisync_of_run le ge cname s l n hrun]
  have init : RunInv ge cname s.A s.B [] { A := (initC s).A, B := (initC s).B, common := [] } :=
    ⟨fun _ _ => ⟨rfl, rfl⟩, fun _ _ h => by simp at h, fun _ _ _ h => by simp at h⟩
  have hg := run_groups ge cname s.A s.B (baseOf s) (bisyncPlan le s) hact hlive hnd nnc
    (bisyncPlan le s) [] (initC s) (by simp) init
  have hfin : final = ((bisyncPlan le s).flatMap fun pa =>
      (actionGroups ge cname (scan s.A) (scan s.B) pa.1 pa.2).flatMap Group.steps).foldl exec (initC s) := by
    show ((runGroups le ge cname s).flatMap Group.steps).foldl exec (initC s) = _
    unfold runGroups bisyncPlan
    rw [List.flatMap_assoc]
  rw [hfin]
  exact runInv_unique ge cname s.A s.B (bisyncPlan le s) _ l hg inv q

end Copia.C08
