import Copia.Gen.LoopsScan
/-! C14 — the whole-second modification time both sides of the quick check use, from the source as it is now. `meta.rs::mtime_secs` (what a
local scan reads) and `meta.rs::set_local_mtime` (what a local or pulled delivery stamps), both translated on this run:

* `mtime_secs` is the FLOOR of the file's time in seconds, also before 1970 (what `find -printf %T@` truncated to its integer part gives on the
  remote side for times at or after the epoch; the model's `mt`);
* stamping `secs` and reading the file back gives `secs` again, for every `secs` an `i64` holds — so a file delivered with the source's
  whole-second mtime is "unchanged" to the next run's quick check, whatever the sub-second part of the source's time was. -/
namespace Copia.C14
open Copia.ScanSupport

theorem source_mtime_secs_is_floor_after (s n : Nat) (hs : s ≤ 9223372036854775807) :
    Copia.Gen.Loops.mtimeSecsGen (MTime.after s n) = (s : Int) := by
  unfold Copia.Gen.Loops.mtimeSecsGen
  simp [Id.run, pure, toI64OrMax, hs]

theorem mtime_before (s n : Nat) :
    Copia.Gen.Loops.mtimeSecsGen (MTime.before s n) = -(toI64OrMax s) - (if n > 0 then 1 else 0) := by
  unfold Copia.Gen.Loops.mtimeSecsGen
  simp [Id.run, pure]

theorem mtime_after (s n : Nat) : Copia.Gen.Loops.mtimeSecsGen (MTime.after s n) = toI64OrMax s := by
  unfold Copia.Gen.Loops.mtimeSecsGen
  simp [Id.run, pure]

/-- before the epoch the time is `-(s + n/10^9)` seconds: the result `r` is its floor, `r·10^9 ≤ -(s·10^9 + n) < (r+1)·10^9` -/
theorem source_mtime_secs_is_floor_before (s n : Nat) (hs : s ≤ 9223372036854775807) (hn : n < 1000000000) :
    Copia.Gen.Loops.mtimeSecsGen (MTime.before s n) * 1000000000 ≤ -((s : Int) * 1000000000 + n) ∧
    -((s : Int) * 1000000000 + n) < (Copia.Gen.Loops.mtimeSecsGen (MTime.before s n) + 1) * 1000000000 := by
  rw [mtime_before]
  simp only [toI64OrMax, hs, if_true]
  by_cases h0 : n > 0
  · simp only [h0, if_true]; constructor <;> omega
  · have hz : n = 0 := by omega
    subst hz
    simp only [Nat.lt_irrefl, if_false]; constructor <;> omega

/-- **stamp, then stat: the same whole second comes back** -/
theorem source_stamp_then_stat (secs : Int) (h : secs.natAbs ≤ 9223372036854775807) :
    Copia.Gen.Loops.mtimeSecsGen (Copia.Gen.Loops.setLocalMtimeGen secs) = secs := by
  unfold Copia.Gen.Loops.setLocalMtimeGen
  by_cases hp : secs ≥ 0
  · simp only [Id.run, pure, hp, if_true]
    rw [mtime_after]
    simp only [toI64OrMax, h, if_true]
    omega
  · simp only [Id.run, pure, hp, if_false]
    rw [mtime_before]
    simp only [toI64OrMax, h, if_true, Nat.lt_irrefl, if_false]
    omega

example : Copia.Gen.Loops.mtimeSecsGen (MTime.before 2 500000000) = -3 := by decide
example : Copia.Gen.Loops.mtimeSecsGen (MTime.before 2 0) = -2 := by decide

end Copia.C14
