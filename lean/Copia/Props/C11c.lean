import Copia.Lemmas.GenEqLoopsU
import Copia.Props.C11
/-!
# C11 / C13 / C03 — the conflict-copy name, from the source as it is now

`Copia.Gen.Loops.ccPickGen` is the section of `serve.rs::handle_put` from `let mut cn = dst.as_os_str().to_owned();` to
the end of the `while` that looks for a free name, as `tools/rs2lean_do.py` translates it on every run: the name is the
destination + `.conflict-` + the 12 hex of the hash, then `-1`, `-2`, …; a candidate is passed over while something lives
there (`symlink_metadata(..).is_ok()`: a file OR a directory) whose content is not exactly these bytes.
-/
namespace Copia.C11
open Copia.Hub Copia.GenEqLoops

/-- **the conflict-copy name of the translated source is the model's `ccPick`** — every tree, path, hash, fuel. -/
theorem source_conflict_name_is_model {H} [DecidableEq H] (hash : Bytes → H) (t : HTree) (p short : List Char) (h : H)
    (fuel : Nat) (c : List Char) (hg : Copia.Gen.Loops.ccPickGen hash t p short h fuel = some c) :
    c = ccPick hash t p short h fuel 0 := ccPickGen_eq hash t p short h fuel c hg

/-- **… and therefore stays under the served root** (C11) for every accepted request path: the name is built on the
accepted destination by APPENDING to its last component (a name rebuilt from `file_name()` / `with_file_name` — seed
C11-J — changes the translation). -/
theorem source_conflict_name_under_root {H} [DecidableEq H] (hash : Bytes → H) (t : HTree)
    (root rel q short : List Char) (hh : H) (h : safeJoin root rel = some q) (hs : '/' ∉ short) (fuel : Nat) (c : List Char)
    (hg : Copia.Gen.Loops.ccPickGen hash t q short hh fuel = some c) :
    osResolve root <+: osResolve c := by
  rw [ccPickGen_eq hash t q short hh fuel c hg]
  exact accepted_conflict_copy_under_root hash t root rel q short hh h hs fuel 0

/-- **… and is free or already holds exactly these bytes' hash** (C03 "never overwrites", C13 "the loser's content is
retrievable"): a name where a DIRECTORY or other content lives is passed over (a probe that treats "cannot be hashed" as
"free" — seed C13-J — changes the translation). -/
theorem source_conflict_name_free_or_same {H} [DecidableEq H] (hash : Bytes → H) (t : HTree) (p short : List Char) (h : H)
    (fuel : Nat) (c : List Char) (hg : Copia.Gen.Loops.ccPickGen hash t p short h fuel = some c) :
    occupied t (osResolve c) = false ∨ (hget t (osResolve c)).map hash = some h := by
  unfold Copia.Gen.Loops.ccPickGen at hg
  simp only [Id.run, bind, pure, id] at hg
  rw [cc_name_zero] at hg
  have e := cc_forIn (fun c => occupied t (osResolve c) && (Option.map hash (hget t (osResolve c)) != some h))
    (fun n => cnameOf p (short ++ ccSuffix n))
    (fun _ __s =>
      if (!(occupied t (osResolve __s.fst) && Option.map hash (hget t (osResolve __s.fst)) != some h)) = true then
        ForInStep.done (__s.fst, __s.snd.fst, true)
      else ForInStep.yield (cnameOf p (short ++ ccSuffix 0) ++ '-' :: Copia.Meta.decimal (__s.snd.fst + 1), __s.snd.fst + 1, __s.snd.snd))
    (by intro u st; simp only [← cc_name_zero, cc_name_succ]) fuel 0
  rw [e] at hg
  split at hg
  · cases hg
  · rename_i hfin
    injection hg with hg
    rw [← hg]
    have hfin' : (ccLoop (fun c => occupied t (osResolve c) && (Option.map hash (hget t (osResolve c)) != some h))
        (fun n => cnameOf p (short ++ ccSuffix n)) fuel 0).2.2 = true := by simpa using hfin
    exact ccLoop_stops _ _ fuel 0 hfin' |> fun hstop => by
      simp only [Bool.and_eq_false_imp, bne_eq_false_iff_eq] at hstop
      by_cases ho : occupied t (osResolve (ccLoop (fun c => occupied t (osResolve c) && (Option.map hash (hget t (osResolve c)) != some h))
        (fun n => cnameOf p (short ++ ccSuffix n)) fuel 0).1) = true
      · exact Or.inr (hstop ho)
      · exact Or.inl (by simpa using ho)

end Copia.C11

namespace Copia.C13
open Copia.Hub

/-- C13 (the loser's content is retrievable): the conflict-copy name of the TRANSLATED source is free or already holds
exactly the loser's bytes' hash — restated here because C13's clause "a client that lost the CAS finds its content under
the conflict-copy name" stands on it. -/
theorem source_conflict_name_free_or_same {H} [DecidableEq H] (hash : Bytes → H) (t : HTree) (p short : List Char) (h : H)
    (fuel : Nat) (c : List Char) (hg : Copia.Gen.Loops.ccPickGen hash t p short h fuel = some c) :
    occupied t (osResolve c) = false ∨ (hget t (osResolve c)).map hash = some h :=
  Copia.C11.source_conflict_name_free_or_same hash t p short h fuel c hg

end Copia.C13
