import Copia.Lemmas.Bisync1
import Copia.Props.C18
/-!
# C07 — a lost, damaged or foreign archive never causes a delete

`Archive::load` returns `None` for every fault kind (absent, zero-length, truncated, garbage, wrong
shape, other format version, other pair, only `.bak`/`.tmp` left) — that mapping is checked on the
real binary by the correspondence (`SAFE no-base mode` banner vs the harness's prediction); in the
model it is `s.arch = none`. Model: `Copia.Model.Bisync`.
-/
namespace Copia.C07
open Copia.Reconcile Copia.Bisync

variable {P C : Type} [DecidableEq P] [DecidableEq C]

/-- C07 (plan): when the archive is missing / unreadable / foreign (`arch = none` — what `Archive::load`
returns for every fault kind), the plan contains no delete, whatever the two trees are. -/
theorem untrusted_plan_no_delete (le : P → P → Bool) (s : State P C) (h : s.arch = none) (p : P) (act : Action)
    (hm : (p, act) ∈ bisyncPlan le s) : act ≠ .deleteA ∧ act ≠ .deleteB := by
  unfold bisyncPlan at hm
  rw [h] at hm
  exact Copia.C18.untrusted_no_delete le _ _ _ p act hm

/-- C07 (apply): an action other than a delete never removes a path from either side. -/
theorem apply_keeps_paths (ge : C → C → Bool) (cname : P → C → P) (a b : List (P × Fp C))
    (l l' : Live P C) (p : P) (act : Action) (c : Bool)
    (hact : act ≠ .deleteA ∧ act ≠ .deleteB)
    (h : apply ge cname a b l p act = some (l', c)) (q : P) :
    ((get l.A q).isSome → (get l'.A q).isSome) ∧ ((get l.B q).isSome → (get l'.B q).isSome) := by
  cases act with
  | noop => simp [apply] at h; obtain ⟨rfl, _⟩ := h; exact ⟨id, id⟩
  | convergeIdentical => simp [apply] at h; obtain ⟨rfl, _⟩ := h; exact ⟨id, id⟩
  | propagateAtoB =>
    simp only [apply, Option.map_eq_some_iff] at h
    obtain ⟨B', hB, he⟩ := h
    simp only [Prod.mk.injEq] at he
    obtain ⟨rfl, _⟩ := he
    exact ⟨id, copyLive_keeps _ _ _ _ _ q hB⟩
  | propagateBtoA =>
    simp only [apply, Option.map_eq_some_iff] at h
    obtain ⟨A', hA, he⟩ := h
    simp only [Prod.mk.injEq] at he
    obtain ⟨rfl, _⟩ := he
    exact ⟨copyLive_keeps _ _ _ _ _ q hA, id⟩
  | deleteA => exact absurd rfl hact.1
  | deleteB => exact absurd rfl hact.2
  | conflict k =>
    cases k with
    | deleteVsModify =>
      simp only [apply] at h
      split at h
      · simp only [Option.map_eq_some_iff] at h
        obtain ⟨B', hB, he⟩ := h
        simp only [Prod.mk.injEq] at he
        obtain ⟨rfl, _⟩ := he
        exact ⟨id, copyLive_keeps _ _ _ _ _ q hB⟩
      · split at h
        · simp only [Option.map_eq_some_iff] at h
          obtain ⟨A', hA, he⟩ := h
          simp only [Prod.mk.injEq] at he
          obtain ⟨rfl, _⟩ := he
          exact ⟨copyLive_keeps _ _ _ _ _ q hA, id⟩
        · simp at h; obtain ⟨rfl, _⟩ := h; exact ⟨id, id⟩
    | bothChanged =>
      simp only [apply] at h
      split at h
      · next fa fb ha hb =>
        split at h
        · -- A wins
          split at h
          · cases h
          · next B1 hB1 =>
            split at h
            · cases h
            · next A1 hA1 =>
              split at h
              · cases h
              · next B2 hB2 =>
                simp only [Option.some.injEq, Prod.mk.injEq] at h
                obtain ⟨rfl, _⟩ := h
                exact ⟨copyLive_keeps _ _ _ _ _ q hA1,
                  fun hq => copyLive_keeps _ _ _ _ _ q hB2 (copyLive_keeps _ _ _ _ _ q hB1 hq)⟩
        · split at h
          · cases h
          · next A1 hA1 =>
            split at h
            · cases h
            · next B1 hB1 =>
              split at h
              · cases h
              · next A2 hA2 =>
                simp only [Option.some.injEq, Prod.mk.injEq] at h
                obtain ⟨rfl, _⟩ := h
                exact ⟨fun hq => copyLive_keeps _ _ _ _ _ q hA2 (copyLive_keeps _ _ _ _ _ q hA1 hq),
                  copyLive_keeps _ _ _ _ _ q hB1⟩
      · simp at h; obtain ⟨rfl, _⟩ := h; exact ⟨id, id⟩

/-- C07 (whole run): with an untrusted archive, a `bisync` run removes no file from either side —
every path present before the run is present afterwards, also when the run stops on an I/O error. -/
theorem untrusted_run_removes_nothing (le : P → P → Bool) (ge : C → C → Bool) (cname : P → C → P)
    (s : State P C) (h : s.arch = none) (q : P) :
    ((get s.A q).isSome → (get (bisync le ge cname s).state.A q).isSome) ∧
    ((get s.B q).isSome → (get (bisync le ge cname s).state.B q).isSome) := by
  have hplan : ∀ pa ∈ reconcile le (scan s.A) (scan s.B) (s.arch.getD []) s.arch.isSome,
      pa.2 ≠ .deleteA ∧ pa.2 ≠ .deleteB := by
    intro pa hpa
    exact untrusted_plan_no_delete le s h pa.1 pa.2 hpa
  -- generalise over the plan and the live state
  have key : ∀ (plan : List (P × Action)) (l : Live P C) (n : Nat),
      (∀ pa ∈ plan, pa.2 ≠ .deleteA ∧ pa.2 ≠ .deleteB) →
      ((get l.A q).isSome → (get (applyAllPartial ge cname (scan s.A) (scan s.B) plan l n).1.A q).isSome) ∧
      ((get l.B q).isSome → (get (applyAllPartial ge cname (scan s.A) (scan s.B) plan l n).1.B q).isSome) := by
    intro plan
    induction plan with
    | nil => intro l n _; exact ⟨id, id⟩
    | cons pa rest ih =>
      intro l n hp
      obtain ⟨p, act⟩ := pa
      unfold applyAllPartial
      cases happ : apply ge cname (scan s.A) (scan s.B) l p act with
      | none => exact ⟨id, id⟩
      | some r =>
        obtain ⟨l', c⟩ := r
        have hk := apply_keeps_paths ge cname _ _ l l' p act c (hp (p, act) (List.mem_cons_self ..)) happ q
        have ih' := ih l' (if c then n + 1 else n) (fun x hx => hp x (List.mem_cons_of_mem _ hx))
        exact ⟨fun hq => ih'.1 (hk.1 hq), fun hq => ih'.2 (hk.2 hq)⟩
  have hk := key _ { A := s.A, B := s.B, common := (s.arch.getD []).filter fun e => (lookup (scan s.A) e.1).isSome || (lookup (scan s.B) e.1).isSome } 0 hplan
  unfold bisync
  simp only []
  split <;> exact hk

end Copia.C07
