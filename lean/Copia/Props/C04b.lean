import Copia.Lemmas.Target
/-! C04 — `sync SRC DST`: which arguments are remote (`host:path` over ssh) and which are local paths. -/
namespace Copia.C04
open Copia.Target Copia.Meta

/-- `host:path` with a host of more than one byte without `/`, `\\` or `:` is remote, whatever `path` contains -/
theorem location_remote (host path : List Char) (h1 : utf8Len host > 1) (h2 : '/' ∉ host) (h3 : '\\' ∉ host)
    (h4 : ':' ∉ host) : parseLocation (host ++ ':' :: path) = .remote host path := by
  unfold parseLocation
  rw [cut_append ':' host path h4]
  simp [h1, h2, h3]

/-- … and nothing else is -/
theorem location_remote_only (s host path : List Char) (h : parseLocation s = .remote host path) :
    s = host ++ ':' :: path ∧ utf8Len host > 1 ∧ '/' ∉ host ∧ '\\' ∉ host ∧ ':' ∉ host := by
  unfold parseLocation at h
  cases hc : cut ':' s with
  | none => rw [hc] at h; cases h
  | some v =>
    obtain ⟨a, b⟩ := v
    rw [hc] at h
    simp only [] at h
    split at h
    · next hcnd =>
      simp only [Loc.remote.injEq] at h
      obtain ⟨rfl, rfl⟩ := h
      obtain ⟨e1, e2⟩ := cut_spec ':' s a b hc
      exact ⟨e1, hcnd.1, hcnd.2.1, hcnd.2.2, e2⟩
    · cases h

/-- a local answer is always the argument itself, unchanged -/
theorem location_local_is_the_argument (s p : List Char) (h : parseLocation s = .localPath p) : p = s := by
  unfold parseLocation at h
  cases hc : cut ':' s with
  | none => rw [hc] at h; simp only [Loc.localPath.injEq] at h; exact h.symm
  | some v =>
    obtain ⟨a, b⟩ := v
    rw [hc] at h
    simp only [] at h
    split at h
    · cases h
    · simp only [Loc.localPath.injEq] at h; exact h.symm

example : parseLocation "vh:rdst/a:b".toList = .remote "vh".toList "rdst/a:b".toList := by decide
example : parseLocation "C:/x".toList = .localPath "C:/x".toList ∧ parseLocation "./a:b".toList = .localPath "./a:b".toList := by decide

end Copia.C04
