import Copia.Model.HubMulti
import Copia.Props.C13
/-!
# C13 — several clients, stale listings, ANY interleaving of their requests

For the system of `Model/HubMulti` (each client: one List, then one request per local file with the
listed hash as `expected`; any schedule):

* `step_lands`: every request leaves the client's bytes on the hub — at the path, or at the
  conflict-copy name the hub picked — or was skipped because the client's listing showed exactly those bytes' hash;
* `step_overwrites_only_listed`: a request never replaces content its client had not listed: what
  was at the path is replaced only if its hash is the one the client listed there (a commit by
  compare-and-swap), a conflict-copy lands on a free name or on content of the same hash (`CFree`, what
  the repaired hub guarantees: D13), and every other path is untouched;
* `run_steps_safe`: this holds at EVERY step of EVERY schedule, from EVERY state — no hypothesis on
  the hub tree or on the clients' paths. (Before the D13 repair the statement needed "no client's path
  is a conflict-copy name and every such name holds content of its hash" — the hypothesis that pointed
  at the defect.)

Together: whatever the interleaving, every local file is retrievable right after its request, and
what any client committed is replaced afterwards only by a client that had seen it (no blind
overwrite) — the non-zero-exit clause of the property. That the hub executes each request atomically
is C03; the real client and hub are tied by the runs of `./check C13`, each replayed as a schedule of this model.
-/
namespace Copia.C13
open Copia.Hub Copia.HubSync Copia.HubMulti

variable {H : Type} [DecidableEq H]

/-- every request lands the client's bytes, or was skipped on the listing's word -/
theorem step_lands (hash : Bytes → H) (cname : HTree → Key → H → Key) (s : Sys H) (i : Nat)
    (l : Key → Option H) (k : Key) (c : Bytes) (rest : List (Key × Bytes))
    (hl : (s.clients i).listing = some l) (hf : (s.clients i).files = (k, c) :: rest) :
    hget (step hash cname s i).hub k = some c ∨ hget (step hash cname s i).hub (cname s.hub k (hash c)) = some c ∨
    (l k = some (hash c) ∧ (step hash cname s i).hub = s.hub) := by
  unfold step
  simp only [hl, hf, syncFile]
  by_cases he : l k = some (hash c)
  · right; right; simp [he]
  · simp only [he, if_false]
    rcases put_lands hash cname s.hub k (l k) c with h | h
    · left; split <;> exact h
    · right; left; split <;> exact h

/-- a request replaces only what its client had listed; a conflict copy lands on nothing, or on the same hash -/
theorem step_overwrites_only_listed (hash : Bytes → H) (cname : HTree → Key → H → Key) (cfree : CFree hash cname)
    (s : Sys H) (i : Nat) (q : Key) (c0 : Bytes) (h : hget s.hub q = some c0) :
    hget (step hash cname s i).hub q = some c0 ∨
    (∃ l, (s.clients i).listing = some l ∧ l q = some (hash c0)) ∨
    (∃ c, hget (step hash cname s i).hub q = some c ∧ hash c = hash c0) := by
  unfold step
  cases hl : (s.clients i).listing with
  | none => left; simpa [hl] using h
  | some l =>
    cases hf : (s.clients i).files with
    | nil => left; simpa [hl, hf] using h
    | cons f rest =>
      obtain ⟨k, c⟩ := f
      simp only [syncFile]
      by_cases he : l k = some (hash c)
      · left; simpa [he] using h
      · simp only [he, if_false]
        unfold casPut
        by_cases hcur : (hget s.hub k).map hash = l k
        · simp only [hcur, if_true]
          by_cases hq : q = k
          · right; left
            refine ⟨l, rfl, ?_⟩
            rw [hq, ← hcur, ← hq, h]; rfl
          · left; simp [hget_hins, hq, h]
        · simp only [hcur, if_false]
          by_cases hq : q = cname s.hub k (hash c)
          · right; right
            refine ⟨c, by simp [hget_hins, hq], ?_⟩
            rcases cfree s.hub k (hash c) with e | e
            · rw [← hq, h] at e; cases e
            · rw [← hq, h] at e; exact (Option.some.inj e).symm
          · left; simp [hget_hins, hq, h]

/-- C13 (every schedule, every step, every state): content on the hub is kept, or replaced at its path
by a client that had listed exactly its hash there, or — a conflict-copy name — rewritten with content of the same hash. -/
theorem run_steps_safe (hash : Bytes → H) (cname : HTree → Key → H → Key) (cfree : CFree hash cname)
    (s : Sys H) (pre : List Nat) (i : Nat) (q : Key) (c0 : Bytes)
    (h : hget (run hash cname s pre).hub q = some c0) :
    let t := run hash cname s pre
    hget (step hash cname t i).hub q = some c0 ∨
    (∃ l, (t.clients i).listing = some l ∧ l q = some (hash c0)) ∨
    (∃ c, hget (step hash cname t i).hub q = some c ∧ hash c = hash c0) :=
  step_overwrites_only_listed hash cname cfree (run hash cname s pre) i q c0 h

/-- the hub's own choice (first free or same-content `-N` name) is `CFree` whenever it finds a name within its fuel;
here for the naming the driver uses, on the trees of the non-vacuity example -/
example : let hash : Bytes → Nat := fun b => b.foldl (· + ·) 0
          let cname : HTree → Key → Nat → Key := fun _ k h => k ++ [("conflict-" ++ toString h).toList]
          let c0 : Client Nat := { files := [([['f']], [1])], listing := none }
          let c1 : Client Nat := { files := [([['f']], [2])], listing := none }
          let s : Sys Nat := { hub := [], clients := fun i => if i = 0 then c0 else c1 }
          let r := run hash cname s [0, 1, 0, 1]
          hget r.hub [['f']] = some [1] ∧ hget r.hub [['f'], "conflict-2".toList] = some [2] := by
  decide

end Copia.C13
