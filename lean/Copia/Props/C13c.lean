import Copia.Model.HubMulti
import Copia.Props.C13
/-!
# C13 — several clients, stale listings, ANY interleaving of their requests

For the system of `Model/HubMulti` (each client: one List, then one request per local file with the
listed hash as `expected`; any schedule):

* `step_lands`: every request leaves the client's bytes on the hub — at the path, or at the
  conflict-copy name next to it — or was skipped because the client's listing showed exactly those bytes' hash;
* `step_overwrites_only_listed`: a request never replaces content its client had not listed: what
  was at the path is replaced only if its hash is the one the client listed there (a commit by
  compare-and-swap), and a conflict-copy name is only ever rewritten with content of the same hash;
  every other path is untouched;
* `run_ccInv` / `run_steps_safe`: the two facts hold at EVERY step of EVERY schedule, from every
  state in which conflict-copy names hold content of their hash and no client's local path is a
  conflict-copy name.

Together: whatever the interleaving, every local file is retrievable right after its request, and
what any client committed is replaced afterwards only by a client that had seen it (no blind
overwrite) — the non-zero-exit clause of the property. That the hub executes each request atomically
is C03; the real client is tied by the stale-listing and multi-client runs of `./check C13`.
-/
namespace Copia.C13
open Copia.Hub Copia.HubSync Copia.HubMulti

variable {H : Type} [DecidableEq H]

/-- every request lands the client's bytes, or was skipped on the listing's word -/
theorem step_lands (hash : Bytes → H) (cname : Key → H → Key) (s : Sys H) (i : Nat)
    (l : Key → Option H) (k : Key) (c : Bytes) (rest : List (Key × Bytes))
    (hl : (s.clients i).listing = some l) (hf : (s.clients i).files = (k, c) :: rest) :
    hget (step hash cname s i).hub k = some c ∨ hget (step hash cname s i).hub (cname k (hash c)) = some c ∨
    (l k = some (hash c) ∧ (step hash cname s i).hub = s.hub) := by
  unfold step
  simp only [hl, hf, syncFile]
  by_cases he : l k = some (hash c)
  · right; right; simp [he]
  · simp only [he, if_false]
    rcases put_lands hash cname s.hub k (l k) c with h | h
    · left; split <;> exact h
    · right; left; split <;> exact h

/-- a request replaces only what its client had listed -/
theorem step_overwrites_only_listed (hash : Bytes → H) (cname : Key → H → Key) (s : Sys H) (i : Nat)
    (q : Key) (c0 : Bytes) (h : hget s.hub q = some c0) :
    hget (step hash cname s i).hub q = some c0 ∨
    ∃ l k c rest, (s.clients i).listing = some l ∧ (s.clients i).files = (k, c) :: rest ∧
      ((q = k ∧ l k = some (hash c0) ∧ hget (step hash cname s i).hub k = some c) ∨
       (q = cname k (hash c) ∧ hget (step hash cname s i).hub q = some c)) := by
  unfold step
  cases hl : (s.clients i).listing with
  | none => left; simpa [hl] using h
  | some l =>
    cases hf : (s.clients i).files with
    | nil => left; simpa [hl, hf] using h
    | cons f rest =>
      obtain ⟨k, c⟩ := f
      simp only [syncFile]
      by_cases he : l k = some (hash c)
      · left; simpa [he] using h
      · simp only [he, if_false]
        unfold casPut
        by_cases hcur : (hget s.hub k).map hash = l k
        · -- commit at k
          simp only [hcur, if_true]
          by_cases hq : q = k
          · right
            refine ⟨l, k, c, rest, rfl, rfl, Or.inl ⟨hq, ?_, by simp [hget_hins]⟩⟩
            rw [← hcur, ← hq, h]; rfl
          · left; simp [hget_hins, hq, h]
        · simp only [hcur, if_false]
          by_cases hq : q = cname k (hash c)
          · right
            exact ⟨l, k, c, rest, rfl, rfl, Or.inr ⟨hq, by simp [hget_hins, hq]⟩⟩
          · left; simp [hget_hins, hq, h]

/-- conflict-copy names keep holding content of their hash, provided no local path of the stepping client is such a name -/
theorem step_ccInv (hash : Bytes → H) (cname : Key → H → Key)
    (cinj : ∀ k h k' h', cname k h = cname k' h' → h = h')
    (s : Sys H) (i : Nat) (inv : CCInv hash cname s.hub)
    (hnp : ∀ f ∈ (s.clients i).files, ∀ k h, f.1 ≠ cname k h) :
    CCInv hash cname (step hash cname s i).hub := by
  unfold step
  cases hl : (s.clients i).listing with
  | none => simpa [hl] using inv
  | some l =>
    cases hf : (s.clients i).files with
    | nil => simpa [hl, hf] using inv
    | cons f rest =>
      obtain ⟨k, c⟩ := f
      have hk : ∀ k' h', k ≠ cname k' h' := hnp (k, c) (by rw [hf]; simp)
      simp only [syncFile]
      by_cases he : l k = some (hash c)
      · simpa [he] using inv
      · simp only [he, if_false]
        unfold casPut
        intro k' h' c'
        split
        · split <;> (simp only [hget_hins]; split)
          all_goals first
            | (next e => exact absurd e.symm (hk k' h'))
            | (intro hh; exact inv k' h' c' hh)
        · split <;> (simp only [hget_hins]; split)
          all_goals first
            | (next e => intro hh; cases hh; exact (cinj _ _ _ _ e).symm ▸ rfl)
            | (intro hh; exact inv k' h' c' hh)

/-- the remaining local paths of every client only shrink -/
theorem step_files_subset (hash : Bytes → H) (cname : Key → H → Key) (s : Sys H) (i j : Nat) :
    ∀ f ∈ ((step hash cname s i).clients j).files, f ∈ (s.clients j).files := by
  intro f hm
  unfold step at hm
  cases hl : (s.clients i).listing with
  | none =>
    simp only [hl, updC] at hm
    split at hm
    · next e => subst e; exact hm
    · exact hm
  | some l =>
    cases hf : (s.clients i).files with
    | nil => simpa [hl, hf] using hm
    | cons g rest =>
      simp only [hl, hf, updC] at hm
      split at hm
      · next e => subst e; rw [hf]; exact List.mem_cons_of_mem _ hm
      · exact hm

/-- C13 (every schedule): the conflict-copy invariant holds after any schedule -/
theorem run_ccInv (hash : Bytes → H) (cname : Key → H → Key)
    (cinj : ∀ k h k' h', cname k h = cname k' h' → h = h') :
    ∀ (sched : List Nat) (s : Sys H), CCInv hash cname s.hub →
      (∀ j, ∀ f ∈ (s.clients j).files, ∀ k h, f.1 ≠ cname k h) →
      CCInv hash cname (run hash cname s sched).hub ∧
      (∀ j, ∀ f ∈ ((run hash cname s sched).clients j).files, ∀ k h, f.1 ≠ cname k h) := by
  intro sched
  induction sched with
  | nil => intro s h1 h2; exact ⟨h1, h2⟩
  | cons i rest ih =>
    intro s h1 h2
    simp only [run, List.foldl_cons]
    exact ih (step hash cname s i) (step_ccInv hash cname cinj s i h1 (h2 i))
      (fun j f hm => h2 j f (step_files_subset hash cname s i j f hm))

/-- C13 (every schedule, every step): from a state satisfying the conflict-copy invariant, at EVERY
step of EVERY schedule content on the hub is either kept, or replaced at its path by a client that
had listed exactly its hash there, or — at a conflict-copy name — rewritten with content of the same hash. -/
theorem run_steps_safe (hash : Bytes → H) (cname : Key → H → Key)
    (cinj : ∀ k h k' h', cname k h = cname k' h' → h = h')
    (s : Sys H) (hcc : CCInv hash cname s.hub) (hnp : ∀ j, ∀ f ∈ (s.clients j).files, ∀ k h, f.1 ≠ cname k h)
    (pre : List Nat) (i : Nat) (q : Key) (c0 : Bytes)
    (h : hget (run hash cname s pre).hub q = some c0) :
    let t := run hash cname s pre
    hget (step hash cname t i).hub q = some c0 ∨
    (∃ l, (t.clients i).listing = some l ∧ l q = some (hash c0)) ∨
    (∃ c, hget (step hash cname t i).hub q = some c ∧ hash c = hash c0) := by
  intro t
  obtain ⟨hcc', _⟩ := run_ccInv hash cname cinj pre s hcc hnp
  rcases step_overwrites_only_listed hash cname t i q c0 h with h1 | ⟨l, k, c, rest, hl, hf, h2 | h2⟩
  · exact Or.inl h1
  · right; left; exact ⟨l, hl, by rw [h2.1]; exact h2.2.1⟩
  · right; right
    refine ⟨c, h2.2, ?_⟩
    have := hcc' k (hash c) c0 (by rw [← h2.1]; exact h)
    exact this.symm

/-- non-vacuity: two clients with one shared path, the second lists before the first commits (stale) -/
example : let hash : Bytes → Nat := fun b => b.foldl (· + ·) 0
          let cname : Key → Nat → Key := fun k h => k ++ [("conflict-" ++ toString h).toList]
          let c0 : Client Nat := { files := [([['f']], [1])], listing := none }
          let c1 : Client Nat := { files := [([['f']], [2])], listing := none }
          let s : Sys Nat := { hub := [], clients := fun i => if i = 0 then c0 else c1 }
          let r := run hash cname s [0, 1, 0, 1]
          hget r.hub [['f']] = some [1] ∧ hget r.hub [['f'], "conflict-2".toList] = some [2] := by
  decide

end Copia.C13
