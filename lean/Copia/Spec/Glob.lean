/-!
# Spec for C15/C19: wildcard semantics

`*` stands for any run of characters (including none), `?` for exactly one character, every other
character is literal — also when the *text* contains `*` or `?`.
-/
namespace Copia.Plan

inductive Matches : List Char → List Char → Prop
  | nil : Matches [] []
  | star0 {p t} : Matches p t → Matches ('*' :: p) t
  | starS {p c t} : Matches ('*' :: p) t → Matches ('*' :: p) (c :: t)
  | any {p c t} : Matches p t → Matches ('?' :: p) (c :: t)
  | lit {p x t} : x ≠ '*' → x ≠ '?' → Matches p t → Matches (x :: p) (x :: t)

end Copia.Plan
