import Copia.Model.Checksum
/-! # Spec for C17: the definition of the checksum over the bytes in the window. -/
namespace Copia.Checksum

/-- `a = Σ xᵢ`. -/
def specA : List Nat → Nat
  | [] => 0
  | x :: xs => x + specA xs

/-- `b = Σ (n − i)·xᵢ` (first byte has weight `n`). -/
def specB : List Nat → Nat
  | [] => 0
  | x :: xs => (xs.length + 1) * x + specB xs

/-- `((b mod M) << 16) | (a mod M)`. -/
def specDigest (M : Nat) (w : List Nat) : Nat := ((specB w % M) <<< 16) ||| (specA w % M)

/-- maximum window length of the property (= maximum block size). -/
def MAXW : Nat := Gen.maxBlock

def Bytes (w : List Nat) : Prop := ∀ x ∈ w, x < 256

/-- A valid operation on window `w`: bytes are bytes, the window never exceeds `MAXW`, and a slide
removes the byte that really is first (on a non-empty window). -/
def ValidOp (w : List Nat) : Op → Prop
  | .push x => x < 256 ∧ w.length + 1 ≤ MAXW
  | .roll o n => n < 256 ∧ ∃ t, w = o :: t

def ValidRun : List Nat → List Op → Prop
  | _, [] => True
  | w, op :: ops => ValidOp w op ∧ ValidRun (stepW w op) ops

end Copia.Checksum
