import Copia.Model.Reconcile
/-!
# Spec for C18: the documented decision table

`table` is written from the documented rows (module doc of `reconcile.rs`,
`docs/specifications/distributed-sync.md`, and the property text), as a function of presence bits and
the three pairwise equalities of `(digest, ftype)` pairs. It is *not* derived from the model.
-/
namespace Copia.C18
open Copia.Reconcile

/-- Equality of two optional fingerprints *when both are present* (all the table reads). -/
def eqo {D} [DecidableEq D] (x y : Option (Fp D)) : Bool :=
  match x, y with
  | some x, some y => decide (x = y)
  | _, _ => false
/-- The documented table. Rows: equal on both sides → nothing, or record-only if the base differs or
is missing; exactly one side differs from the base → propagate from that side; both differ from the
base and from each other → conflict; one side absent → delete the survivor only if it equals the
base, conflict if it differs, create on the other side if there is no base. -/
def table (pa pb pz ab az bz : Bool) : Action :=
  match pa, pb with
  | false, false => .noop
  | true, true =>
    if ab then (if pz && az then .noop else .convergeIdentical)
    else if !pz then .conflict .bothChanged
    else if az && !bz then .propagateBtoA
    else if bz && !az then .propagateAtoB
    else .conflict .bothChanged
  | true, false =>
    if !pz then .propagateAtoB else if az then .deleteA else .conflict .deleteVsModify
  | false, true =>
    if !pz then .propagateBtoA else if bz then .deleteB else .conflict .deleteVsModify


/-- Mirror image of an action (swap the roles of A and B). -/
def swapAct : Action → Action
  | .propagateAtoB => .propagateBtoA
  | .propagateBtoA => .propagateAtoB
  | .deleteA => .deleteB
  | .deleteB => .deleteA
  | x => x

end Copia.C18
