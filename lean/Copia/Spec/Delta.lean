import Copia.Model.Delta
/-!
# Spec vocabulary for C01 / C05 / C16

What an op list *denotes* against a basis, "every copy lies inside the basis", and the explicit
collision-freeness hypothesis on the strong hash.
-/
namespace Copia.Delta

/-- bytes an op list denotes against `basis` -/
def renderOp (basis : List Nat) : Op → List Nat
  | .copy off len => (basis.drop off).take len
  | .literal d => d

def render (basis : List Nat) : List Op → List Nat
  | [] => []
  | op :: t => renderOp basis op ++ render basis t

/-- all copies lie inside the basis -/
def InB (basis : List Nat) (ops : List Op) : Prop :=
  ∀ off len, Op.copy off len ∈ ops → off + len ≤ basis.length

/-- Equal strong hash ⇒ equal bytes, between every block of the basis and every block-sized window
of the source (the explicit, finite collision-freeness hypothesis on `H`). -/
def CollisionFree {D} (H : List Nat → D) (bs : Nat) (basis src : List Nat) : Prop :=
  ∀ j k, H ((basis.drop (j * bs)).take bs) = H ((src.drop k).take bs) →
    (basis.drop (j * bs)).take bs = (src.drop k).take bs

/-! ## The textbook greedy scan (spec for C16)

Slide a block-sized window over the source; whenever its bytes equal some block of the basis (a
window has exactly `bs` bytes, so only a *full* block can equal it) emit a copy of the first such
block and jump one block; otherwise emit one literal byte. Ops are collected with the same
`push_*` container functions as the real delta (merging is representation, not decision). No
checksums, no hashing: plain byte equality. -/

/-- index of the first block of `l` (blocks of `bs` bytes, numbered from `i`) equal to `w`. -/
def firstEq (bs : Nat) : Nat → Nat → List Nat → List Nat → Option Nat
  | 0, _, _, _ => none
  | fuel+1, i, l, w =>
    if l.isEmpty then none
    else if l.take bs = w then some i
    else firstEq bs fuel (i + 1) (l.drop bs) w

def tscan (bs : Nat) (basis : List Nat) : Nat → List Nat → List Op → List Op
  | 0, rest, rops => pushLiteral rops rest
  | fuel+1, rest, rops =>
    if bs ≤ rest.length then
      match firstEq bs basis.length 0 basis (rest.take bs) with
      | some j => tscan bs basis fuel (rest.drop bs) (pushCopy rops (j * bs) bs)
      | none =>
        match rest with
        | [] => rops
        | x :: rest' => tscan bs basis fuel rest' (pushLiteralByte rops x)
    else pushLiteral rops rest

/-- the textbook delta's op list -/
def textbook (bs : Nat) (basis src : List Nat) : List Op :=
  finish (tscan bs basis (src.length + 1) src [])

end Copia.Delta
