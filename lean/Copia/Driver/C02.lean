import Copia.Driver.Util
import Copia.Model.Bisync
import Copia.Model.Crash
namespace Copia.Driver.C02
open Copia.Bisync Copia.Reconcile Copia.Driver

def parseTree (s : String) : Option (Tree String String) :=
  if s = "-" then some [] else
  (s.splitOn ";").mapM fun kv =>
    match kv.splitOn "=" with
    | [k, v] => do let k ← unhexStr k; some (k, v)
    | _ => none

def showTree (t : Tree String String) : String :=
  if t.isEmpty then "-" else
  ";".intercalate ((t.mergeSort fun a b => pathLe a.1 b.1).map fun (k, v) => hexStr k ++ "=" ++ v)

def toArch (t : Tree String String) : List (String × Fp String) := t.map fun (k, v) => (k, ⟨v, .file⟩)
def ofArch (m : List (String × Fp String)) : Tree String String := m.map fun (k, f) => (k, f.digest)

def cname (host : String) (p : String) (c : String) : String :=
  p ++ ".conflict-" ++ host ++ "-" ++ (c.take 12).toString

def showStatus : Status → String
  | .ok => "ok" | .conflicts => "conflicts" | .ioError => "ioerror"

def showAction : Action → String
  | .noop => "Noop"
  | .propagateAtoB => "PropagateAtoB"
  | .propagateBtoA => "PropagateBtoA"
  | .convergeIdentical => "ConvergeIdentical"
  | .deleteA => "DeleteA"
  | .deleteB => "DeleteB"
  | .conflict .bothChanged => "Conflict(BothChanged)"
  | .conflict .deleteVsModify => "Conflict(DeleteVsModify)"

def parseState (a b z : String) : Option (State String String) := do
  let A ← parseTree a; let B ← parseTree b
  let arch ← if z = "none" then some none else (parseTree z).map (fun t => some (toArch t))
  some { A := A, B := B, arch := arch }

def handle : List String → Option String
  | ["bi", host, a, b, z] => do
    let host ← unhexStr host
    let s ← parseState a b z
    let o := bisync pathLe (fun x y => decide (x ≥ y)) (cname host) s
    let archS := match o.state.arch with | none => "none" | some m => showTree (ofArch m)
    let nconf := if o.status = .ioError then "-" else toString o.nConflicts
    some s!"{showStatus o.status} {o.planLen} {nconf} A={showTree o.state.A} B={showTree o.state.B} arch={archS}"
  | ["biplan", a, b, z] => do
    let s ← parseState a b z
    let pl := bisyncPlan pathLe s
    some (if pl.isEmpty then "-" else ";".intercalate (pl.map fun (p, act) => hexStr p ++ ":" ++ showAction act))
  | _ => none

end Copia.Driver.C02

namespace Copia.Driver.C08
open Copia.Bisync Copia.Crash Copia.Driver Copia.Driver.C02

def sideS : Side → String | .A => "A" | .B => "B"

def showStep : FsStep String String → String
  | .stage s p _ => s!"stage:{sideS s}:{hexStr p}"
  | .sync s p => s!"sync:{sideS s}:{hexStr p}"
  | .publish s p => s!"publish:{sideS s}:{hexStr p}"
  | .unlink s p => s!"unlink:{sideS s}:{hexStr p}"
  | .archStage => "archStage"
  | .archSync => "archSync"
  | .archBak => "archBak"
  | .archPublish => "archPublish"

def handle : List String → Option String
  | ["bisteps", host, a, b, z, af] => do
    let host ← unhexStr host
    let s ← parseState a b z
    let st := steps pathLe (fun x y => decide (x ≥ y)) (cname host) s (af = "1")
    some (if st.isEmpty then "-" else ",".intercalate (st.map showStep))
  | _ => none

end Copia.Driver.C08
