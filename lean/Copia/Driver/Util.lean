/-! Parsing helpers for the line-protocol driver (no Mathlib; compiled into `copia_model`). -/
namespace Copia.Driver

def hexVal (c : Char) : Option Nat :=
  if '0' ≤ c ∧ c ≤ '9' then some (c.toNat - '0'.toNat)
  else if 'a' ≤ c ∧ c ≤ 'f' then some (c.toNat - 'a'.toNat + 10)
  else none

/-- `-` is the empty byte string; otherwise lowercase hex. -/
def unhex (s : String) : Option (List UInt8) :=
  if s = "-" then some [] else
  let rec go : List Char → List UInt8 → Option (List UInt8)
    | [], acc => some acc.reverse
    | [_], _ => none
    | a :: b :: t, acc => do
      let x ← hexVal a
      let y ← hexVal b
      go t (UInt8.ofNat (x * 16 + y) :: acc)
  go s.toList []

def hexDigit (n : Nat) : Char := if n < 10 then Char.ofNat (48 + n) else Char.ofNat (87 + n)

def hex (b : List UInt8) : String :=
  if b.isEmpty then "-" else
  String.ofList (b.foldr (fun x acc => hexDigit (x.toNat / 16) :: hexDigit (x.toNat % 16) :: acc) [])

def unhexStr (s : String) : Option String := do
  let b ← unhex s
  String.fromUTF8? (ByteArray.mk b.toArray)

def hexStr (s : String) : String := hex s.toUTF8.toList

/-- Split a path string on `/` into its components (paths in queries are already normalised:
relative, no empty / `.` / `..` components). -/
def comps (p : String) : List String := p.splitOn "/"

/-- Lexicographic `≤` on component lists = Rust's `Path` ordering for relative normal paths
(`Iterator::cmp` over `Components`, each `Normal` component compared as bytes; for valid UTF-8
byte order = code-point order = Lean's `String` order). -/
def compsLe : List String → List String → Bool
  | [], _ => true
  | _ :: _, [] => false
  | a :: as, b :: bs => if a < b then true else if a = b then compsLe as bs else false

def pathLe (p q : String) : Bool := compsLe (comps p) (comps q)

end Copia.Driver
