import Copia.Model.HubTrace
import Copia.Model.HubMulti
import Copia.Driver.Util
import Copia.Model.Hub
namespace Copia.Driver.C12
open Copia.Hub Copia.Driver

def bytesOf (s : String) : Option (List Nat) := (unhex s).map (·.map (·.toNat))
def hexN (b : List Nat) : String := hex (b.map UInt8.ofNat)
def strOfHex (s : String) : Option (List Char) := (unhexStr s).map (·.toList)

def fnv (b : List Nat) : Nat :=
  b.foldl (fun h x => ((h ^^^ x) * 1099511628211) % 18446744073709551616) 14695981039346656037

/-- request token as printed by `copia-corr cbor req` -/
def parseReq (t : String) : Option (Req String) :=
  match t.splitOn ":" with
  | ["hello", v] => v.toNat?.map .hello
  | ["list"] => some .list
  | ["get", p] => (strOfHex p).map .get
  | ["put", p, e, l, h] => do
    let p ← strOfHex p; let l ← l.toNat?
    some (.put p (if e = "-" then none else some e) l h)
  | ["delete", p, e] => do
    let p ← strOfHex p
    some (.delete p (if e = "-" then none else some e))
  | ["bye"] => some .bye
  | _ => none

def parseTable (s : String) : Option (List (List Nat × String)) :=
  if s = "-" then some [] else
  (s.splitOn ",").mapM fun kv =>
    match kv.splitOn "=" with
    | [k, v] => do let k ← bytesOf k; some (k, v)
    | _ => none

def tlookup (t : List (List Nat × String)) (k : List Nat) : Option String :=
  (t.find? (·.1 == k)).map (·.2)

def compsStr (k : List (List Char)) : String := "/".intercalate (k.map String.ofList)

def parseTree (s : String) : Option HTree :=
  if s = "-" then some [] else
  (s.splitOn ";").mapM fun kv =>
    match kv.splitOn "=" with
    | [k, v] => do
      let k ← strOfHex k; let v ← bytesOf v
      some (osResolve k, v)
    | _ => none

def showReply (hashOf : List Nat → String) : Reply String → String
  | .hello v => s!"hello:{v}"
  | .fingerprints m =>
    let m' := m.mergeSort fun a b => compsStr a.1 ≤ compsStr b.1
    "fps:" ++ (if m'.isEmpty then "-" else ";".intercalate (m'.map fun (k, h) => hexStr (compsStr k) ++ "=" ++ h))
  | .content len h b => s!"content:{len}:{h}:{fnv b}"
  | .putResult c cur => s!"put:{if c then 1 else 0}:{cur.getD "-"}"
  | .deleteResult d cur => s!"del:{if d then 1 else 0}:{cur.getD "-"}"
  | .error m => "error:" ++ m.replace " " "_"
where _unused := hashOf

def showExit : Exit → String
  | .clean => "clean" | .badPrologue => "bad-prologue" | .ioError => "io-error"
  | .frameTooLarge => "frame-too-large" | .badBody => "bad-body"

def handle : List String → Option String
  | ["serve", stream, reqTab, hashTab, tree] => do
    let inp ← bytesOf stream
    let rt ← parseTable reqTab
    let ht ← parseTable hashTab
    let t ← parseTree tree
    let hashOf := fun (b : List Nat) => (tlookup ht b).getD s!"NOHASH-{fnv b}"
    let decode := fun (b : List Nat) => (tlookup rt b).bind parseReq
    let short := fun (h : String) => (h.take 12).toString.toList
    let s := serve hashOf short decode inp t
    let tr := (s.tree.map fun (k, v) => (compsStr k, hashOf v)).mergeSort fun a b => a.1 ≤ b.1
    let trS := if tr.isEmpty then "-" else ";".intercalate (tr.map fun (k, h) => hexStr k ++ "=" ++ h)
    let maxAlloc := s.allocs.foldl max 0
    some s!"exit={showExit s.exit} maxalloc={maxAlloc} replies={"|".intercalate (s.replies.map (showReply hashOf))} tree={trS}"
  | ["hubcalls", kind, cur, expected, declared, content] => do
    -- the labels of a solo Put / Delete (Model/HubTrace): hashes are small numeric codes, 0 = hash of the empty content
    let optNat := fun (t : String) => if t = "-" then some (none : Option Nat) else t.toNat?.map some
    let cur ← optNat cur
    let expected ← optNat expected
    let declared ← declared.toNat?
    let content ← content.toNat?
    let H : List Nat → Nat := fun l => match l with | [] => 0 | [x] => x | _ => 999999
    let S : Copia.HubConc.Sys := { H := H, staging := fun _ => false, tmpOf := fun i p => 1000 + 10 * i + p,
                                   cname := fun _ _ _ => 2000,
                                   req := fun _ => { dst := 0, expected := expected, chunks := if content = 0 then [] else [content], declared := declared } }
    let s0 : Copia.HubConc.State := { dir := fun p => if p = 0 then cur.map (fun _ => 0) else none,
                                      ino := fun n => if n = 0 then (match cur with | some c => if c = 0 then [] else [c] | none => []) else [],
                                      next := 1, lock := none, pc := fun _ => .start }
    let calls := if kind = "put" then (Copia.HubConc.soloPut S s0 1).2 else (Copia.HubConc.soloDelete S s0 1).2
    some (",".intercalate (calls.map Copia.HubConc.Call.name))
  | ["hubmulti", hub, clients, sched] => do
    -- several hub-sync clients, any schedule (Model/HubMulti); a content is represented by the first 6 bytes of its BLAKE3
    let t ← parseTree hub
    let cl ← (clients.splitOn "|").mapM parseTree
    let sc ← (if sched = "-" then some [] else (sched.splitOn ",").mapM String.toNat?)
    -- the repaired hub's choice: `<k>.conflict-<12 hex>`, then `-1`, `-2`, … until free or holding the same content
    let cand := fun (k : List (List Char)) (h : List Nat) (n : Nat) =>
      let sfx := (".conflict-" ++ hexN h).toList ++ ccSuffix n
      match k.reverse with
      | [] => [sfx]
      | last :: rest => rest.reverse ++ [last ++ sfx]
    let cname := fun (t : HTree) (k : List (List Char)) (h : List Nat) =>
      let rec go (fuel n : Nat) : List (List Char) :=
        match fuel with
        | 0 => cand k h n
        | fuel+1 => if occupied t (cand k h n) && decide (hget t (cand k h n) ≠ some h) then go fuel (n+1) else cand k h n
      go (t.length + 1) 0
    let s0 : Copia.HubMulti.Sys (List Nat) := { hub := t, clients := fun i => { files := cl.getD i [], listing := none } }
    let r := Copia.HubMulti.run (fun b => b) cname s0 sc
    let tr := (r.hub.map fun (k, v) => (compsStr k, hexN v)).mergeSort fun a b => a.1 ≤ b.1
    let trS := if tr.isEmpty then "-" else ";".intercalate (tr.map fun (k, h) => hexStr k ++ "=" ++ h)
    let cs := (List.range cl.length).map fun i =>
      let c := (r.clients i).counters
      s!"{c.sent}/{c.skipped}/{c.conflicts}"
    some s!"tree={trS} counters={",".intercalate cs}"
  | ["safejoin", rel] => do
    let rel ← strOfHex rel
    some (match safeJoin [] rel with
      | none => "refused"
      | some _ => "ok " ++ hexStr (compsStr (osResolve rel)))
  | _ => none

end Copia.Driver.C12
