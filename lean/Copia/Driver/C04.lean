import Copia.Driver.Util
import Copia.Driver.C19
import Copia.Model.OneWay
import Copia.Model.Quote
import Copia.Model.Target
import Copia.Model.WalkTree
namespace Copia.Driver.C04
open Copia.OneWay Copia.Plan Copia.Driver

def parseTree (s : String) : Option (Tree String String) :=
  if s = "-" then some [] else
  (s.splitOn ";").mapM fun kv =>
    match kv.splitOn "=" with
    | [k, v] =>
      match v.splitOn ":" with
      | [c, sz, mt, ns] => do
        let k ← unhexStr k; let sz ← sz.toNat?; let mt ← C19.parseInt mt; let ns ← ns.toNat?
        some (k, { content := c, size := sz, mt := mt, ns := ns })
      | _ => none
    | _ => none

def showTree (t : Tree String String) : String :=
  if t.isEmpty then "-" else
  ";".intercalate ((t.mergeSort fun a b => pathLe a.1 b.1).map fun (k, e) =>
    s!"{hexStr k}={e.content}:{e.size}:{e.mt}:{e.ns}")

/-- one frame of the tree parser: a directory being read, its entries so far (latest first) -/
structure WFrame where
  name : String
  readable : Bool
  ents : List (Option (String × Copia.WalkTree.Node))

def mkEntries : List (Option (String × Copia.WalkTree.Node)) → Copia.WalkTree.Entries
  | [] => .nil
  | some (nm, n) :: r => .cons nm n (mkEntries r)
  | none :: r => .bad (mkEntries r)

/-- a tree in preorder: `f:<hex>` file, `l:` symlink to a file, `x:` other symlink, `o:` other kind, `t:` entry whose type
cannot be read, `e:` the entry stream fails here, `D1:<hex>` / `D0:<hex>` open a readable / unreadable directory, `)` closes it -/
def parseWalk (toks : List String) : Option Copia.WalkTree.Node :=
  let rec go : List String → List WFrame → Option Copia.WalkTree.Node
    | [], [root] => some (.dir root.readable (mkEntries root.ents.reverse))
    | [], _ => none
    | ")" :: rest, fr :: parent :: st =>
        go rest ({ parent with ents := some (fr.name, .dir fr.readable (mkEntries fr.ents.reverse)) :: parent.ents } :: st)
    | tok :: rest, fr :: st =>
        match tok.splitOn ":" with
        | [k, h] =>
          match unhexStr h with
          | none => none
          | some nm =>
            let leaf (kd : Copia.WalkTree.Kind) := go rest ({ fr with ents := some (nm, .leaf kd) :: fr.ents } :: st)
            match k with
            | "f" => leaf .file
            | "l" => leaf .linkFile
            | "x" => leaf .linkOther
            | "o" => leaf .other
            | "t" => leaf .badType
            | "e" => go rest ({ fr with ents := none :: fr.ents } :: st)
            | "D1" => go rest ({ name := nm, readable := true, ents := [] } :: fr :: st)
            | "D0" => go rest ({ name := nm, readable := false, ents := [] } :: fr :: st)
            | _ => none
        | _ => none
    | _, [] => none
  go toks [{ name := "", readable := true, ents := [] }]

def compsLe : List String → List String → Bool
  | [], _ => true
  | _ :: _, [] => false
  | a :: as, b :: bs => if a < b then true else if b < a then false else compsLe as bs

def handle : List String → Option String
  | ["walk", t] => do
    let node ← parseWalk (if t = "-" then [] else t.splitOn ",")
    if Copia.WalkTree.clean node then
      let fs := (Copia.WalkTree.files [] node).mergeSort compsLe
      some (if fs.isEmpty then "-" else ",".intercalate (fs.map fun p => hexStr ("/".intercalate p)))
    else some "FAIL"
  | ["ow", del, ex, s, d] => do
    let ex ← C19.parseList ex; let S ← parseTree s; let D ← parseTree d
    let exl := ex.map (·.toList)
    let r := oneWay pathLe (fun (p : String) => isExcluded p.toList exl) (del = "1") S D
    some s!"dest={showTree r.dest} T:{C19.showPaths r.plan.transfer}|S:{r.plan.skipped}|D:{C19.showPaths r.plan.delete} ran={if r.ranPlan then 1 else 0}"
  | ["escape", x] => do
    let x ← unhexStr x
    some (hexStr (String.ofList (Copia.Quote.escape x.toList)))
  | ["ansic", x] => do
    let x ← unhexStr x
    match Copia.Quote.ansiC x.toList with
    | some (d, r) => some s!"{hexStr (String.ofList d)} {hexStr (String.ofList r)}"
    | none => some "NONE"
  | ["loc", x] => do
    let x ← if x = "-" then some "" else unhexStr x
    match Copia.Target.parseLocation x.toList with
    | .localPath p => some s!"L {hexStr (String.ofList p)}"
    | .remote h p => some s!"R {hexStr (String.ofList h)} {hexStr (String.ofList p)}"
  | ["target", x] => do
    let x ← if x = "-" then some "" else unhexStr x
    match Copia.Target.splitTarget x.toList with
    | none => some "L"
    | some (h, r) => some s!"R {hexStr (String.ofList h)} {hexStr (String.ofList r)}"
  | _ => none

end Copia.Driver.C04
