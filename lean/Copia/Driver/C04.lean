import Copia.Driver.Util
import Copia.Driver.C19
import Copia.Model.OneWay
import Copia.Model.Quote
import Copia.Model.Target
namespace Copia.Driver.C04
open Copia.OneWay Copia.Plan Copia.Driver

def parseTree (s : String) : Option (Tree String String) :=
  if s = "-" then some [] else
  (s.splitOn ";").mapM fun kv =>
    match kv.splitOn "=" with
    | [k, v] =>
      match v.splitOn ":" with
      | [c, sz, mt, ns] => do
        let k ← unhexStr k; let sz ← sz.toNat?; let mt ← C19.parseInt mt; let ns ← ns.toNat?
        some (k, { content := c, size := sz, mt := mt, ns := ns })
      | _ => none
    | _ => none

def showTree (t : Tree String String) : String :=
  if t.isEmpty then "-" else
  ";".intercalate ((t.mergeSort fun a b => pathLe a.1 b.1).map fun (k, e) =>
    s!"{hexStr k}={e.content}:{e.size}:{e.mt}:{e.ns}")

def handle : List String → Option String
  | ["ow", del, ex, s, d] => do
    let ex ← C19.parseList ex; let S ← parseTree s; let D ← parseTree d
    let exl := ex.map (·.toList)
    let r := oneWay pathLe (fun (p : String) => isExcluded p.toList exl) (del = "1") S D
    some s!"dest={showTree r.dest} T:{C19.showPaths r.plan.transfer}|S:{r.plan.skipped}|D:{C19.showPaths r.plan.delete} ran={if r.ranPlan then 1 else 0}"
  | ["escape", x] => do
    let x ← unhexStr x
    some (hexStr (String.ofList (Copia.Quote.escape x.toList)))
  | ["ansic", x] => do
    let x ← unhexStr x
    match Copia.Quote.ansiC x.toList with
    | some (d, r) => some s!"{hexStr (String.ofList d)} {hexStr (String.ofList r)}"
    | none => some "NONE"
  | ["loc", x] => do
    let x ← if x = "-" then some "" else unhexStr x
    match Copia.Target.parseLocation x.toList with
    | .localPath p => some s!"L {hexStr (String.ofList p)}"
    | .remote h p => some s!"R {hexStr (String.ofList h)} {hexStr (String.ofList p)}"
  | ["target", x] => do
    let x ← if x = "-" then some "" else unhexStr x
    match Copia.Target.splitTarget x.toList with
    | none => some "L"
    | some (h, r) => some s!"R {hexStr (String.ofList h)} {hexStr (String.ofList r)}"
  | _ => none

end Copia.Driver.C04
