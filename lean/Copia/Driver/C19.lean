import Copia.Driver.Util
import Copia.Model.Meta
import Copia.Model.Find
namespace Copia.Driver.C19
open Copia.Plan Copia.Meta Copia.Driver

def parseInt (s : String) : Option Int :=
  if s.startsWith "-" then (s.drop 1).toString.toNat?.map fun n => -(n : Int) else s.toNat?.map fun n => (n : Int)

def parseMetaMap (s : String) : Option (List (String × FileMeta)) :=
  if s = "-" then some [] else
  (s.splitOn ";").mapM fun kv =>
    match kv.splitOn "=" with
    | [k, v] =>
      match v.splitOn ":" with
      | [sz, mt] => do
        let k ← unhexStr k; let sz ← sz.toNat?; let mt ← parseInt mt
        some (k, { size := sz, mtime := mt })
      | _ => none
    | _ => none

/-- list of hex strings; `~` is the empty string, `-` the empty list -/
def parseList (s : String) : Option (List String) :=
  if s = "-" then some [] else
  (s.splitOn ",").mapM fun x => if x = "~" then some "" else unhexStr x

def showPaths (l : List String) : String :=
  if l.isEmpty then "-" else ",".intercalate (l.map hexStr)

def showMetaMap (m : List (String × FileMeta)) : String :=
  if m.isEmpty then "-" else
  ";".intercalate (m.map fun (k, v) => s!"{hexStr k}={v.size}:{v.mtime}")

def handle : List String → Option String
  | ["glob", p, t] => do
    let p ← unhexStr p; let t ← unhexStr t
    some (toString (globMatch p.toList t.toList))
  | ["excl", r, ex] => do
    let r ← unhexStr r; let ex ← parseList ex
    some (toString (isExcluded r.toList (ex.map (·.toList))))
  | ["plan", del, src, dst, ex] => do
    let src ← parseMetaMap src; let dst ← parseMetaMap dst; let ex ← parseList ex
    let exl := ex.map (·.toList)
    let pl := buildPlan pathLe (fun (p : String) => isExcluded p.toList exl) src dst (del = "1")
    some s!"T:{showPaths pl.transfer}|S:{pl.skipped}|D:{showPaths pl.delete}"
  | ["nt", s, d] => do
    let ps := fun (x : String) => match x.splitOn ":" with
      | [a, b] => do let a ← a.toNat?; let b ← parseInt b; some ({ size := a, mtime := b } : FileMeta)
      | _ => none
    let s ← ps s
    let d ← if d = "-" then some none else (ps d).map some
    some (toString (needsTransfer s d))
  | ["parse", l] => do
    let l ← unhexStr l
    let m := (parseRemoteMeta l.toList).map fun (k, v) => (String.ofList k, v)
    some (showMetaMap (m.mergeSort fun a b => pathLe a.1 b.1))
  | ["render", p, size, secs, frac] => do
    let p ← unhexStr p; let size ← size.toNat?; let secs ← parseInt secs
    let e : Entry := { path := p.toList, size := size, secs := secs, frac := frac.toList }
    some (hexStr (String.ofList (findPrintf (Copia.Gen.findPrintf.map Char.ofNat) e)))
  | _ => none

end Copia.Driver.C19
