import Copia.Driver.Util
import Copia.Model.Reconcile
namespace Copia.Driver.C18
open Copia.Reconcile Copia.Driver

/-- token `-` or `<digest>:<f|s>`; the digest token is kept as an opaque string. -/
def parseFp (s : String) : Option (Option (Fp String)) :=
  if s = "-" then some none else
  match s.splitOn ":" with
  | [d, "f"] => some (some ⟨d, .file⟩)
  | [d, "s"] => some (some ⟨d, .symlink⟩)
  | _ => none

def showAction : Action → String
  | .noop => "Noop"
  | .propagateAtoB => "PropagateAtoB"
  | .propagateBtoA => "PropagateBtoA"
  | .convergeIdentical => "ConvergeIdentical"
  | .deleteA => "DeleteA"
  | .deleteB => "DeleteB"
  | .conflict .bothChanged => "Conflict(BothChanged)"
  | .conflict .deleteVsModify => "Conflict(DeleteVsModify)"

def parseMap (s : String) : Option (List (String × Fp String)) :=
  if s = "-" then some [] else
  (s.splitOn ";").mapM fun kv =>
    match kv.splitOn "=" with
    | [k, v] => do
      let k ← unhexStr k
      let some f ← parseFp v | none
      some (k, f)
    | _ => none

def showPlan (pl : List (String × Action)) : String :=
  if pl.isEmpty then "-" else
  ";".intercalate (pl.map fun (p, a) => hexStr p ++ ":" ++ showAction a)

def handle : List String → Option String
  | ["rp", a, b, z] => do
    let a ← parseFp a; let b ← parseFp b; let z ← parseFp z
    some (showAction (reconcilePath a b z))
  | ["rec", t, a, b, z] => do
    let a ← parseMap a; let b ← parseMap b; let z ← parseMap z
    some (showPlan (reconcile pathLe a b z (t = "1")))
  | _ => none

end Copia.Driver.C18
