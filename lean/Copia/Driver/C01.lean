import Copia.Driver.Util
import Copia.Model.Delta
namespace Copia.Driver.C01
open Copia.Delta Copia.Driver

def fnv (b : List Nat) : Nat :=
  b.foldl (fun h x => ((h ^^^ x) * 1099511628211) % 18446744073709551616) 14695981039346656037

def showOp : Op → String
  | .copy off len => s!"C{off}+{len}"
  | .literal d => s!"L{d.length}:{fnv d}"

def showOps (ops : List Op) : String :=
  if ops.isEmpty then "-" else ",".intercalate (ops.map showOp)

def bytesOf (s : String) : Option (List Nat) := (unhex s).map (·.map (·.toNat))

/-- strong hash in the driver: the identity, wrapped so that a checksum can also be "none of the
strings in play" (`none`). -/
abbrev DD := Option (List Nat)
def HH (x : List Nat) : DD := some x

def parseOp (s : String) : Option Op :=
  match s.toList with
  | 'C' :: r =>
    match (String.ofList r).splitOn "+" with
    | [a, b] => do let a ← a.toNat?; let b ← b.toNat?; some (.copy a b)
    | _ => none
  | 'L' :: r => (bytesOf (String.ofList r)).map .literal
  | _ => none

def parseOps (s : String) : Option (List Op) :=
  if s = "-" then some [] else (s.splitOn ",").mapM parseOp

def showRes : PatchResult → String
  | .ok => "ok" | .invalidCopyBounds => "InvalidCopyBounds" | .io => "Io" | .checksumMismatch => "ChecksumMismatch"

def handle : List String → Option String
  | ["sig", bs, basis] => do
    let bs ← bs.toNat?; let basis ← bytesOf basis
    let sg := signature HH bs basis
    let bl := sg.blocks.map fun b => s!"{b.index}:{b.weak}:{(b.strong.getD []).length}"
    some s!"{sg.blockSize} {sg.fileSize} {sg.blocks.length} {if bl.isEmpty then "-" else ",".intercalate bl}"
  | ["delta", bs, basis, src] => do
    let bs ← bs.toNat?; let basis ← bytesOf basis; let src ← bytesOf src
    let d := delta HH (signature HH bs basis) src
    some s!"{d.blockSize} {d.sourceSize} {d.basisSize} {literalBytes d.ops} {matchedBytes d.ops} {showOps d.ops}"
  | ["patch", verify, basis, bsz, ssz, zsz, cs, ops] => do
    let basis ← bytesOf basis
    let bsz ← bsz.toNat?; let ssz ← ssz.toNat?; let zsz ← zsz.toNat?
    let cs : DD ← if cs = "!" then some none else (bytesOf cs).map some
    let ops ← parseOps ops
    let δ : Delta DD := { blockSize := bsz, sourceSize := ssz, basisSize := zsz, ops := ops, checksum := cs }
    let (r, out) := patch HH (verify = "1") basis δ
    some s!"{showRes r} {out.length} {fnv out}"
  | _ => none

end Copia.Driver.C01
