import Copia.Driver.Util
import Copia.Model.Codec
namespace Copia.Driver.C20
open Copia.Codec Copia.Driver

def bytesOf (s : String) : Option (List Nat) := (unhex s).map (·.map (·.toNat))
def hexN (b : List Nat) : String := hex (b.map UInt8.ofNat)

def utf8 (b : List Nat) : Bool := ByteArray.validateUTF8 (ByteArray.mk (b.map UInt8.ofNat).toArray)

def descSig (s : SignatureW) : String :=
  let bl := s.blocks.map fun b => s!"{b.index}:{b.weak}:{hexN b.strong}"
  s!"{s.blockSize},{s.fileSize},[{";".intercalate bl}]"

def descOp : OpW → String
  | .copy o l => s!"C{o}+{l}"
  | .literal d => s!"L{hexN d}"

def descDelta (d : DeltaW) : String :=
  s!"{d.blockSize},{d.sourceSize},{d.basisSize},{hexN d.checksum},[{";".intercalate (d.ops.map descOp)}]"

def descMsg : Message → String
  | .sigReq f bs => s!"SigReq({f},{bs})"
  | .sigResp f s => s!"SigResp({f},{descSig s})"
  | .deltaData f d => s!"Delta({f},{descDelta d})"
  | .ack f ok m => s!"Ack({f},{if ok then 1 else 0},{match m with | none => "N" | some s => "S" ++ hexN s})"
  | .error c m => s!"Err({c},{hexN m})"
  | .ping s => s!"Ping({s})"
  | .pong s => s!"Pong({s})"

def handle : List String → Option String
  | ["hdrenc", magic, len, t, ver, flags] => do
    let magic ← bytesOf magic; let len ← len.toNat?; let t ← t.toNat?; let ver ← ver.toNat?; let flags ← flags.toNat?
    some (hexN (FrameHeader.encode { magic := magic, length := len, msgType := t, version := ver, flags := flags }))
  | ["hdrdec", b] => do
    let b ← bytesOf b
    some (match FrameHeader.decode b with
      | some h => s!"ok {h.length} {h.msgType} {h.flags}"
      | none => "ERR")
  | ["msgdec", b] => do
    let b ← bytesOf b
    some ((decodeMsg utf8 b).elim "ERR" descMsg)
  | ["msgenc", b] => do
    let b ← bytesOf b
    some ((decodeMsg utf8 b).elim "ERR" fun m => hexN (encMsg m))
  | ["sigdec", b] => do
    let b ← bytesOf b
    some ((decodeSig b).elim "ERR" descSig)
  | ["sigenc", b] => do
    let b ← bytesOf b
    some ((decodeSig b).elim "ERR" fun s => hexN (encSig s))
  | ["deltadec", b] => do
    let b ← bytesOf b
    some ((decodeDelta b).elim "ERR" descDelta)
  | ["deltaenc", b] => do
    let b ← bytesOf b
    some ((decodeDelta b).elim "ERR" fun d => hexN (encDelta d))
  | ["readmsg", b] => do
    let b ← bytesOf b
    some (match readMessage utf8 b with
      | some (m, rest, alloc) => s!"{descMsg m} rest={rest.length} alloc={alloc}"
      | none => "ERR")
  | ["writemsg", b] => do
    -- b = bincode payload of a message; answer = the framed bytes Codec::write_message produces
    let b ← bytesOf b
    some (match decodeMsg utf8 b with
      | some m => (writeMessage m).elim "ERR" hexN
      | none => "ERR")
  | ["clifront", "delta", b] => do
    let b ← bytesOf b
    some (if cliDeltaFront b = .panic then "signal" else "nosignal")
  | ["clifront", "patch", b] => do
    let b ← bytesOf b
    some (if cliPatchFront b = .panic then "signal" else "nosignal")
  | _ => none

end Copia.Driver.C20
