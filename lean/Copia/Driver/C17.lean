import Copia.Driver.Util
import Copia.Model.Checksum
namespace Copia.Driver.C17
open Copia.Checksum Copia.Driver

def hex2 (a b : Char) : Option Nat := do
  let x ← hexVal a; let y ← hexVal b; some (x * 16 + y)

def parseOp (s : String) : Option Op :=
  match s.toList with
  | ['p', a, b] => do let x ← hex2 a b; some (.push x)
  | ['r', a, b, c, d] => do let o ← hex2 a b; let n ← hex2 c d; some (.roll o n)
  | _ => none

def parseOps (s : String) : Option (List Op) :=
  if s = "-" then some [] else (s.splitOn ",").mapM parseOp

def mix (acc d : Nat) : Nat := (acc * 1099511628211 + d + 1) % 18446744073709551616

def handle : List String → Option String
  | ["ck", "R", w, ops] => do
    let w ← unhex w
    let ops ← parseOps ops
    let s0 := Rolling.new (w.map (·.toNat))
    let (s, acc) := ops.foldl (fun (p : Rolling × Nat) op => let s := p.1.step op; (s, mix p.2 s.digest)) (s0, mix 0 s0.digest)
    some s!"{s.digest} {s.a} {s.b} {s.count} {acc}"
  | ["ck", "F", w, ops] => do
    let w ← unhex w
    let ops ← parseOps ops
    let s0 := Fast.new (w.map (·.toNat))
    let (s, acc) := ops.foldl (fun (p : Fast × Nat) op => let s := p.1.step op; (s, mix p.2 s.digest)) (s0, mix 0 s0.digest)
    some s!"{s.digest} {s.count} {acc}"
  | _ => none

end Copia.Driver.C17
