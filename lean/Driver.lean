import Copia.Driver.C01
import Copia.Driver.C02
import Copia.Driver.C04
import Copia.Driver.C12
import Copia.Driver.C17
import Copia.Driver.C18
import Copia.Driver.C19
import Copia.Driver.C20
/-!
Line-protocol driver: one query per input line, one canonical answer per output line.
Built as `lean_exe copia_model` (nothing it imports touches Mathlib).
-/
open Copia.Driver

def dispatch (line : String) : String :=
  let toks := (line.trimAscii.toString.splitOn " ").filter (· ≠ "")
  let r : Option String :=
    match toks with
    | "sig" :: _ | "delta" :: _ | "patch" :: _ => C01.handle toks
    | "bi" :: _ | "biplan" :: _ => C02.handle toks
    | "bisteps" :: _ => C08.handle toks
    | "ow" :: _ | "escape" :: _ | "ansic" :: _ | "loc" :: _ | "target" :: _ | "walk" :: _ => C04.handle toks
    | "serve" :: _ | "safejoin" :: _ | "hubcalls" :: _ | "hubmulti" :: _ => C12.handle toks
    | "ck" :: _ => C17.handle toks
    | "glob" :: _ | "excl" :: _ | "plan" :: _ | "nt" :: _ | "parse" :: _ | "render" :: _ => C19.handle toks
    | "hdrenc" :: _ | "hdrdec" :: _ | "msgdec" :: _ | "msgenc" :: _ | "sigdec" :: _ | "sigenc" :: _
    | "deltadec" :: _ | "deltaenc" :: _ | "readmsg" :: _ | "writemsg" :: _ | "clifront" :: _ => C20.handle toks
    | "rp" :: _ | "rec" :: _ => C18.handle toks
    | _ => none
  r.getD "BAD-QUERY"

partial def loop (h : IO.FS.Stream) (out : IO.FS.Stream) : IO Unit := do
  let line ← h.getLine
  if line.isEmpty then return ()
  out.putStrLn (dispatch line)
  loop h out

def main : IO Unit := do
  let out ← IO.getStdout
  loop (← IO.getStdin) out
  out.flush
