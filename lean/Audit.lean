import Lean
/-!
Axiom audit: `lake env lean --run Audit.lean Copia.Props.C18 …` prints, for every theorem declared
in the given (already built) modules, the axioms it depends on (what `#print axioms` prints).
Output lines: `THEOREM <name> AXIOMS <a1,a2,…>`; also `SORRY <name>` if `sorryAx` is among them.
-/
open Lean

def main (args : List String) : IO UInt32 := do
  initSearchPath (← findSysroot)
  let mods := args.map String.toName
  let env ← importModules (mods.toArray.map fun m => { module := m }) {}
  let mut bad : UInt32 := 0
  for m in mods do
    let some idx := env.getModuleIdx? m
      | IO.eprintln s!"module {m} not found"; return 2
    let data := env.header.moduleData[idx.toNat]!
    for c in data.constNames do
      match env.find? c with
      | some (.thmInfo _) =>
        if c.isInternalDetail then continue
        let (axsN, _) ← (collectAxioms c : CoreM (Array Name)).toIO
          { fileName := "<audit>", fileMap := default } { env := env }
        let axs := axsN.toList.map toString
        IO.println s!"THEOREM {c} AXIOMS {",".intercalate axs}"
        if axs.contains "sorryAx" then bad := 1
      | some (.axiomInfo _) =>
        IO.println s!"AXIOMDECL {c}"
        bad := 1
      | _ => pure ()
  return bad
