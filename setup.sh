#!/bin/sh
# Build the framework from files on disk only (offline). Idempotent.
set -e
cd "$(dirname "$0")"
export CARGO_NET_OFFLINE=true
python3 tools/gen_constants.py || true
python3 tools/rs2lean.py || true
python3 tools/rs2lean_arith.py || true
(cd lean && lake build Copia copia_model)
mkdir -p .build
[ -L .build/repo ] || ln -sfn /repo .build/repo
cp /repo/Cargo.lock harness/Cargo.lock 2>/dev/null || true
(cd harness && CARGO_TARGET_DIR=../.build/target cargo build --release --offline -q)
mkdir -p .build/helper && cp .build/target/release/copia-corr .build/helper/copia-corr
CARGO_TARGET_DIR=.build/cli-target cargo build --offline -q --features cli --bin copia --manifest-path /repo/Cargo.toml
echo setup-ok
